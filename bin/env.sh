# sourced by bin/check and bin/setup
export GOFLAGS=-mod=mod GOPROXY=off GOSUMDB=off GOTOOLCHAIN=local
export VERIF_ROOT="${VERIF_ROOT:-$(cd "$(dirname "${BASH_SOURCE[0]}")/.." && pwd)}"
export GOCACHE="${VERIF_GOCACHE:-/verif/.cache/go-build}"
export VERIF_REPO="${VERIF_REPO:-/repo}"
GO=go1.26
mkdir -p "$VERIF_ROOT/.work" "$VERIF_ROOT/.bin" "$GOCACHE" "$VERIF_ROOT/evidence"
