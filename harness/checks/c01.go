package checks

import (
	"fmt"
	"sort"
	"strings"
	"sync"

	"go.mongodb.org/mongo-driver/bson"
	"go.mongodb.org/mongo-driver/mongo"
	"go.mongodb.org/mongo-driver/mongo/options"

	"github.com/256dpi/lungo"

	"verif/internal/e1"
	"verif/internal/refmodel"
	"verif/internal/world"
)

// ---------------------------------------------------------------------------
// C01 — CRUD through the driver API matches a sequential reference model.
//
// Every letter of the alphabet is a pair: the real driver call and the same
// call on refmodel.DB, both rendered as the same canonical observation.

type c01Env struct {
	m   *refmodel.DB
	bad []string
}

var c01Envs sync.Map // *world.World -> *c01Env

func c01Get(w *world.World) *c01Env {
	v, _ := c01Envs.Load(w)
	return v.(*c01Env)
}

type c01Pair struct {
	real  e1.Call
	model func(m *refmodel.DB) string
}

func (p c01Pair) call() e1.Call {
	return e1.Call{Name: p.real.Name, Do: func(w *world.World) string {
		env := c01Get(w)
		got := p.real.Do(w)
		want := p.model(env.m)
		if got != want {
			env.bad = append(env.bad, fmt.Sprintf("%s returned %q, the reference model returns %q", p.real.Name, got, want))
		}
		return got
	}}
}

func mObsID(n *world.Normalizer, id interface{}) string {
	if id == nil || refmodel.IsMissing(id) {
		return "-"
	}
	return n.JSON(id)
}

func mObsUpdate(res *refmodel.UpdateRes, err error) string {
	if err != nil {
		return refmodel.ErrClass(err)
	}
	ups := 0
	var id interface{}
	if !refmodel.IsMissing(res.UpsertedID) {
		ups, id = 1, res.UpsertedID
	}
	return fmt.Sprintf("ok matched=%d modified=%d upserted=%d id=%s", res.Matched, res.Modified, ups, mObsID(world.NewNormalizer(), id))
}

func mObsDoc(d bson.D, err error) string {
	if err != nil {
		return refmodel.ErrClass(err)
	}
	if d == nil {
		return "ok none"
	}
	return "ok doc=" + world.NewNormalizer().JSON(d)
}

// ---- pair constructors

func pInsertOne(db, coll string, doc bson.D) c01Pair {
	return c01Pair{cInsertOne(db, coll, doc), func(m *refmodel.DB) string {
		id, err := m.Insert(db, coll, doc)
		if err != nil {
			return refmodel.ErrClass(err)
		}
		return "ok id=" + mObsID(world.NewNormalizer(), id)
	}}
}

func pInsertMany(db, coll string, ordered bool, docs ...bson.D) c01Pair {
	return c01Pair{cInsertMany(db, coll, ordered, docs...), func(m *refmodel.DB) string {
		n := world.NewNormalizer()
		cls := "ok"
		ids := ""
		for _, d := range docs {
			id, err := m.Insert(db, coll, d)
			if err != nil {
				cls = refmodel.ErrClass(err)
				if ordered {
					break
				}
				continue
			}
			ids += mObsID(n, id) + ","
		}
		return cls + " ids=" + ids
	}}
}

func pUpdate(db, coll string, many bool, filter, update bson.D, upsert bool) c01Pair {
	return c01Pair{cUpdate(db, coll, many, filter, update, upsert), func(m *refmodel.DB) string {
		return mObsUpdate(m.Update(db, coll, filter, update, nil, many, upsert, nil))
	}}
}

func pUpdateByID(db, coll string, id interface{}, update bson.D, upsert bool) c01Pair {
	return c01Pair{cUpdateByID(db, coll, id, update, upsert), func(m *refmodel.DB) string {
		return mObsUpdate(m.Update(db, coll, bson.D{{Key: "_id", Value: id}}, update, nil, false, upsert, nil))
	}}
}

func pUpdateAF(db, coll string, many bool, filter, update bson.D, af []bson.D) c01Pair {
	return c01Pair{cUpdateAF(db, coll, many, filter, update, af), func(m *refmodel.DB) string {
		return mObsUpdate(m.Update(db, coll, filter, update, nil, many, false, af))
	}}
}

func pCreateMany(db, coll string, keys []bson.D, os []idxOpt) c01Pair {
	return c01Pair{cCreateMany(db, coll, keys, os), func(m *refmodel.DB) string {
		var names []string
		for i := range keys {
			name, err := m.CreateIndex(db, coll, refmodel.Index{Name: os[i].name, Key: keys[i], Unique: os[i].unique, Partial: os[i].partial, Expire: -1})
			if err != nil {
				return refmodel.ErrClass(err) + " names=" + strings.Join(names, ",")
			}
			names = append(names, name)
		}
		return "ok names=" + strings.Join(names, ",")
	}}
}

func pReplace(db, coll string, filter, repl bson.D, upsert bool) c01Pair {
	return c01Pair{cReplace(db, coll, filter, repl, upsert), func(m *refmodel.DB) string {
		return mObsUpdate(m.Replace(db, coll, filter, repl, nil, upsert))
	}}
}

func pDelete(db, coll string, many bool, filter bson.D) c01Pair {
	return c01Pair{cDelete(db, coll, many, filter), func(m *refmodel.DB) string {
		del, err := m.Delete(db, coll, filter, nil, many)
		if err != nil {
			return refmodel.ErrClass(err)
		}
		return fmt.Sprintf("ok deleted=%d", len(del))
	}}
}

func pFindOneAndUpdate(db, coll string, filter, update, sortSpec bson.D, after, upsert bool) c01Pair {
	return c01Pair{cFindOneAndUpdate(db, coll, filter, update, sortSpec, after, upsert), func(m *refmodel.DB) string {
		res, err := m.Update(db, coll, filter, update, sortSpec, false, upsert, nil)
		if err != nil {
			return refmodel.ErrClass(err)
		}
		if after {
			return mObsDoc(res.After, nil)
		}
		return mObsDoc(res.Before, nil)
	}}
}

// pFindOneAndPushRejected is a find-one-and-update whose projection is only rejected on a document that has the array
// the update creates ($elemMatch conditions are evaluated against elements): the call fails and writes nothing when
// a document matches or is upserted, and returns nothing otherwise.
func pFindOneAndPushRejected(db, coll string, filter bson.D, upsert bool) c01Pair {
	name := fmt.Sprintf("%s.%s.FindOneAndUpdate(%s,$push fresh,after,upsert=%v,projection rejected on the new version)", db, coll, J(filter), upsert)
	return c01Pair{e1.Call{Name: name, Do: func(w *world.World) string {
		opt := options.FindOneAndUpdate().SetUpsert(upsert).SetReturnDocument(options.After).SetProjection(bD("fresh", bD("$elemMatch", bD("x", bD("$in", int32(5))))))
		return obsSingle(w.C(db, coll).FindOneAndUpdate(w.Ctx, filter, bD("$push", bD("fresh", bD("x", int32(1)))), opt))
	}}, func(m *refmodel.DB) string {
		// the update itself may be rejected (a uniqueness error of the upsert, $push onto a value that is no array): run
		// it on a copy of the model, the model proper stays as it is in every case
		res, err := m.Clone().Update(db, coll, filter, bD("$push", bD("fresh", bD("x", int32(1)))), nil, false, upsert, nil)
		if err != nil {
			return refmodel.ErrClass(err)
		}
		if res.After == nil {
			return "ok none"
		}
		return "err"
	}}
}

func pFindOneAndReplace(db, coll string, filter, repl, sortSpec bson.D, after, upsert bool) c01Pair {
	return c01Pair{cFindOneAndReplace(db, coll, filter, repl, sortSpec, after, upsert), func(m *refmodel.DB) string {
		res, err := m.Replace(db, coll, filter, repl, sortSpec, upsert)
		if err != nil {
			return refmodel.ErrClass(err)
		}
		if after {
			return mObsDoc(res.After, nil)
		}
		return mObsDoc(res.Before, nil)
	}}
}

func pFindOneAndDelete(db, coll string, filter, sortSpec bson.D) c01Pair {
	return c01Pair{cFindOneAndDelete(db, coll, filter, sortSpec), func(m *refmodel.DB) string {
		del, err := m.Delete(db, coll, filter, sortSpec, false)
		if err != nil {
			return refmodel.ErrClass(err)
		}
		if len(del) == 0 {
			return "ok none"
		}
		return mObsDoc(del[0], nil)
	}}
}

// c01Op is one model-level bulk operation.
type c01Op struct {
	kind        string // insert | updateOne | updateMany | replace | deleteOne | deleteMany
	filter, doc bson.D
	upsert      bool
	af          []bson.D // array filters of an update model
}

func (o c01Op) model() mongo.WriteModel {
	switch o.kind {
	case "insert":
		return mongo.NewInsertOneModel().SetDocument(o.doc)
	case "updateOne":
		mo := mongo.NewUpdateOneModel().SetFilter(o.filter).SetUpdate(o.doc).SetUpsert(o.upsert)
		if o.af != nil {
			var fs []interface{}
			for _, f := range o.af {
				fs = append(fs, f)
			}
			mo.SetArrayFilters(options.ArrayFilters{Filters: fs})
		}
		return mo
	case "updateMany":
		mo := mongo.NewUpdateManyModel().SetFilter(o.filter).SetUpdate(o.doc).SetUpsert(o.upsert)
		if o.af != nil {
			var fs []interface{}
			for _, f := range o.af {
				fs = append(fs, f)
			}
			mo.SetArrayFilters(options.ArrayFilters{Filters: fs})
		}
		return mo
	case "replace":
		return mongo.NewReplaceOneModel().SetFilter(o.filter).SetReplacement(o.doc).SetUpsert(o.upsert)
	case "deleteOne":
		return mongo.NewDeleteOneModel().SetFilter(o.filter)
	}
	return mongo.NewDeleteManyModel().SetFilter(o.filter)
}

func pBulk(db, coll string, ordered bool, label string, ops []c01Op) c01Pair {
	real := cBulk(db, coll, ordered, label, func() []mongo.WriteModel {
		var ms []mongo.WriteModel
		for _, o := range ops {
			ms = append(ms, o.model())
		}
		return ms
	})
	return c01Pair{real, func(m *refmodel.DB) string {
		var errs []string
		ins, match, mod, del, ups := 0, 0, 0, 0, 0
		var upIDs []string
		n := world.NewNormalizer()
		for i, o := range ops {
			var err error
			switch o.kind {
			case "insert":
				_, err = m.Insert(db, coll, o.doc)
				if err == nil {
					ins++
				}
			case "updateOne", "updateMany":
				var r *refmodel.UpdateRes
				r, err = m.Update(db, coll, o.filter, o.doc, nil, o.kind == "updateMany", o.upsert, o.af)
				if err == nil {
					match += r.Matched
					mod += r.Modified
					if !refmodel.IsMissing(r.UpsertedID) {
						ups++
						upIDs = append(upIDs, fmt.Sprintf("%d:%s", i, mObsID(n, r.UpsertedID)))
					}
				}
			case "replace":
				var r *refmodel.UpdateRes
				r, err = m.Replace(db, coll, o.filter, o.doc, nil, o.upsert)
				if err == nil {
					match += r.Matched
					mod += r.Modified
					if !refmodel.IsMissing(r.UpsertedID) {
						ups++
						upIDs = append(upIDs, fmt.Sprintf("%d:%s", i, mObsID(n, r.UpsertedID)))
					}
				}
			default:
				var d []bson.D
				d, err = m.Delete(db, coll, o.filter, nil, o.kind == "deleteMany")
				del += len(d)
			}
			if err != nil {
				errs = append(errs, fmt.Sprintf("%d:%s", i, refmodel.ErrClass(err)))
				if ordered {
					break
				}
			}
		}
		s := "ok"
		if len(errs) > 0 {
			s = strings.Join(errs, ",")
		}
		return s + fmt.Sprintf(" ins=%d match=%d mod=%d del=%d ups=%d[%s]", ins, match, mod, del, ups, strings.Join(upIDs, ","))
	}}
}

func pCreateIndex(db, coll string, keys bson.D, o idxOpt) c01Pair {
	return c01Pair{cCreateIndex(db, coll, keys, o), func(m *refmodel.DB) string {
		ix := refmodel.Index{Name: o.name, Key: keys, Unique: o.unique, Partial: o.partial, Expire: -1}
		if o.expire != nil {
			ix.Expire = int64(*o.expire)
		}
		name, err := m.CreateIndex(db, coll, ix)
		if err != nil {
			return refmodel.ErrClass(err)
		}
		return "ok name=" + name
	}}
}

func pDropIndex(db, coll, name string) c01Pair {
	return c01Pair{cDropIndex(db, coll, name), func(m *refmodel.DB) string {
		return refmodel.ErrClass(m.DropIndex(db, coll, name))
	}}
}

// pDropIndexWithKey drops the index that has exactly this key; a key no index has is an error that drops nothing.
func pDropIndexWithKey(db, coll string, key bson.D) c01Pair {
	return c01Pair{cDropIndexWithKey(db, coll, key), func(m *refmodel.DB) string {
		c := m.C(db, coll, false)
		if c == nil {
			return "err"
		}
		for _, ix := range c.Indexes {
			if refmodel.Cmp(ix.Key, key) == 0 {
				return refmodel.ErrClass(m.DropIndex(db, coll, ix.Name))
			}
		}
		return "err"
	}}
}

func pDropColl(db, coll string) c01Pair {
	return c01Pair{cDropColl(db, coll), func(m *refmodel.DB) string { m.Drop(db, coll); return "ok" }}
}

func pDropDB(db string) c01Pair {
	return c01Pair{cDropDB(db), func(m *refmodel.DB) string { m.Drop(db, ""); return "ok" }}
}

func pCreateColl(db, coll string) c01Pair {
	return c01Pair{cCreateColl(db, coll), func(m *refmodel.DB) string { m.C(db, coll, true); return "ok" }}
}

func jsonList(docs []bson.D) string {
	n := world.NewNormalizer()
	var parts []string
	for _, d := range docs {
		parts = append(parts, n.JSON(d))
	}
	return "ok [" + strings.Join(parts, ",") + "]"
}

func pFind(db, coll string, filter, sortSpec, proj bson.D, skip, limit int64) c01Pair {
	name := fmt.Sprintf("%s.%s.Find(%s,sort=%s,proj=%s,skip=%d,limit=%d)", db, coll, J(filter), J(sortSpec), J(proj), skip, limit)
	return c01Pair{e1.Call{Name: name, Do: func(w *world.World) string {
		opt := options.Find().SetSkip(skip).SetLimit(limit)
		if sortSpec != nil {
			opt.SetSort(sortSpec)
		}
		if proj != nil {
			opt.SetProjection(proj)
		}
		cur, err := w.C(db, coll).Find(w.Ctx, filter, opt)
		if err != nil {
			return world.ErrClass(err)
		}
		var docs []bson.D
		if err := cur.All(w.Ctx, &docs); err != nil {
			return world.ErrClass(err)
		}
		return jsonList(docs)
	}}, func(m *refmodel.DB) string {
		docs, err := m.Find(db, coll, filter, sortSpec, int(skip), int(limit))
		if err != nil {
			return refmodel.ErrClass(err)
		}
		if proj != nil {
			for i := range docs {
				if docs[i], err = refmodel.Project(docs[i], proj); err != nil {
					return refmodel.ErrClass(err)
				}
			}
		}
		return jsonList(docs)
	}}
}

func pFindOne(db, coll string, filter, sortSpec bson.D, skip int64) c01Pair {
	name := fmt.Sprintf("%s.%s.FindOne(%s,sort=%s,skip=%d)", db, coll, J(filter), J(sortSpec), skip)
	return c01Pair{e1.Call{Name: name, Do: func(w *world.World) string {
		opt := options.FindOne().SetSkip(skip)
		if sortSpec != nil {
			opt.SetSort(sortSpec)
		}
		return obsSingle(w.C(db, coll).FindOne(w.Ctx, filter, opt))
	}}, func(m *refmodel.DB) string {
		docs, err := m.Find(db, coll, filter, sortSpec, int(skip), 1)
		if err != nil {
			return refmodel.ErrClass(err)
		}
		if len(docs) == 0 {
			return "ok none"
		}
		return mObsDoc(docs[0], nil)
	}}
}

func pCount(db, coll string, filter bson.D, skip, limit int64) c01Pair {
	name := fmt.Sprintf("%s.%s.CountDocuments(%s,skip=%d,limit=%d)", db, coll, J(filter), skip, limit)
	return c01Pair{e1.Call{Name: name, Do: func(w *world.World) string {
		opt := options.Count().SetSkip(skip)
		if limit > 0 {
			opt.SetLimit(limit)
		}
		n, err := w.C(db, coll).CountDocuments(w.Ctx, filter, opt)
		if err != nil {
			return world.ErrClass(err)
		}
		return fmt.Sprintf("ok %d", n)
	}}, func(m *refmodel.DB) string {
		docs, err := m.Find(db, coll, filter, nil, int(skip), int(limit))
		if err != nil {
			return refmodel.ErrClass(err)
		}
		return fmt.Sprintf("ok %d", len(docs))
	}}
}

func pEstimated(db, coll string) c01Pair {
	return c01Pair{e1.Call{Name: fmt.Sprintf("%s.%s.EstimatedDocumentCount()", db, coll), Do: func(w *world.World) string {
		n, err := w.C(db, coll).EstimatedDocumentCount(w.Ctx)
		if err != nil {
			return world.ErrClass(err)
		}
		return fmt.Sprintf("ok %d", n)
	}}, func(m *refmodel.DB) string {
		docs, _ := m.Find(db, coll, bson.D{}, nil, 0, 0)
		return fmt.Sprintf("ok %d", len(docs))
	}}
}

func pDistinct(db, coll, field string, filter bson.D) c01Pair {
	return c01Pair{e1.Call{Name: fmt.Sprintf("%s.%s.Distinct(%q,%s)", db, coll, field, J(filter)), Do: func(w *world.World) string {
		vals, err := w.C(db, coll).Distinct(w.Ctx, field, filter)
		if err != nil {
			return world.ErrClass(err)
		}
		return "ok " + world.NewNormalizer().JSON(bson.A(vals))
	}}, func(m *refmodel.DB) string {
		docs, err := m.Find(db, coll, filter, nil, 0, 0)
		if err != nil {
			return refmodel.ErrClass(err)
		}
		vals := refmodel.Distinct(docs, field)
		if vals == nil {
			vals = []interface{}{}
		}
		return "ok " + world.NewNormalizer().JSON(bson.A(vals))
	}}
}

// pTxn is a whole session transaction as one call: two writes with reads of the transaction's own state in
// between (they must see its earlier writes), committed or aborted. The model applies the writes directly.
func pTxn(commit bool) c01Pair {
	name := fmt.Sprintf("session{insert {_id:30,a:30}; count; update {a:30}->{b:\"t\"}; find; distinct a}+%s", map[bool]string{true: "commit", false: "abort"}[commit])
	ins := bD("_id", int32(30), "a", int32(30))
	flt, upd := bD("a", int32(30)), bD("$set", bD("b", "t"))
	return c01Pair{e1.Call{Name: name, Do: func(w *world.World) string {
		sess, err := w.Client.StartSession()
		if err != nil {
			return "err"
		}
		defer sess.EndSession(w.Ctx)
		if err := sess.StartTransaction(); err != nil {
			return "err"
		}
		var obs []string
		_ = lungo.WithSession(w.Ctx, sess, func(sc lungo.ISessionContext) error {
			outer := w.Ctx
			w.Ctx = sc
			defer func() { w.Ctx = outer }()
			obs = append(obs, cInsertOne("d", "c", ins).Do(w))
			obs = append(obs, pCount("d", "c", bD(), 0, 0).real.Do(w))
			obs = append(obs, cUpdate("d", "c", true, flt, upd, false).Do(w))
			obs = append(obs, pFind("d", "c", bD("a", bD("$gte", int32(2))), bD("_id", int32(-1)), nil, 0, 0).real.Do(w))
			obs = append(obs, pDistinct("d", "c", "a", bD()).real.Do(w))
			return nil
		})
		if commit {
			obs = append(obs, world.ErrClass(sess.CommitTransaction(w.Ctx)))
		} else {
			obs = append(obs, world.ErrClass(sess.AbortTransaction(w.Ctx)))
		}
		return strings.Join(obs, " | ")
	}}, func(m *refmodel.DB) string {
		work := m
		if !commit {
			work = m.Clone()
		}
		var obs []string
		obs = append(obs, pInsertOne("d", "c", ins).model(work))
		obs = append(obs, pCount("d", "c", bD(), 0, 0).model(work))
		obs = append(obs, pUpdate("d", "c", true, flt, upd, false).model(work))
		obs = append(obs, pFind("d", "c", bD("a", bD("$gte", int32(2))), bD("_id", int32(-1)), nil, 0, 0).model(work))
		obs = append(obs, pDistinct("d", "c", "a", bD()).model(work))
		obs = append(obs, "ok")
		return strings.Join(obs, " | ")
	}}
}

func pListColls(db string) c01Pair {
	return c01Pair{e1.Call{Name: db + ".ListCollectionNames()", Do: func(w *world.World) string {
		names, err := w.Client.Database(db).ListCollectionNames(w.Ctx, bson.D{})
		if err != nil {
			return world.ErrClass(err)
		}
		sort.Strings(names)
		return "ok " + strings.Join(names, ",")
	}}, func(m *refmodel.DB) string {
		var names []string
		for k := range m.Colls {
			if strings.HasPrefix(k, db+".") {
				names = append(names, strings.TrimPrefix(k, db+"."))
			}
		}
		sort.Strings(names)
		return "ok " + strings.Join(names, ",")
	}}
}

func pListDBs() c01Pair {
	return c01Pair{e1.Call{Name: "ListDatabaseNames()", Do: func(w *world.World) string {
		names, err := w.Client.ListDatabaseNames(w.Ctx, bson.D{})
		if err != nil {
			return world.ErrClass(err)
		}
		sort.Strings(names)
		return "ok " + strings.Join(names, ",")
	}}, func(m *refmodel.DB) string {
		set := map[string]bool{"local": true}
		for k := range m.Colls {
			set[strings.SplitN(k, ".", 2)[0]] = true
		}
		var names []string
		for k := range set {
			names = append(names, k)
		}
		sort.Strings(names)
		return "ok " + strings.Join(names, ",")
	}}
}

func pListIndexes(db, coll string) c01Pair {
	return c01Pair{e1.Call{Name: fmt.Sprintf("%s.%s.Indexes().List()", db, coll), Do: func(w *world.World) string {
		cur, err := w.C(db, coll).Indexes().List(w.Ctx)
		if err != nil {
			return world.ErrClass(err)
		}
		var specs []bson.M
		if err := cur.All(w.Ctx, &specs); err != nil {
			return world.ErrClass(err)
		}
		var out []string
		for _, s := range specs {
			out = append(out, fmt.Sprintf("%v unique=%v partial=%v", s["name"], s["unique"] == true, s["partialFilterExpression"] != nil))
		}
		sort.Strings(out)
		return "ok " + strings.Join(out, ";")
	}}, func(m *refmodel.DB) string {
		c := m.C(db, coll, false)
		var out []string
		if c != nil {
			for _, ix := range c.Indexes {
				// like MongoDB, the specification of the _id index does not carry the unique flag
				out = append(out, fmt.Sprintf("%v unique=%v partial=%v", ix.Name, ix.Unique && ix.Name != "_id_", ix.Partial != nil))
			}
		}
		sort.Strings(out)
		return "ok " + strings.Join(out, ";")
	}}
}

// modelKey renders the model exactly like world.DumpCatalog renders the engine (without oplog).
func modelKey(m *refmodel.DB) string {
	var sb strings.Builder
	n := world.NewNormalizer()
	var names []string
	for k := range m.Colls {
		names = append(names, k)
	}
	sort.Strings(names)
	for _, k := range names {
		c := m.Colls[k]
		fmt.Fprintf(&sb, "ns %s docs=%d\n", k, len(c.Docs))
		for _, d := range c.Docs {
			fmt.Fprintf(&sb, " %s\n", n.JSON(d))
		}
		var lines []string
		for _, ix := range c.Indexes {
			p := "-"
			if ix.Partial != nil {
				p = (&world.Normalizer{}).JSON(ix.Partial)
			}
			exp := int64(0)
			if ix.Expire > 0 {
				exp = ix.Expire * 1e9
			} else if ix.Expire == 0 {
				exp = 1
			}
			lines = append(lines, fmt.Sprintf(" idx %s key=%s unique=%v partial=%s expiry=%d\n", ix.Name, (&world.Normalizer{}).JSON(ix.Key), ix.Unique, p, exp))
		}
		sort.Strings(lines)
		for _, l := range lines {
			sb.WriteString(l)
		}
	}
	return sb.String()
}

func c01Alphabet(full bool) []c01Pair {
	i := func(v int) int32 { return int32(v) }
	d1 := bD("_id", i(1), "a", i(1), "b", "x")
	d2 := bD("_id", i(2), "a", i(2), "b", "x")
	d1dup := bD("_id", i(1), "a", i(3))
	dgen := bD("a", i(1))
	d3 := bD("_id", i(3), "a", bson.A{i(1), i(2), i(1)}, "b", bD("c", i(1))) // an array repeating an element: one index key, not two
	ps := []c01Pair{
		pInsertOne("d", "c", d1), pInsertOne("d", "c", d2), pInsertOne("d", "c", d1dup), pInsertOne("d", "c", dgen), pInsertOne("d", "c", d3),
		pInsertMany("d", "c", true, bD("_id", i(4), "a", i(4)), d1dup, bD("_id", i(5), "a", i(5))),
		pInsertMany("d", "c", false, bD("_id", i(4), "a", i(4)), d1dup, bD("_id", i(5), "a", i(5))),
		// an ordered batch whose second document collides in a secondary unique index (when one exists) after the first went in
		pInsertMany("d", "c", true, bD("_id", i(23), "a", i(23)), bD("_id", i(24), "a", i(1)), bD("_id", i(25), "a", i(25))),
		pFind("d", "c", bD(), bD("a", i(-1)), nil, 1, 1),
		pFind("d", "c", bD("a", bD("$gte", i(2))), nil, nil, 0, 0),
		pFind("d", "c", bD(), bD("b", i(1), "_id", i(-1)), bD("a", i(1)), 0, 2),
		pFindOne("d", "c", bD("b", "x"), bD("a", i(-1)), 0),
		pCount("d", "c", bD("b", "x"), 1, 0), pCount("d", "c", bD(), 0, 1),
		pDistinct("d", "c", "a", bD()), pEstimated("d", "c"),
		pUpdate("d", "c", false, bD("_id", i(1)), bD("$set", bD("a", i(2))), false),
		pUpdate("d", "c", true, bD("b", "x"), bD("$inc", bD("a", i(1))), false),
		pUpdate("d", "c", true, bD(), bD("$unset", bD("b", "")), false),
		pUpdate("d", "c", false, bD("_id", i(3)), bD("$push", bD("a", i(9))), false),
		pUpdate("d", "c", false, bD("_id", i(7), "z", bD("$eq", i(1))), bD("$set", bD("a", i(2)), "$setOnInsert", bD("s", true)), true),
		pUpdate("d", "c", false, bD("a", i(8)), bD("$set", bD("b", "u")), true),
		pUpdate("d", "c", false, bD("_id", i(1)), bD("$set", bD("_id", i(9))), false),
		pUpdate("d", "c", true, bD(), bD("$inc", bD("b", i(1))), false),
		pUpdateByID("d", "c", i(2), bD("$inc", bD("a", i(-1))), false),
		pUpdateByID("d", "c", i(40), bD("$set", bD("a", i(1))), true),
		pUpdateAF("d", "c", true, bD(), bD("$set", bD("a.$[x]", i(0))), []bson.D{bD("x", bD("$gte", i(2)))}),
		pCreateMany("d", "c", []bson.D{bD("b", i(1)), bD("a", i(1))}, []idxOpt{{}, {unique: true}}),
		pReplace("d", "c", bD("_id", i(2)), bD("a", i(7), "q", true), false),
		pReplace("d", "c", bD("_id", i(6)), bD("a", i(6)), true),
		pReplace("d", "c", bD("_id", i(1)), bD("_id", i(2), "a", i(0)), false),
		pReplace("d", "c", bD("a", i(2)), bD("_id", i(2), "a", i(2), "b", "x"), false),
		pDelete("d", "c", false, bD("b", "x")), pDelete("d", "c", true, bD("a", bD("$gte", i(2)))),
		pFindOneAndUpdate("d", "c", bD("b", "x"), bD("$inc", bD("a", i(10))), bD("a", i(-1)), true, false),
		pFindOneAndUpdate("d", "c", bD("_id", i(8)), bD("$set", bD("a", i(1))), nil, false, true),
		pFindOneAndReplace("d", "c", bD("a", bD("$lte", i(2))), bD("a", i(2), "r", i(1)), bD("_id", i(-1)), false, false),
		// documents inside arrays and arrays inside arrays, written in place through index paths and array filters
		pInsertOne("d", "c", bD("_id", i(13), "items", bson.A{bD("k", i(1), "q", i(1)), bD("k", i(2), "q", i(2))}, "grid", bson.A{bson.A{i(1), i(2)}, bson.A{i(3), i(4)}})),
		pUpdate("d", "c", false, bD("_id", i(13)), bD("$set", bD("items.1.q", i(9)), "$inc", bD("grid.1.0", i(5))), false),
		pUpdateAF("d", "c", true, bD("_id", i(13)), bD("$inc", bD("items.$[e].q", i(1)), "$set", bD("grid.0.$[]", i(0))), []bson.D{bD("e.k", bD("$gte", i(2)))}),
		pUpdate("d", "c", false, bD("_id", i(13)), bD("$set", bD("items.0.q", i(7), "grid.1.1", i(8)), "$inc", bD("items.1.k", "x")), false),
		// operands equal to the stored value in another numeric type: nothing changes
		pUpdate("d", "c", false, bD("_id", i(2)), bD("$max", bD("a", int64(2))), false),
		pUpdate("d", "c", true, bD("a", i(2)), bD("$min", bD("a", 2.0)), false),
		// upserts: what the new document takes from the filter does not depend on the order of the operators of a field
		pUpdate("d", "c", false, bD("a", bD("$gt", i(100), "$eq", i(150))), bD("$set", bD("b", "u1")), true),
		pUpdate("d", "c", false, bD("a", bD("$eq", i(160), "$gt", i(100))), bD("$set", bD("b", "u2")), true),
		pUpdate("d", "c", false, bD("$and", bson.A{bD("a", i(170)), bD("b", bD("$in", bson.A{"u3"}))}), bD("$inc", bD("n", i(1))), true),
		// an upsert whose update sets another _id than the one its filter fixes is rejected; without an _id in the filter
		// the update chooses it
		pUpdate("d", "c", false, bD("_id", i(15)), bD("$set", bD("_id", i(16), "b", "u4")), true),
		pUpdate("d", "c", false, bD("b", "u5"), bD("$set", bD("_id", i(17))), true),
		// malformed updates are rejected whether or not a document matches
		pUpdate("d", "c", false, bD("_id", i(2)), bD("$max", bD("a", i(1)), "$min", bD("a", i(5))), false),
		pUpdate("d", "c", true, bD("_id", i(77)), bD("$bogus", bD("a", i(1))), false),
		pUpdate("d", "c", false, bD("_id", i(77)), bD("$set", i(5)), false),
		// find-one-and-modify calls that return the new version although nothing changes
		pFindOneAndUpdate("d", "c", bD("_id", i(1)), bD("$set", bD("b", "x")), nil, true, false),
		pFindOneAndReplace("d", "c", bD("_id", i(2)), bD("a", i(2), "b", "x"), nil, true, false),
		// a projection that is only rejected on the new version of the document
		pFindOneAndPushRejected("d", "c", bD("_id", i(1)), false),
		pFindOneAndPushRejected("d", "c", bD("_id", i(14)), true),
		// a sort equal to the key of the (partial) unique index
		pFind("d", "c", bD(), bD("a", i(1)), nil, 0, 0),
		pFindOneAndDelete("d", "c", bD(), bD("a", i(1), "_id", i(-1))),
		pBulk("d", "c", true, "ins,upd,del,dupins,ins", []c01Op{{kind: "insert", doc: bD("_id", i(10), "a", i(10))}, {kind: "updateMany", filter: bD(), doc: bD("$set", bD("k", i(1)))}, {kind: "deleteOne", filter: bD("_id", i(2))}, {kind: "insert", doc: d1dup}, {kind: "insert", doc: bD("_id", i(11))}}),
		pBulk("d", "c", false, "ins,upd,del,dupins,ins", []c01Op{{kind: "insert", doc: bD("_id", i(10), "a", i(10))}, {kind: "updateMany", filter: bD(), doc: bD("$set", bD("k", i(1)))}, {kind: "deleteOne", filter: bD("_id", i(2))}, {kind: "insert", doc: d1dup}, {kind: "insert", doc: bD("_id", i(11))}}),
		pBulk("d", "c", false, "upsert-replace,upsert-update,delMany", []c01Op{{kind: "replace", filter: bD("_id", i(12)), doc: bD("a", i(1)), upsert: true}, {kind: "updateOne", filter: bD("a", i(77)), doc: bD("$set", bD("b", "x")), upsert: true}, {kind: "deleteMany", filter: bD("a", i(1))}}),
		// two update models of one batch: the array filters of the first are not those of the second (which has none and
		// is rejected for its unbound identifier)
		pBulk("d", "c", false, "upd{13: items.$[e].q+1, e.k>=2};upd{13: items.$[e].q=0, no filters};upd{13: n+1}", []c01Op{
			{kind: "updateOne", filter: bD("_id", i(13)), doc: bD("$inc", bD("items.$[e].q", i(1))), af: []bson.D{bD("e.k", bD("$gte", i(2)))}},
			{kind: "updateOne", filter: bD("_id", i(13)), doc: bD("$set", bD("items.$[e].q", i(0)))},
			{kind: "updateOne", filter: bD("_id", i(13)), doc: bD("$inc", bD("n", i(1)))}}),
		// a batch whose later item fails half-way through the index updates (secondary unique index)
		pBulk("d", "c", true, "ins{20};upd{1->a:2};ins{21}", []c01Op{{kind: "insert", doc: bD("_id", i(20), "a", i(20))}, {kind: "updateOne", filter: bD("_id", i(1)), doc: bD("$set", bD("a", i(2)))}, {kind: "insert", doc: bD("_id", i(21))}}),
		pBulk("d", "c", false, "updMany{a:5};ins{22,a:1};del{1}", []c01Op{{kind: "updateMany", filter: bD(), doc: bD("$set", bD("a", i(5)))}, {kind: "insert", doc: bD("_id", i(22), "a", i(1))}, {kind: "deleteOne", filter: bD("_id", i(1))}}),
		pCreateIndex("d", "c", bD("a", i(1)), idxOpt{unique: true}),
		pCreateIndex("d", "c", bD("b", i(1)), idxOpt{}),
		pCreateIndex("d", "c", bD("a", i(1)), idxOpt{unique: true, partial: bD("b", bD("$exists", true)), name: "pa"}),
		pDropIndex("d", "c", "a_1"), pDropIndex("d", "c", "*"), pListIndexes("d", "c"),
		// by key: the index with this key, and a key (another direction) that no index has
		pDropIndexWithKey("d", "c", bD("b", i(1))), pDropIndexWithKey("d", "c", bD("a", i(-1))),
		pDropColl("d", "c"), pDropDB("d"), pCreateColl("d", "c"), pListColls("d"), pListDBs(),
		pInsertOne("d", "e", bD("_id", i(1), "a", i(1))), pFind("d", "e", bD(), nil, nil, 0, 0),
		// a collection whose name starts with the name of another one
		pInsertOne("d", "cc", bD("_id", i(1), "a", i(1))), pFind("d", "cc", bD(), nil, nil, 0, 0),
		// windows beyond the end of the collection
		pCount("d", "c", bD(), 5, 0), pCount("d", "c", bD(), 1, 1), pFind("d", "c", bD(), nil, nil, 5, 0),
		pTxn(true), pTxn(false),
	}
	_ = full
	return ps
}

func init() {
	Register("C01", "model_checking", func(c *Ctx) {
		r := c.R
		pairs := c01Alphabet(!c.Quick())
		var alpha []e1.Call
		for _, p := range pairs {
			alpha = append(alpha, p.call())
		}
		// quick: all sequences <= 3 from the empty database and <= 3 from each non-initial start state;
		// thorough: <= 5 and <= 4
		// thorough: the same, plus depth 4 over the first 40 calls of the alphabet from the same three start states
		depth, seedDepth := 3, 3
		var compared, stateChecks int64
		var mu sync.Mutex
		cfg := e1.Config{
			ReplayNames: c.ReplayCalls(),
			Alphabet:    alpha,
			Depth:       depth,
			New: func() *world.World {
				w := world.New()
				c01Envs.Store(w, &c01Env{m: refmodel.NewDB()})
				return w
			},
			Before: func(w *world.World, path []int) interface{} {
				c01Get(w).bad = nil
				return nil
			},
			After: func(w *world.World, path []int, pre interface{}, obs string) {
				env := c01Get(w)
				defer c01Envs.Delete(w)
				names := e1.Names(alpha, path)
				for _, b := range env.bad {
					r.Violation("result:"+callKind(names[len(names)-1]), b+"; after "+strings.Join(names[:len(names)-1], " ; "), map[string]interface{}{"calls": names})
				}
				got, want := w.Key(), modelKey(env.m)
				if got != want {
					r.Violation("contents:"+callKind(names[len(names)-1]), fmt.Sprintf("after %s the contents differ from the reference model:\n--- lungo\n%s--- model\n%s", strings.Join(names, " ; "), got, want), map[string]interface{}{"calls": names})
				}
				// damage that the contents do not show (a document the indexes no longer find): every document must still
				// be writable and removable, with the results the model gives (the engine is discarded afterwards)
				if got == want {
					var colls []string
					for k := range env.m.Colls {
						colls = append(colls, k)
					}
					sort.Strings(colls)
					for _, k := range colls {
						parts := strings.SplitN(k, ".", 2)
						for _, p := range []c01Pair{pUpdate(parts[0], parts[1], true, bD(), bD("$set", bD("probe", int32(1))), false), pDelete(parts[0], parts[1], true, bD())} {
							g := p.real.Do(w)
							m := p.model(env.m)
							if g != m {
								r.Violation("later-write:"+callKind(names[len(names)-1]), fmt.Sprintf("after %s a following %s returns %q, the reference model %q", strings.Join(names, " ; "), p.real.Name, g, m), map[string]interface{}{"calls": append(append([]string{}, names...), p.real.Name)})
							}
						}
					}
				}
				mu.Lock()
				compared++
				stateChecks++
				mu.Unlock()
			},
			Stop: r.TooMany,
		}
		st := e1.BFS(cfg)
		// the same search started from non-initial states (documents and indexes already in place)
		find := func(prefix string) int {
			for k, a := range alpha {
				if strings.HasPrefix(a.Name, prefix) {
					return k
				}
			}
			panic("no call " + prefix)
		}
		seeds := [][]int{
			{find("d.c.InsertOne({\"_id\":{\"$numberInt\":\"1\"}"), find("d.c.InsertOne({\"_id\":{\"$numberInt\":\"2\"}"), find("d.c.CreateIndex({\"a\":{\"$numberInt\":\"1\"}},unique=true,partial=null")},
			{find("d.c.InsertOne({\"_id\":{\"$numberInt\":\"1\"}"), find("d.c.InsertOne({\"_id\":{\"$numberInt\":\"3\"}"), find("d.c.InsertOne({\"a\""), find("d.c.CreateIndex({\"b\"")},
		}
		var seededStates, seededTrans int64
		seedExh := true
		for _, seed := range seeds {
			seed := seed
			sc := cfg
			sc.Depth = seedDepth
			sc.New = func() *world.World {
				w := cfg.New()
				for _, k := range seed {
					alpha[k].Do(w)
				}
				return w
			}
			inner := cfg.After
			sc.After = func(w *world.World, path []int, pre interface{}, obs string) {
				inner(w, append(append([]int{}, seed...), path...), pre, obs)
			}
			ss := e1.BFS(sc)
			seededStates += ss.States
			seededTrans += ss.Transitions
			seedExh = seedExh && ss.Exhaustive
			st.Outcomes += ss.Outcomes
			st.Nontrivial += ss.Nontrivial
			st.ReplayCalls += ss.ReplayCalls
		}
		st.Exhaustive = st.Exhaustive && seedExh
		// thorough: one level deeper over the writing calls of the alphabet (reads do not change the state; they are
		// compared at every level above), from the empty database and from the same start states
		if !c.Quick() && len(c.ReplayCalls()) == 0 {
			var core []e1.Call
			var coreMap []int
			for k, a := range alpha {
				kind := callKind(a.Name)
				switch kind {
				case "Find", "FindOne", "CountDocuments", "EstimatedDocumentCount", "Distinct", "ListCollectionNames", "ListDatabaseNames", "List":
					continue
				}
				if strings.HasPrefix(a.Name, "ListDatabaseNames") || strings.Contains(a.Name, ".Indexes().List") {
					continue
				}
				core = append(core, a)
				coreMap = append(coreMap, k)
			}
			// (every second writing call: the state space of depth 4 over all of them does not fit into memory)
			var c2 []e1.Call
			var m2 []int
			for k := range core {
				if k%2 == 0 {
					c2 = append(c2, core[k])
					m2 = append(m2, coreMap[k])
				}
			}
			core, coreMap = c2, m2
			translate := func(path []int) []int {
				out := make([]int, len(path))
				for i, p := range path {
					out[i] = coreMap[p]
				}
				return out
			}
			var deepStates, deepTrans int64
			starts := append([][]int{nil}, seeds...)
			for _, seed := range starts {
				seed := seed
				dc := cfg
				dc.Alphabet = core
				dc.Depth = 4
				dc.MaxStates = 400000
				dc.New = func() *world.World {
					w := cfg.New()
					for _, k := range seed {
						alpha[k].Do(w)
					}
					return w
				}
				inner := cfg.After
				dc.After = func(w *world.World, path []int, pre interface{}, obs string) {
					inner(w, append(append([]int{}, seed...), translate(path)...), pre, obs)
				}
				ds := e1.BFS(dc)
				deepStates += ds.States
				deepTrans += ds.Transitions
				st.Exhaustive = st.Exhaustive && ds.Exhaustive
				st.ReplayCalls += ds.ReplayCalls
			}
			seededStates += deepStates
			seededTrans += deepTrans
			r.Set("depth_4_writing_calls", int64(len(core)))
			r.Set("depth_4_states", deepStates)
			r.Set("depth_4_transitions", deepTrans)
		}
		r.Set("seeded_start_states", int64(len(seeds)))
		r.Set("seeded_states", seededStates)
		r.Set("seeded_transitions", seededTrans)
		r.Set("states", st.States+seededStates)
		r.Set("transitions", st.Transitions+seededTrans)
		r.Set("replay_calls", st.ReplayCalls)
		r.Set("max_depth", int64(st.MaxDepth))
		r.Set("frontier_left", int64(st.Frontier))
		r.Set("distinct_outcomes", st.Outcomes)
		r.Set("distinct_nontrivial", st.Nontrivial)
		r.Set("evaluations", st.Transitions+seededTrans)
		r.Set("traces_validated_against_impl", st.Transitions+seededTrans)
		r.Set("results_compared", compared)
		r.Set("exhaustive", st.Exhaustive && !r.TooMany())
		r.Set("alphabet_size", int64(len(alpha)))
		var names []string
		for _, a := range alpha {
			names = append(names, a.Name)
		}
		r.Set("alphabet", names)
		r.Set("samples", []interface{}{map[string]interface{}{"shortest_paths": toIface(st.Shortest)}, map[string]interface{}{"longest_paths": toIface(st.Longest)}, map[string]interface{}{"new_states_per_level": st.PerLevel}})
		r.Set("rule", "E1 BFS with state deduplication: every sequence <= max_depth of the alphabet, each call executed on an engine rebuilt by replay and, in lock-step, on the plain Go reference model (slice of documents + index definitions); the canonical observation of every call (error class, counts, ids, returned documents) and the complete contents of every collection and its index definitions after every call must be equal")
		r.Assume("the reference model is my reading of MongoDB semantics restricted to the operator domains of DESIGN 8; errors are compared by class (ok / duplicate key / other)", "CreateCollection on an existing collection and Drop of a missing one succeed (lungo's documented behaviour)", "multi-document updates are checked for uniqueness on the resulting collection as a whole")
		if st.States < 50 || st.Outcomes < 60 {
			r.Broken("vacuity: only %d states / %d outcomes", st.States, st.Outcomes)
		}
	})
}
