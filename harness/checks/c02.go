package checks

import (
	"fmt"
	"go.mongodb.org/mongo-driver/mongo/options"
	"strings"
	"sync"

	"go.mongodb.org/mongo-driver/bson"
	"go.mongodb.org/mongo-driver/mongo"

	"github.com/256dpi/lungo"

	"verif/internal/e1"
	"verif/internal/world"
)

type c02Batch struct {
	ordered bool
	items   []e1.Call
}

func c02Alphabet() (calls []e1.Call, batches map[string]c02Batch) {
	batches = map[string]c02Batch{}
	add := func(c e1.Call) { calls = append(calls, c) }
	d1 := bD("_id", int32(1), "u", int32(1), "s", "x", "arr", bson.A{int32(1)})
	d2 := bD("_id", int32(2), "u", int32(2), "n", int32(1), "arr", int32(5))
	d3 := bD("_id", int32(3), "u", int32(3), "n", int32(2))
	d4 := bD("_id", int32(4), "u", int32(1))
	// arrays nested directly in arrays: a rejected update must not leave a positional write behind
	d5 := bD("_id", int32(5), "u", int32(5), "s", "y", "g", bson.A{bson.A{int32(0), int32(1)}, bson.A{int32(2)}}, "h", bD("k", bson.A{bD("m", bson.A{int32(1)})}))
	for _, d := range []bson.D{d1, d2, d3, d4, d5} {
		add(cInsertOne("d", "c", d))
	}
	add(cCreateIndex("d", "c", bD("u", int32(1)), idxOpt{unique: true}))
	add(cCreateIndex("d", "c", bD("s", int32(1)), idxOpt{unique: true}))
	add(cCreateIndex("d", "c", bD("n", int32(1)), idxOpt{}))
	add(cDropIndex("d", "c", "nope"))
	add(cDropIndex("d", "c", "u_1"))
	add(cDropIndex("d", "e", "x_1"))
	// multi updates that fail at the k-th matched document
	add(cUpdate("d", "c", true, bD(), bD("$set", bD("u", int32(7))), false))
	add(cUpdate("d", "c", true, bD(), bD("$inc", bD("u", int32(1))), false))
	add(cUpdate("d", "c", true, bD(), bD("$inc", bD("s", int32(1))), false))
	add(cUpdate("d", "c", true, bD(), bD("$push", bD("arr", int32(9))), false))
	add(cUpdate("d", "c", true, bD(), bD("$set", bD("s.x", int32(1))), false))
	add(cUpdate("d", "c", true, bD(), bD("$inc", bD("n", int32(1))), false))
	add(cUpdate("d", "c", true, bD(), bD("$inc", bD("_id", int32(1))), false))
	add(cUpdate("d", "c", true, bD("n", bD("$gte", int32(1))), bD("$mul", bD("n", "x")), false))
	add(cUpdate("d", "c", true, bD(), bD("$set", bD("g.0.1", int32(99), "h.k.0.m.0", int32(98)), "$inc", bD("s", int32(1))), false))
	add(cUpdate("d", "c", false, bD("_id", int32(5)), bD("$push", bD("g.1", int32(7)), "$set", bD("_id", int32(6))), false))
	// single updates
	add(cUpdate("d", "c", false, bD("_id", int32(1)), bD("$set", bD("a", int32(1)), "$unset", bD("a", "")), false))
	add(cUpdate("d", "c", false, bD("_id", int32(1)), bD("$set", bD("a.b", int32(1), "a", int32(2))), false))
	add(cUpdate("d", "c", false, bD("_id", int32(1)), bD("$set", bD("_id", int32(9))), false))
	add(cUpdate("d", "c", false, bD("_id", int32(2)), bD("$set", bD("u", int32(1))), false))
	add(cUpdate("d", "c", false, bD("_id", int32(9)), bD("$set", bD("u", int32(1))), true))
	add(cUpdate("d", "c", false, bD("_id", int32(9)), bD("$set", bD("u", int32(9)), "$inc", bD("u", int32(1))), true))
	add(cUpdate("d", "c", false, bD("_id", int32(2)), bD("$bogus", bD("u", int32(1))), false))
	add(cUpdate("d", "c", false, bD("u", bD("$bogus", int32(1))), bD("$set", bD("z", int32(1))), false))
	add(cReplace("d", "c", bD("_id", int32(1)), bD("_id", int32(2), "u", int32(9)), false))
	add(cReplace("d", "c", bD("_id", int32(1)), bD("u", int32(2)), false))
	add(cReplace("d", "c", bD("_id", int32(8)), bD("u", int32(1)), true))
	add(cFindOneAndUpdate("d", "c", bD("_id", int32(1)), bD("$inc", bD("s", int32(1))), nil, true, false))
	add(cFindOneAndReplace("d", "c", bD("_id", int32(3)), bD("u", int32(1)), nil, true, false))
	add(cFindOneAndReplace("d", "c", bD("_id", int32(7)), bD("u", int32(2)), nil, true, true))
	add(cFindOneAndDelete("d", "c", bD("u", bD("$bogus", int32(1))), nil))
	// find-one-and-modify whose projection is rejected: the error must not come after the write took effect
	for _, proj := range []bson.D{bD("u", int32(1), "s", int32(0)), bD("arr", bD("$elemMatch", bD("$bogus", int32(1)))), bD("u", "yes")} {
		proj := proj
		add(e1.Call{Name: "d.c.FindOneAndUpdate({}, $inc n, projection " + J(proj) + ")", Do: func(w *world.World) string {
			return obsSingle(w.C("d", "c").FindOneAndUpdate(w.Ctx, bD(), bD("$inc", bD("n", int32(1))), options.FindOneAndUpdate().SetProjection(proj)))
		}})
		add(e1.Call{Name: "d.c.FindOneAndReplace({_id:1}, {u:77}, projection " + J(proj) + ")", Do: func(w *world.World) string {
			return obsSingle(w.C("d", "c").FindOneAndReplace(w.Ctx, bD("_id", int32(1)), bD("u", int32(77)), options.FindOneAndReplace().SetProjection(proj)))
		}})
		add(e1.Call{Name: "d.c.FindOneAndDelete({}, projection " + J(proj) + ")", Do: func(w *world.World) string {
			return obsSingle(w.C("d", "c").FindOneAndDelete(w.Ctx, bD(), options.FindOneAndDelete().SetProjection(proj)))
		}})
	}
	// a projection that is only rejected for the shape the write itself creates (an $elemMatch with an unknown operator
	// is evaluated on non-empty arrays only), asked to return the new version
	shapeProj := bD("fresh", bD("$elemMatch", bD("$bogus", int32(1))))
	add(e1.Call{Name: "d.c.FindOneAndUpdate({_id:2}, $push fresh, after, projection rejected on the new version)", Do: func(w *world.World) string {
		return obsSingle(w.C("d", "c").FindOneAndUpdate(w.Ctx, bD("_id", int32(2)), bD("$push", bD("fresh", int32(1))), options.FindOneAndUpdate().SetProjection(shapeProj).SetReturnDocument(options.After)))
	}})
	add(e1.Call{Name: "d.c.FindOneAndReplace({_id:3}, {u:33,fresh:[1]}, after, projection rejected on the new version)", Do: func(w *world.World) string {
		return obsSingle(w.C("d", "c").FindOneAndReplace(w.Ctx, bD("_id", int32(3)), bD("u", int32(33), "fresh", bson.A{int32(1)}), options.FindOneAndReplace().SetProjection(shapeProj).SetReturnDocument(options.After)))
	}})
	add(e1.Call{Name: "d.c.FindOneAndUpdate({_id:40}, upsert $push fresh, after, projection rejected on the new version)", Do: func(w *world.World) string {
		return obsSingle(w.C("d", "c").FindOneAndUpdate(w.Ctx, bD("_id", int32(40)), bD("$push", bD("fresh", int32(1))), options.FindOneAndUpdate().SetProjection(shapeProj).SetReturnDocument(options.After).SetUpsert(true)))
	}})
	// the same with a projection that, before it is rejected, cuts an array below an included document: the old version
	// of the document (the stored one) is projected first
	add(cInsertOne("d", "c", bD("_id", int32(50), "n", bD("t", bson.A{int32(1), int32(2), int32(3)}, "k", int32(1)))))
	add(e1.Call{Name: "d.c.FindOneAndUpdate({_id:50}, $push fresh, after, projection cutting n.t below the included n, rejected on the new version)", Do: func(w *world.World) string {
		proj := bD("n", int32(1), "n.t", bD("$slice", int32(1)), "fresh", bD("$elemMatch", bD("$bogus", int32(1))))
		return obsSingle(w.C("d", "c").FindOneAndUpdate(w.Ctx, bD("_id", int32(50)), bD("$push", bD("fresh", int32(1))), options.FindOneAndUpdate().SetProjection(proj).SetReturnDocument(options.After)))
	}})
	add(cDelete("d", "c", true, bD("u", bD("$in", int32(1)))))
	add(cDelete("d", "c", false, bD("_id", int32(2))))
	// batches: the failing item at every position, and two failing items
	a := bD("_id", int32(10), "u", int32(10))
	b := bD("_id", int32(1), "u", int32(11))
	cc := bD("_id", int32(11), "u", int32(12))
	b2 := bD("_id", int32(12), "u", int32(10))
	for _, ordered := range []bool{true, false} {
		for _, perm := range [][]bson.D{{b, a, cc}, {a, b, cc}, {a, cc, b}, {b, a, b2}, {a, b2, b, cc}} {
			call := cInsertMany("d", "c", ordered, perm...)
			var items []e1.Call
			for _, d := range perm {
				items = append(items, cInsertOne("d", "c", d))
			}
			batches[call.Name] = c02Batch{ordered, items}
			add(call)
		}
		type mk struct {
			label string
			model func() mongo.WriteModel
			item  e1.Call
		}
		ms := []mk{
			{"ins{10}", func() mongo.WriteModel { return mongo.NewInsertOneModel().SetDocument(a) }, cInsertOne("d", "c", a)},
			{"upd{1:$inc s}", func() mongo.WriteModel {
				return mongo.NewUpdateOneModel().SetFilter(bD("_id", int32(1))).SetUpdate(bD("$inc", bD("s", int32(1))))
			}, cUpdate("d", "c", false, bD("_id", int32(1)), bD("$inc", bD("s", int32(1))), false)},
			{"del{2}", func() mongo.WriteModel { return mongo.NewDeleteOneModel().SetFilter(bD("_id", int32(2))) }, cDelete("d", "c", false, bD("_id", int32(2)))},
			{"updMany{$set u:7}", func() mongo.WriteModel {
				return mongo.NewUpdateManyModel().SetFilter(bD()).SetUpdate(bD("$set", bD("u", int32(7))))
			}, cUpdate("d", "c", true, bD(), bD("$set", bD("u", int32(7))), false)},
			{"ins{1 dup}", func() mongo.WriteModel { return mongo.NewInsertOneModel().SetDocument(b) }, cInsertOne("d", "c", b)},
			{"repl{3->u:10}", func() mongo.WriteModel {
				return mongo.NewReplaceOneModel().SetFilter(bD("_id", int32(3))).SetReplacement(bD("u", int32(10)))
			}, cReplace("d", "c", bD("_id", int32(3)), bD("u", int32(10)), false)},
			{"ins{11}", func() mongo.WriteModel { return mongo.NewInsertOneModel().SetDocument(cc) }, cInsertOne("d", "c", cc)},
		}
		for _, order := range [][]int{{0, 1, 2, 4, 6}, {1, 0, 5, 6}, {0, 3, 6}, {4, 5, 0, 2}} {
			var labels []string
			var items []e1.Call
			sel := order
			for _, k := range sel {
				labels = append(labels, ms[k].label)
				items = append(items, ms[k].item)
			}
			call := cBulk("d", "c", ordered, strings.Join(labels, ";"), func() []mongo.WriteModel {
				var out []mongo.WriteModel
				for _, k := range sel {
					out = append(out, ms[k].model())
				}
				return out
			})
			batches[call.Name] = c02Batch{ordered, items}
			add(call)
		}
	}
	return
}

func init() {
	Register("C02", "model_checking", func(c *Ctx) {
		r := c.R
		calls, batches := c02Alphabet()
		depth := 3
		if !c.Quick() {
			depth = 4
		}
		var mu sync.Mutex
		var failedSingles, batchChecks, partialBatches, txnVariants, storeFaults int64
		kinds := map[string]bool{}
		cfg := e1.Config{ReplayNames: c.ReplayCalls(), Alphabet: calls, Depth: depth, Stop: r.TooMany,
			Before: func(w *world.World, path []int) interface{} { return w.DumpAll() },
			After: func(w *world.World, path []int, prev interface{}, obs string) {
				before := prev.(string)
				names := e1.Names(calls, path)
				last := names[len(names)-1]
				hist := strings.Join(names, " ; ")
				rep := bson.M{"calls": names}
				if bt, isBatch := batches[last]; isBatch {
					// differential oracle: the batch must equal its items applied one by one through the single-write path
					w2 := world.New()
					for _, ci := range path[:len(path)-1] {
						calls[ci].Do(w2)
					}
					failed := 0
					for _, it := range bt.items {
						o := it.Do(w2)
						if !strings.HasPrefix(o, "ok") {
							failed++
							if bt.ordered {
								break
							}
						}
					}
					want := w2.KeyWithOplog()
					w2.Close()
					got := w.KeyWithOplog()
					mu.Lock()
					batchChecks++
					if failed > 0 {
						partialBatches++
					}
					mu.Unlock()
					if got != want {
						r.Violation(fmt.Sprintf("batch-differs:%s:ordered=%v", callKind(last), bt.ordered), fmt.Sprintf("%s left\n%s\nbut its items applied one by one (%s) leave\n%s\nhistory: %s", last, got, map[bool]string{true: "stopping at the first failure", false: "skipping failures"}[bt.ordered], want, hist), rep)
					}
					if failed > 0 && strings.HasPrefix(obs, "ok ") {
						r.Violation("batch-error-not-reported:"+callKind(last), fmt.Sprintf("%s reported %q although %d items fail individually; history: %s", last, obs, failed, hist), rep)
					}
				} else if !strings.HasPrefix(obs, "ok") {
					mu.Lock()
					failedSingles++
					kinds[callKind(last)+"=>"+obs] = true
					mu.Unlock()
					after := w.DumpAll()
					if after != before {
						r.Violation("failed-write-changed-state:"+callKind(last)+":"+obs, fmt.Sprintf("%s returned %s but the database changed.\nbefore:\n%s\nafter:\n%s\nhistory: %s", last, obs, before, after, hist), rep)
					}
				}
				// a call that succeeds here, repeated on a store that rejects the commit: the call must report the error and
				// nothing may differ afterwards (the error is hit after the whole write has been prepared)
				if _, isBatch := batches[last]; !isBatch && strings.HasPrefix(obs, "ok") {
					ws := world.New()
					for _, ci := range path[:len(path)-1] {
						calls[ci].Do(ws)
					}
					b0 := ws.DumpAll()
					ws.Store.FailNext = 1
					o2 := calls[path[len(path)-1]].Do(ws)
					struck := ws.Store.FailNext == 0
					ws.Store.FailNext = 0
					if struck {
						mu.Lock()
						storeFaults++
						mu.Unlock()
						if strings.HasPrefix(o2, "ok") {
							r.Violation("store-failure-not-reported:"+callKind(last), fmt.Sprintf("%s returned %q although the store rejected its commit; history: %s", last, o2, hist), rep)
						} else if a0 := ws.DumpAll(); a0 != b0 {
							r.Violation("failed-commit-changed-state:"+callKind(last), fmt.Sprintf("%s failed in the store (%s) but the visible database changed:\n%s\nhistory: %s", last, o2, firstDiff(b0, a0), hist), rep)
						}
					}
					ws.Close()
				}
				// the same failing write as the second statement of a session transaction: whatever the transaction
				// commits must be exactly its first statement (or nothing, if the commit is refused)
				if _, isBatch := batches[last]; !isBatch && !strings.HasPrefix(obs, "ok") {
					// pos: 0 = without the failing statement, 1 = after the insert, 2 = before it (as the first statement)
					run := func(pos int) (string, []problem, bool) {
						withFailing := pos > 0
						wt := world.New()
						defer wt.Close()
						for _, ci := range path[:len(path)-1] {
							calls[ci].Do(wt)
						}
						base := wt.KeyWithOplog()
						sess, err := wt.Client.StartSession()
						if err != nil || sess.StartTransaction() != nil {
							return "", nil, false
						}
						first, second, committed := "", "", false
						_ = lungo.WithSession(wt.Ctx, sess, func(sc lungo.ISessionContext) error {
							outer := wt.Ctx
							wt.Ctx = sc
							if pos == 2 {
								second = calls[path[len(path)-1]].Do(wt)
							}
							first = cInsertOne("d", "c", bD("_id", "txn-first", "u", "txn-first", "s", "txn-first")).Do(wt)
							if pos == 1 {
								second = calls[path[len(path)-1]].Do(wt)
							}
							wt.Ctx = outer
							return nil
						})
						committed = sess.CommitTransaction(wt.Ctx) == nil
						sess.EndSession(wt.Ctx)
						if !strings.HasPrefix(first, "ok") || (withFailing && strings.HasPrefix(second, "ok")) {
							return "", nil, false // the first statement is not applicable here, or the call does not fail in this position
						}
						if !committed {
							if got := wt.KeyWithOplog(); got != base {
								return "refused-commit-changed-state\n" + got, nil, true
							}
							return "", nil, false
						}
						probs := append(coherenceProblems(wt.Engine.Catalog()), uniqueProblems(wt.Engine.Catalog())...)
						// damage that only shows later: one more write through the indexes
						if _, err := wt.C("d", "c").UpdateMany(wt.Ctx, bD(), bD("$set", bD("later", int32(1)))); err != nil {
							probs = append(probs, problem{"later-write-fails", "a later UpdateMany fails: " + err.Error()})
						}
						return wt.KeyWithOplog(), probs, true
					}
					want, _, ok2 := run(0)
					for pos := 1; pos <= 2 && ok2; pos++ {
						got, probs, ok1 := run(pos)
						if !ok1 {
							continue
						}
						mu.Lock()
						txnVariants++
						mu.Unlock()
						if got != want {
							r.Violation("failed-statement-in-transaction:"+callKind(last)+":"+obs, fmt.Sprintf("session transaction {insert txn-first; %s (fails)} (failing statement at position %d of 2); commit left\n%s\nbut the transaction without the failing statement leaves\n%s\nhistory: %s", last, 3-pos, got, want, hist), rep)
						}
						for _, pr := range probs {
							r.Violation("failed-statement-in-transaction:"+pr.class+":"+callKind(last), pr.what+" after a session transaction {insert; "+last+" (fails)}; commit; history: "+hist, rep)
						}
					}
				}
				// damage that only shows on the next clone: one more successful write, then full coherence
				if !strings.HasPrefix(obs, "ok") || batches[last].items != nil {
					_, err := w.C("d", "c").InsertOne(w.Ctx, bD("_id", "probe", "u", "probe", "s", "probe"))
					if err != nil {
						r.Violation("probe-write-fails:"+callKind(last), fmt.Sprintf("after %s (%s) a fresh insert fails: %v; history: %s", last, obs, err, hist), rep)
					}
					for _, pr := range coherenceProblems(w.Engine.Catalog()) {
						r.Violation("after-failure:"+pr.class+":"+callKind(last), pr.what+" after "+hist+" and a probe insert", rep)
					}
					for _, pr := range uniqueProblems(w.Engine.Catalog()) {
						r.Violation("after-failure:"+pr.class+":"+callKind(last), pr.what+" after "+hist+" and a probe insert", rep)
					}
				}
			},
		}
		st := e1.BFS(cfg)
		// every call of the alphabet on a store that rejects the commit while the change log has retention work pending
		// (three aged events, limits 1..2: the commit of the call would also trim the log): the error is reported and
		// nothing differs afterwards, the change log included; then the same call again on the working store
		var agedFaults int64
		for _, call := range calls {
			if _, isBatch := batches[call.Name]; isBatch || r.TooMany() {
				continue
			}
			wa := c09NewWorldSized(1, 2)
			b0 := wa.DumpAll()
			wa.Store.FailNext = 1
			o := call.Do(wa)
			struck := wa.Store.FailNext == 0
			wa.Store.FailNext = 0
			if struck {
				agedFaults++
				rep := bson.M{"calls": []string{call.Name}, "world": "aged change log, retention 1..2, store failing once"}
				if strings.HasPrefix(o, "ok") {
					r.Violation("store-failure-not-reported:"+callKind(call.Name), fmt.Sprintf("%s returned %q although the store rejected its commit (database with an aged change log)", call.Name, o), rep)
				} else if a0 := wa.DumpAll(); a0 != b0 {
					r.Violation("failed-commit-changed-state:"+callKind(call.Name), fmt.Sprintf("%s failed in the store (%s) on a database whose change log had events to trim, and the visible database changed:\n%s", call.Name, o, firstDiff(b0, a0)), rep)
				}
				if o2 := call.Do(wa); !strings.HasPrefix(o2, "ok") {
					r.Violation("call-after-failed-commit:"+callKind(call.Name), fmt.Sprintf("%s failed in the store, the same call on the working store then returns %q", call.Name, o2), rep)
				}
				for _, pr := range coherenceProblems(wa.Engine.Catalog()) {
					r.Violation("after-failed-commit:"+pr.class+":"+callKind(call.Name), pr.what+" after "+call.Name+" failed in the store and was repeated", rep)
				}
			}
			wa.Close()
		}
		r.Set("calls_on_a_failing_store_with_retention_pending", agedFaults)
		r.Set("states", st.States)
		r.Set("transitions", st.Transitions)
		r.Set("traces_validated_against_impl", st.Transitions)
		r.Set("replay_calls", st.ReplayCalls)
		r.Set("max_depth", int64(st.MaxDepth))
		r.Set("frontier_left", int64(st.Frontier))
		r.Set("distinct_outcomes", st.Outcomes)
		r.Set("distinct_nontrivial", st.Nontrivial)
		r.Set("evaluations", st.Transitions)
		r.Set("failing_single_writes_checked", failedSingles)
		r.Set("distinct_failure_kinds", int64(len(kinds)))
		r.Set("failing_statements_inside_transactions", txnVariants)
		r.Set("successful_calls_repeated_on_a_failing_store", storeFaults)
		r.Set("batches_checked", batchChecks)
		r.Set("batches_with_failing_items", partialBatches)
		r.Set("alphabet", e1.Names(calls, seq(len(calls))))
		r.Set("exhaustive", st.Exhaustive)
		r.Set("samples", append(append([]interface{}{}, toIface(st.Shortest)...), toIface(st.Longest)...))
		r.Set("rule", "E1 BFS with state deduplication; every reachable state x every call of the failure-rich alphabet; exact byte dump (documents, index definitions and list order, oplog events) before/after failing single writes; every failing single write also as the second statement of a session transaction that is then committed (must equal the transaction without it; indexes coherent; a later write works); batches compared with their items applied singly")
		r.Assume("the batch oracle trusts the single-write path, which the first clause checks in the same run", "oplog events are compared modulo timestamps when two engines are compared, byte-for-byte within one engine")
		if st.States < 100 || failedSingles < 500 || len(kinds) < 10 || partialBatches < 200 {
			r.Broken("vacuous: states=%d failedSingles=%d kinds=%d partialBatches=%d", st.States, failedSingles, len(kinds), partialBatches)
		}
	})
}
