package checks

import (
	"context"
	"encoding/json"
	"fmt"
	"go.mongodb.org/mongo-driver/mongo/options"
	"os"
	"strings"
	"sync/atomic"

	"go.mongodb.org/mongo-driver/bson"
	"go.mongodb.org/mongo-driver/mongo"

	"github.com/256dpi/lungo"
	"github.com/256dpi/lungo/bsonkit"

	"verif/internal/e1"
	"verif/internal/world"
)

var c03Actions = []string{
	"A.StartTransaction", "A.InsertOne", "A.UpdateMany($inc n)", "A.DeleteOne({})", "A.CommitTransaction", "A.AbortTransaction", "A.EndSession",
	"C.InsertOne", "C.UpdateMany($inc n)", "C.DeleteMany({n:{$gte:2}})", "C.CreateIndex({n:1})", "C.DropAllIndexes", "C.DropCollection", "env.NextStoreFails",
	// statements that change nothing: they must not make the transaction forget what it already changed
	"A.DeleteMany({n:{$lt:0}}) matching nothing", "A.BulkWrite(update and delete of a missing _id)",
	"C.DropIndexByKey({n:1})",
	"A.FindOneAndUpdate($inc n) with a rejected projection",
	"A.CreateIndex({m:1}) with the session's context while its transaction is open",
	// a bulk write whose only effect is a document created by an upsert
	"A.BulkWrite(upserting replace of a missing _id, update of a missing _id)",
	// a second transaction on a session that has one is rejected and leaves the first alone
	"A.WithTransaction while the session's transaction is open",
}

type c03Doc struct{ id, n int32 }

type c03Snap struct {
	step    int
	kind    string
	txn     *lungo.Transaction
	cat     *lungo.Catalog
	cursor  lungo.ICursor
	want    string
	wantCur []string
}

type c03Runner struct {
	r       *Ctx
	w       *world.World
	sess    lungo.ISession
	sctx    context.Context
	trace   []string
	nextID  int32
	open    bool
	ended   bool
	dirty   bool
	fail    bool
	commit  []c03Doc
	view    []c03Doc
	snaps   []*c03Snap
	bad     bool
	stats   *c03Stats
	hasColl bool
}

type c03Stats struct {
	snapChecks, visChecks, commits, failedCommits, aborts int64
}

func c03Render(ds []c03Doc) []string {
	out := []string{}
	for _, d := range ds {
		out = append(out, fmt.Sprintf(`{"_id":{"$numberInt":"%d"},"n":{"$numberInt":"%d"},"g":[[{"$numberInt":"0"},{"$numberInt":"%d"}],[{"$numberInt":"0"}]],"s":{"t":[{"$numberInt":"%d"}]},"h":{"k":{"m":[{"$numberInt":"7"},{"$numberInt":"8"}]}}}`, d.id, d.n, d.n, d.n))
	}
	return out
}

// c03NewDoc: the counter n is mirrored inside an array nested in an array and inside an array in a
// sub-document, so that structure shared between document versions shows up as a changed snapshot.
func c03NewDoc(id int32) bson.D {
	return bD("_id", id, "n", int32(0), "g", bson.A{bson.A{int32(0), int32(0)}, bson.A{int32(0)}}, "s", bD("t", bson.A{int32(0)}), "h", bD("k", bD("m", bson.A{int32(7), int32(8)})))
}

// c03Coll is the collection the runner works on; c03Aged makes it start on a database whose change log holds aged
// events and whose retention trims at every commit (the aged image has documents in d.c, so the runner uses d.k3).
var (
	c03Coll = "c"
	c03Aged = false
)

func newC03Runner(c *Ctx, st *c03Stats) *c03Runner {
	w := c09NewWorld(c03Aged)
	sess, err := w.Client.StartSession()
	if err != nil {
		panic(err)
	}
	r := &c03Runner{r: c, w: w, sess: sess, stats: st, nextID: 1}
	_ = lungo.WithSession(context.Background(), sess, func(sc lungo.ISessionContext) error {
		r.sctx = sc
		return nil
	})
	return r
}

func (r *c03Runner) viol(class, what string) {
	r.bad = true
	r.r.R.Violation(class, what+"\nhistory: "+strings.Join(r.trace, " ; "), bson.M{"actions": r.trace})
}

func findAll(ctx context.Context, coll lungo.ICollection) ([]string, error) {
	cur, err := coll.Find(ctx, bson.D{})
	if err != nil {
		return nil, err
	}
	var docs []bson.D
	if err := cur.All(ctx, &docs); err != nil {
		return nil, err
	}
	out := []string{}
	for _, d := range docs {
		out = append(out, J(d))
	}
	return out, nil
}

func txnDump(txn *lungo.Transaction) string {
	res, err := txn.Find(lungo.Handle{"d", c03Coll}, &bson.D{}, nil, 0, 0)
	if err != nil {
		return "find-error: " + err.Error()
	}
	var sb strings.Builder
	for _, d := range res.Matched {
		b, _ := bson.Marshal(d)
		fmt.Fprintf(&sb, "%x\n", b)
	}
	idx, err := txn.ListIndexes(lungo.Handle{"d", c03Coll})
	if err != nil {
		return "list-error: " + err.Error()
	}
	for _, d := range idx {
		sb.WriteString(J(*d) + "\n")
	}
	return sb.String()
}

func (r *c03Runner) Step(a int) bool {
	if r.bad {
		return false
	}
	w := r.w
	coll := w.C("d", c03Coll)
	name := c03Actions[a]
	// writes of the plain client would block while A holds the writer slot: that interleaving belongs to C04/C16
	if r.open && (a >= 7 && a <= 12 || a == 16) {
		return false
	}
	if (a == 18 || a == 20) && !r.open {
		return false
	}
	if a == 16 {
		// only where there is something to drop
		ns := w.Engine.Catalog().Namespaces[lungo.Handle{"d", c03Coll}]
		if ns == nil || ns.Indexes["n_1"] == nil {
			return false
		}
	}
	r.trace = append(r.trace, name)
	apply := func(ds []c03Doc, op int) ([]c03Doc, bool) {
		out := append([]c03Doc{}, ds...)
		switch op {
		case 1:
			out = append(out, c03Doc{r.nextID, 0})
			return out, true
		case 2:
			for i := range out {
				out[i].n++
			}
			return out, len(out) > 0
		case 3:
			if len(out) == 0 {
				return out, false
			}
			return out[1:], true
		case 9:
			var keep []c03Doc
			for _, d := range out {
				if d.n < 2 {
					keep = append(keep, d)
				}
			}
			return keep, len(keep) != len(out)
		}
		return out, false
	}
	// autoCommit models a single non-transactional write: applied iff it changed something and the store accepts it
	autoCommit := func(op int, err error) {
		next, changed := apply(r.commit, op)
		wantErr := changed && r.fail
		if changed {
			if r.fail {
				r.fail = false
			} else {
				r.commit = next
				r.hasColl = true
			}
		}
		if (err != nil) != wantErr {
			r.viol("autocommit-result:"+name, fmt.Sprintf("%s returned %v, expected error=%v", name, err, wantErr))
		}
		if op == 1 {
			r.nextID++
		}
	}
	switch a {
	case 0:
		err := r.sess.StartTransaction()
		wantErr := r.open || r.ended
		if (err != nil) != wantErr {
			r.viol("start-result", fmt.Sprintf("StartTransaction returned %v (open=%v ended=%v)", err, r.open, r.ended))
		}
		if err == nil {
			r.open, r.dirty = true, false
			r.view = append([]c03Doc{}, r.commit...)
		}
	case 1, 2, 3, 14, 15, 19:
		var err error
		op := a
		switch a {
		case 19:
			// the same document an insert would have created
			op = 1
			doc := c03NewDoc(r.nextID)
			_, err = coll.BulkWrite(r.sctx, []mongo.WriteModel{
				mongo.NewReplaceOneModel().SetFilter(bD("_id", r.nextID)).SetReplacement(doc[1:]).SetUpsert(true),
				mongo.NewUpdateOneModel().SetFilter(bD("_id", int32(-1))).SetUpdate(bD("$set", bD("z", int32(1)))),
			})
		case 14:
			_, err = coll.DeleteMany(r.sctx, bD("n", bD("$lt", int32(0))))
		case 15:
			_, err = coll.BulkWrite(r.sctx, []mongo.WriteModel{
				mongo.NewUpdateOneModel().SetFilter(bD("_id", int32(-1))).SetUpdate(bD("$set", bD("z", int32(1)))),
				mongo.NewDeleteOneModel().SetFilter(bD("_id", int32(-1))),
			}, options.BulkWrite().SetOrdered(false))
		case 1:
			_, err = coll.InsertOne(r.sctx, c03NewDoc(r.nextID))
		case 2:
			_, err = coll.UpdateMany(r.sctx, bD(), bD("$inc", bD("n", int32(1), "g.0.1", int32(1), "s.t.0", int32(1))))
		case 3:
			_, err = coll.DeleteOne(r.sctx, bD())
		}
		if r.open {
			next, changed := apply(r.view, op)
			r.view = next
			r.dirty = r.dirty || changed
			if err != nil {
				r.viol("txn-write-error:"+name, fmt.Sprintf("%s inside the transaction failed: %v", name, err))
			}
			if op == 1 {
				r.nextID++
			}
		} else {
			autoCommit(op, err)
		}
	case 4:
		err := r.sess.CommitTransaction(context.Background())
		switch {
		case r.ended || !r.open:
			if err == nil {
				r.viol("commit-result", "CommitTransaction without transaction succeeded")
			}
		case r.dirty && r.fail:
			atomic.AddInt64(&r.stats.failedCommits, 1)
			r.fail = false
			if err == nil {
				r.viol("commit-result", "commit succeeded although the store rejected the catalog")
			}
			r.open = false
		default:
			atomic.AddInt64(&r.stats.commits, 1)
			if err != nil {
				r.viol("commit-result", fmt.Sprintf("commit failed: %v", err))
			}
			if r.dirty {
				r.commit = r.view
				r.hasColl = true
			}
			r.open = false
		}
	case 5:
		err := r.sess.AbortTransaction(context.Background())
		if (err != nil) != r.ended {
			r.viol("abort-result", fmt.Sprintf("AbortTransaction returned %v (ended=%v)", err, r.ended))
		}
		if r.open && !r.ended {
			atomic.AddInt64(&r.stats.aborts, 1)
		}
		if !r.ended {
			r.open = false
		}
	case 6:
		r.sess.EndSession(context.Background())
		r.ended, r.open = true, false
	case 7:
		_, err := coll.InsertOne(w.Ctx, c03NewDoc(r.nextID))
		autoCommit(1, err)
	case 8:
		_, err := coll.UpdateMany(w.Ctx, bD(), bD("$inc", bD("n", int32(1), "g.0.1", int32(1), "s.t.0", int32(1))))
		autoCommit(2, err)
	case 9:
		_, err := coll.DeleteMany(w.Ctx, bD("n", bD("$gte", int32(2))))
		autoCommit(9, err)
	case 10:
		_, err := coll.Indexes().CreateOne(w.Ctx, mongo.IndexModel{Keys: bD("n", int32(1))})
		// creating an index always dirties the transaction (even when it exists already)
		if (err != nil) != r.fail {
			r.viol("createindex-result", fmt.Sprintf("CreateOne returned %v (store failing=%v)", err, r.fail))
		}
		if !r.fail {
			r.hasColl = true
		}
		r.fail = false
	case 11:
		_, err := coll.Indexes().DropAll(w.Ctx)
		_ = err // fails when the namespace is missing; effect-free either way unless an index existed
		if err != nil && strings.Contains(err.Error(), "injected") {
			r.fail = false
		} else if err == nil && r.fail && w.Store.FailNext == 0 {
			r.fail = false
		}
	case 12:
		err := coll.Drop(w.Ctx)
		if r.hasColl && r.fail {
			r.fail = false
			if err == nil {
				r.viol("drop-result", "Drop succeeded although the store rejected the catalog")
			}
		} else {
			if err != nil {
				r.viol("drop-result", fmt.Sprintf("Drop failed: %v", err))
			}
			r.commit = nil
			r.hasColl = false
		}
	case 13:
		w.Store.FailNext = 1
		r.fail = true
	case 20:
		_, err := r.sess.WithTransaction(context.Background(), func(sc lungo.ISessionContext) (interface{}, error) {
			_, _ = coll.InsertOne(sc, bD("_id", "inside the rejected transaction"))
			return nil, nil
		})
		if err == nil {
			r.viol("nested-transaction-accepted", "WithTransaction on a session whose transaction is open succeeded")
		}
	case 18:
		// a call that needs a write transaction of its own is rejected while the session has one: it neither commits the
		// session's transaction nor waits for the slot that transaction holds
		_, err := coll.Indexes().CreateOne(r.sctx, mongo.IndexModel{Keys: bD("m", int32(1))})
		if err == nil {
			r.viol("nested-write-accepted", "Indexes().CreateOne with the context of a session whose transaction is open succeeded")
		}
	case 17:
		// fails after the write inside the call: neither this write nor anything the transaction did before is affected
		err := coll.FindOneAndUpdate(r.sctx, bD(), bD("$inc", bD("n", int32(1))), options.FindOneAndUpdate().SetProjection(bD("n", int32(1), "s", int32(0)))).Err()
		if err == nil {
			r.viol("rejected-projection-accepted", "FindOneAndUpdate with projection {n:1,s:0} succeeded")
		}
	case 16:
		_, err := coll.Indexes().DropOneWithKey(w.Ctx, bD("n", int32(1)))
		if (err != nil) != r.fail {
			r.viol("dropindex-result", fmt.Sprintf("DropOneWithKey returned %v (store failing=%v)", err, r.fail))
		}
		if err != nil {
			// the commit was rejected: the index is still there
			if ns := w.Engine.Catalog().Namespaces[lungo.Handle{"d", c03Coll}]; ns == nil || ns.Indexes["n_1"] == nil {
				r.viol("dropindex-after-failed-commit", "DropOneWithKey failed at the store but the index is gone")
			}
		}
		r.fail = false
	}
	// keep the model's failure flag in line with the injected fault (index drops consume it only when dirty)
	r.fail = w.Store.FailNext > 0
	// reads with projections (overlays far below an included field, exclusions below arrays) by both clients: they
	// return copies; whatever they do to them must not show in any later read or earlier snapshot
	projs := []bson.D{bD("h", int32(1), "h.k.m", bD("$slice", int32(1))), bD("g.0", int32(0), "s.t", bD("$slice", int32(-1))), bD("_id", int32(0), "h.k", int32(0))}
	for _, proj := range projs[len(r.trace)%3 : len(r.trace)%3+1] { // one of the three per step, in rotation
		for _, cx := range []context.Context{w.Ctx, r.sctx} {
			if cur, err := coll.Find(cx, bD(), options.Find().SetProjection(proj)); err == nil {
				var docs []bson.D
				_ = cur.All(cx, &docs)
			} else {
				r.viol("projected-read-fails", fmt.Sprintf("Find with projection %s failed: %v", J(proj), err))
			}
		}
	}
	// (a) visibility: the session sees its own writes, everybody else the committed state
	wantC := c03Render(r.commit)
	gotC, err := findAll(w.Ctx, coll)
	atomic.AddInt64(&r.stats.visChecks, 1)
	if err != nil || strings.Join(gotC, "|") != strings.Join(wantC, "|") {
		r.viol("visibility:other-client:"+name, fmt.Sprintf("a plain client reads %v (err %v), committed state is %v", gotC, err, wantC))
	}
	wantA := wantC
	if r.open {
		wantA = c03Render(r.view)
	}
	// the estimated count is a read like the others
	if n, err := coll.EstimatedDocumentCount(w.Ctx); err != nil || int(n) != len(wantC) {
		r.viol("visibility:other-client:estimated-count:"+name, fmt.Sprintf("a plain client's EstimatedDocumentCount is %d (err %v), the committed state holds %d documents", n, err, len(wantC)))
	}
	if n, err := coll.EstimatedDocumentCount(r.sctx); err != nil || int(n) != len(wantA) {
		r.viol("visibility:own-writes:estimated-count:"+name, fmt.Sprintf("the session's EstimatedDocumentCount is %d (err %v), it should see %d documents (transaction open=%v)", n, err, len(wantA), r.open))
	}
	gotA, err := findAll(r.sctx, coll)
	if err != nil || strings.Join(gotA, "|") != strings.Join(wantA, "|") {
		r.viol("visibility:own-writes:"+name, fmt.Sprintf("the session reads %v (err %v), expected %v (transaction open=%v)", gotA, err, wantA, r.open))
	}
	// index coherence of the published catalog and of the open transaction's working catalog
	cats := []*lungo.Catalog{w.Engine.Catalog()}
	if s, ok := r.sess.(*lungo.Session); ok {
		if t := s.Transaction(); t != nil {
			cats = append(cats, t.Catalog())
		}
	}
	for _, cat := range cats {
		for _, p := range coherenceProblems(cat) {
			r.viol("coherence:"+p.class+":"+name, p.what)
		}
	}
	// (b) every snapshot ever taken still reads byte-identical
	for _, s := range r.snaps {
		atomic.AddInt64(&r.stats.snapChecks, 1)
		var got string
		switch s.kind {
		case "read-txn":
			got = txnDump(s.txn)
		case "catalog":
			got = world.DumpCatalog(s.cat, world.DumpOpts{Raw: true, Oplog: true, IndexList: true})
		default:
			continue
		}
		if got != s.want {
			r.viol("snapshot-changed:"+s.kind+":"+name, fmt.Sprintf("%s snapshot taken after step %d changed.\nwas:\n%s\nnow:\n%s", s.kind, s.step, s.want, got))
		}
	}
	// a read-only transaction used as a scratch pad (writes into it are never committed) is nobody else's business
	if scratch, err := w.Engine.Begin(nil, false); err == nil {
		doc := bD("_id", int32(-99), "n", int32(-99))
		_, _ = scratch.Insert(lungo.Handle{"d", c03Coll}, []*bson.D{&doc}, true)
		_, _ = scratch.Delete(lungo.Handle{"d", c03Coll}, &bson.D{}, nil, 0, 0)
		if got, err := findAll(w.Ctx, coll); err != nil || strings.Join(got, "|") != strings.Join(wantC, "|") {
			r.viol("scratch-transaction-visible:"+name, fmt.Sprintf("after writes into a read-only transaction that is thrown away a plain client reads %v, the committed state is %v", got, wantC))
		}
	}
	// take new snapshots
	step := len(r.trace)
	if txn, err := w.Engine.Begin(nil, false); err == nil {
		r.snaps = append(r.snaps, &c03Snap{step: step, kind: "read-txn", txn: txn, want: txnDump(txn)})
	}
	cat := w.Engine.Catalog()
	r.snaps = append(r.snaps, &c03Snap{step: step, kind: "catalog", cat: cat, want: world.DumpCatalog(cat, world.DumpOpts{Raw: true, Oplog: true, IndexList: true})})
	if cur, err := coll.Find(w.Ctx, bD()); err == nil {
		r.snaps = append(r.snaps, &c03Snap{step: step, kind: "cursor", cursor: cur, wantCur: wantC})
	}
	return !r.bad
}

func (r *c03Runner) Done() {
	// cursors can be read only once: drain them at the end of the path
	for _, s := range r.snaps {
		if s.kind != "cursor" || r.bad {
			continue
		}
		atomic.AddInt64(&r.stats.snapChecks, 1)
		var docs []bson.D
		if err := s.cursor.All(context.Background(), &docs); err != nil {
			r.viol("snapshot-changed:cursor", fmt.Sprintf("cursor taken after step %d fails: %v", s.step, err))
			continue
		}
		got := []string{}
		for _, d := range docs {
			got = append(got, J(d))
		}
		if strings.Join(got, "|") != strings.Join(s.wantCur, "|") {
			r.viol("snapshot-changed:cursor", fmt.Sprintf("cursor opened after step %d now yields %v, at creation the collection held %v", s.step, got, s.wantCur))
		}
	}
	r.sess.EndSession(context.Background())
	r.w.Close()
}

var _ = bsonkit.Missing

func init() {
	Register("C03", "model_checking", func(c *Ctx) {
		r := c.R
		depth := 4
		if !c.Quick() {
			depth = 5
		}
		st := &c03Stats{}
		// --replay: the one recorded action sequence (names from a violation of the model, "action N" from the
		// watchdog of the explorer), on the plain and on the aged database
		if c.Replay != "" {
			var f struct {
				Replay struct {
					Actions []string `json:"actions"`
					Calls   []string `json:"calls"`
				} `json:"replay"`
			}
			if b, err := os.ReadFile(c.Replay); err == nil {
				_ = json.Unmarshal(b, &f)
			}
			names := f.Replay.Actions
			if len(names) == 0 {
				names = f.Replay.Calls
			}
			var seq []int
			for _, n := range names {
				idx := -1
				for k, a := range c03Actions {
					if a == n || fmt.Sprintf("action %d", k) == n {
						idx = k
					}
				}
				if idx < 0 {
					r.Broken("replay: unknown action %q", n)
					return
				}
				seq = append(seq, idx)
			}
			for _, aged := range []bool{false, true} {
				c03Aged = aged
				if aged {
					c03Coll = "k3"
				}
				run := newC03Runner(c, st)
				for _, a := range seq {
					run.Step(a)
				}
				run.Done()
			}
			c03Aged, c03Coll = false, "c"
			r.Set("replayed_actions", int64(len(seq)))
			r.Set("exhaustive", false)
			return
		}
		ps := e1.Paths(len(c03Actions), depth, func() e1.Runner {
			run := newC03Runner(c, st)
			return run
		}, r.TooMany)
		// deeper slices from non-initial situations: committed data present / a transaction already open
		prefixes := [][]int{{7, 0}, {7, 7}, {0, 1}}
		if !c.Quick() {
			prefixes = append(prefixes, []int{7, 10}, []int{0, 2}, []int{7, 8})
		}
		for _, pf := range prefixes {
			// (two more steps behind the prefix in the quick tier, whose depth is 4; one more in the thorough tier)
			deep := depth + 2
			if !c.Quick() {
				deep = depth + 1
			}
			p2 := e1.PathsFrom(pf, len(c03Actions), deep, func() e1.Runner { return newC03Runner(c, st) }, r.TooMany)
			ps.Paths += p2.Paths
			ps.Steps += p2.Steps
			ps.Pruned += p2.Pruned
			ps.Exhaustive = ps.Exhaustive && p2.Exhaustive
		}
		// the same on a database whose change log is over its limits (every commit trims it), one level less deep
		c03Coll, c03Aged = "k3", true
		p3 := e1.Paths(len(c03Actions), depth-1, func() e1.Runner { return newC03Runner(c, st) }, r.TooMany)
		c03Coll, c03Aged = "c", false
		ps.Paths += p3.Paths
		ps.Steps += p3.Steps
		ps.Pruned += p3.Pruned
		ps.Exhaustive = ps.Exhaustive && p3.Exhaustive
		r.Set("paths_on_aged_change_log", p3.Paths)
		r.Set("deep_prefixes", fmt.Sprint(prefixes))
		r.Set("states", ps.Paths)
		r.Set("paths", ps.Paths)
		r.Set("transitions", ps.Steps)
		r.Set("traces_validated_against_impl", ps.Paths)
		r.Set("pruned_prefixes", ps.Pruned)
		r.Set("max_depth", int64(depth))
		r.Set("snapshot_rechecks", st.snapChecks)
		r.Set("visibility_checks", st.visChecks)
		r.Set("commits", st.commits)
		r.Set("failed_commits", st.failedCommits)
		r.Set("aborts", st.aborts)
		r.Set("evaluations", ps.Steps)
		r.Set("distinct_nontrivial", st.commits+st.failedCommits+st.aborts)
		r.Set("alphabet", c03Actions)
		r.Set("exhaustive", ps.Exhaustive)
		r.Set("samples", []interface{}{
			[]string{"A.StartTransaction", "A.InsertOne", "env.NextStoreFails", "A.CommitTransaction"},
			[]string{"C.InsertOne", "A.StartTransaction", "A.UpdateMany($inc n)", "A.AbortTransaction"},
			[]string{"C.InsertOne", "C.CreateIndex({n:1})", "C.DropCollection", "A.InsertOne"}})
		r.Set("rule", "E1 DFS without deduplication: every sequence of the 16 actions of length <= depth, plus every sequence of length depth+2 starting with one of deep_prefixes (plain-client writes are not offered while the session holds the writer slot); 'states' counts executed complete paths; after every step both visibility reads are compared with a hand model, and every snapshot taken at every earlier step (read-only transaction, catalog pointer) is re-dumped byte-for-byte; cursors are drained at the end of the path")
		r.Assume("writers that would block on the writer slot are explored under the controlled scheduler (C04/C16), not here", "documents are {_id, n, g:[[0,n],[0]], s:{t:[n]}}; other value shapes are covered by C17")
		if ps.Paths < 10000 || st.commits < 1000 || st.failedCommits < 50 || st.aborts < 500 {
			r.Broken("vacuous: paths=%d commits=%d failed=%d aborts=%d", ps.Paths, st.commits, st.failedCommits, st.aborts)
		}
	})
}
