package checks

import (
	"context"
	"fmt"
	"sort"
	"strings"
	"sync"

	"go.mongodb.org/mongo-driver/bson"
	"go.mongodb.org/mongo-driver/bson/primitive"
	"go.mongodb.org/mongo-driver/mongo"
	"go.mongodb.org/mongo-driver/mongo/options"

	"github.com/256dpi/lungo"

	"verif/internal/sched"
	"verif/internal/world"
)

// c04Op is one API call issued by a thread of a scenario. owns tells which
// oplog events a write produced (every write leaves a unique trace).
type c04Op struct {
	name  string
	write bool
	run   func(w *world.World, ctx context.Context) string // returns the canonical result
	owns  func(ev string) bool
}

type c04Call struct {
	thread   int
	op       *c04Op
	invoke   int // virtual time
	ret      int
	result   string
	commitsB int // published oplog length at invoke
	commitsR int // at return
}

// c04Sessions hands a session from one operation of a thread to the next (keyed by the engine under test).
var c04Sessions sync.Map

type c04Scenario struct {
	name    string
	setup   func(w *world.World)
	threads [][]*c04Op // per thread: ops run one after another
	txn     []bool     // thread runs its ops inside one session transaction (WithTransaction)
	ticker  bool       // an extra thread grants one tick to the real expiry loop
	bound   int        // extra preemption bound relative to the tier default (negative = less)
	// expect, if set, is an absolute oracle on top of the serial replay (which runs on lungo itself and would share a
	// purely sequential defect): it returns what is wrong with the results and the final contents, or ""
	expect func(calls []*c04Call, final string) string
	// onlyExpect: the scenario is decided by expect alone (its calls include the commit of the shared transaction, which
	// the serial replay has no counterpart for)
	onlyExpect bool
}

func c04Find(w *world.World, ctx context.Context, filter bson.D) string {
	docs, err := findAll(ctx, w.C("d", "c"))
	_ = filter
	if err != nil {
		return "err"
	}
	return strings.Join(docs, "|")
}

func c04Scenarios() []*c04Scenario {
	seed := func(docs ...bson.D) func(w *world.World) {
		return func(w *world.World) {
			for _, d := range docs {
				if _, err := w.C("d", "c").InsertOne(w.Ctx, d); err != nil {
					panic(err)
				}
			}
		}
	}
	tagged := func(tag string) func(string) bool {
		return func(ev string) bool { return strings.Contains(ev, `"mk-`+tag+`"`) }
	}
	inc := func(tag string, by int32) *c04Op {
		return &c04Op{name: "UpdateOne($inc n " + fmt.Sprint(by) + ")", write: true, owns: tagged(tag), run: func(w *world.World, ctx context.Context) string {
			res, err := w.C("d", "c").UpdateOne(ctx, bD("_id", int32(1)), bD("$inc", bD("n", by), "$set", bD("last", "mk-"+tag)))
			return obsUpdate(res, err)
		}}
	}
	read := func() *c04Op {
		return &c04Op{name: "Find({})", run: func(w *world.World, ctx context.Context) string { return c04Find(w, ctx, nil) }}
	}
	count := func() *c04Op {
		return &c04Op{name: "CountDocuments({})", run: func(w *world.World, ctx context.Context) string {
			n, err := w.C("d", "c").CountDocuments(ctx, bD())
			return fmt.Sprint(n, world.ErrClass(err))
		}}
	}
	ins := func(tag string, id int32) *c04Op {
		return &c04Op{name: fmt.Sprintf("InsertOne({_id:%d})", id), write: true, owns: tagged(tag), run: func(w *world.World, ctx context.Context) string {
			_, err := w.C("d", "c").InsertOne(ctx, bD("_id", id, "tag", "mk-"+tag))
			return world.ErrClass(err)
		}}
	}
	rmw := func(tag string) *c04Op {
		// read-modify-write inside a transaction: find n, set n+1
		return &c04Op{name: "txn{FindOne; $set n+1}", write: true, owns: tagged(tag), run: func(w *world.World, ctx context.Context) string {
			var d bson.D
			if err := w.C("d", "c").FindOne(ctx, bD("_id", int32(1))).Decode(&d); err != nil {
				return "err"
			}
			n := int32(0)
			for _, e := range d {
				if e.Key == "n" {
					n = e.Value.(int32)
				}
			}
			res, err := w.C("d", "c").UpdateOne(ctx, bD("_id", int32(1)), bD("$set", bD("n", n+1, "last", "mk-"+tag)))
			return fmt.Sprintf("read=%d %s", n, obsUpdate(res, err))
		}}
	}
	updMany := func(tag string) *c04Op {
		return &c04Op{name: "UpdateMany($inc n)", write: true, owns: tagged(tag), run: func(w *world.World, ctx context.Context) string {
			res, err := w.C("d", "c").UpdateMany(ctx, bD(), bD("$inc", bD("n", int32(1)), "$set", bD("last", "mk-"+tag)))
			return obsUpdate(res, err)
		}}
	}
	delNone := func() *c04Op {
		return &c04Op{name: "DeleteMany({n:{$lt:-5}})", write: true, owns: func(ev string) bool { return false },
			run: func(w *world.World, ctx context.Context) string {
				res, err := w.C("d", "c").DeleteMany(ctx, bD("n", bD("$lt", int32(-5))))
				if err != nil {
					return "err"
				}
				return fmt.Sprintf("deleted=%d", res.DeletedCount)
			}}
	}
	delMany := func() *c04Op {
		return &c04Op{name: "DeleteMany({n:{$gte:1}})", write: true, owns: func(ev string) bool { return strings.Contains(ev, `"operationType":"delete"`) },
			run: func(w *world.World, ctx context.Context) string {
				res, err := w.C("d", "c").DeleteMany(ctx, bD("n", bD("$gte", int32(1))))
				if err != nil {
					return "err"
				}
				return fmt.Sprintf("deleted=%d", res.DeletedCount)
			}}
	}
	repl := func(tag string) *c04Op {
		return &c04Op{name: "ReplaceOne({_id:2})", write: true, owns: tagged(tag), run: func(w *world.World, ctx context.Context) string {
			res, err := w.C("d", "c").ReplaceOne(ctx, bD("_id", int32(2)), bD("n", int32(5), "last", "mk-"+tag))
			return obsUpdate(res, err)
		}}
	}
	foau := func(tag string) *c04Op {
		return &c04Op{name: "FindOneAndUpdate($inc n, after)", write: true, owns: tagged(tag), run: func(w *world.World, ctx context.Context) string {
			return obsSingle(w.C("d", "c").FindOneAndUpdate(ctx, bD("_id", int32(1)), bD("$inc", bD("n", int32(1)), "$set", bD("last", "mk-"+tag)), options.FindOneAndUpdate().SetReturnDocument(options.After)))
		}}
	}
	// a find-one-and-update whose projection is rejected: it reports an error and writes nothing
	foauBad := func() *c04Op {
		return &c04Op{name: "FindOneAndUpdate($inc n, rejected projection)", write: true, owns: func(string) bool { return false }, run: func(w *world.World, ctx context.Context) string {
			err := w.C("d", "c").FindOneAndUpdate(ctx, bD("_id", int32(1)), bD("$inc", bD("n", int32(100))), options.FindOneAndUpdate().SetProjection(bD("n", int32(1), "tag", int32(0)))).Err()
			return world.ErrClass(err)
		}}
	}
	// the commit of the session transaction the threads of a scenario share, issued by one of them
	commitShared := func() *c04Op {
		return &c04Op{name: "CommitTransaction (shared session)", write: true, owns: func(string) bool { return false }, run: func(w *world.World, ctx context.Context) string {
			v, ok := c04Sessions.Load(w)
			if !ok {
				return "no session"
			}
			return "commit=" + world.ErrClass(v.(lungo.ISession).CommitTransaction(w.Ctx))
		}}
	}
	touch := func(tag string) *c04Op {
		// moves the TTL field of the expiring document into the future
		return &c04Op{name: "UpdateOne($set t: future)", write: true, owns: tagged(tag), run: func(w *world.World, ctx context.Context) string {
			res, err := w.C("d", "c").UpdateOne(ctx, bD("_id", int32(1)), bD("$set", bD("t", primitive.DateTime(4102444800000), "last", "mk-"+tag)))
			return obsUpdate(res, err)
		}}
	}
	// a session transaction that writes below array elements and is aborted: nobody ever sees anything of it
	abortedNested := func() *c04Op {
		return &c04Op{name: "session{$inc items.0.qty, grid.0.1; $set items.1.tag}+abort", write: true, owns: func(ev string) bool { return false }, run: func(w *world.World, ctx context.Context) string {
			sess, err := w.Client.StartSession()
			if err != nil {
				return "err"
			}
			defer sess.EndSession(ctx)
			if err := sess.StartTransaction(); err != nil {
				return "err"
			}
			var res string
			_ = lungo.WithSession(ctx, sess, func(sc lungo.ISessionContext) error {
				r1, e1 := w.C("d", "c").UpdateOne(sc, bD("_id", int32(1)), bD("$inc", bD("items.0.qty", int32(1), "grid.0.1", int32(1)), "$set", bD("items.1.tag", "t")))
				res = obsUpdate(r1, e1)
				return nil
			})
			return res + " abort=" + world.ErrClass(sess.AbortTransaction(ctx))
		}}
	}
	nested := bD("_id", int32(1), "n", int32(0), "items", bson.A{bD("qty", int32(5)), bD("qty", int32(7))}, "grid", bson.A{bson.A{int32(1), int32(2)}})
	sortedRead := func() *c04Op {
		return &c04Op{name: "Find({}).sort({p:-1})", run: func(w *world.World, ctx context.Context) string {
			cur, err := w.C("d", "c").Find(ctx, bD(), options.Find().SetSort(bD("p", int32(-1))))
			if err != nil {
				return "err"
			}
			var docs []bson.D
			if err := cur.All(ctx, &docs); err != nil {
				return "err"
			}
			var ids []string
			for _, d := range docs {
				ids = append(ids, fmt.Sprint(d[0].Value))
			}
			if got := strings.Join(ids, ","); got != "2,3,1" {
				return "the sorted read returned " + got + ", the order by p descending is 2,3,1"
			}
			// the result of the call is a plain read after the sorted one (the oracle of reads compares with whole states)
			return c04Find(w, ctx, nil)
		}}
	}
	incID := func(tag string, id int32) *c04Op {
		return &c04Op{name: fmt.Sprintf("UpdateOne({_id:%d}, $inc n)", id), write: true, owns: tagged(tag), run: func(w *world.World, ctx context.Context) string {
			res, err := w.C("d", "c").UpdateOne(ctx, bD("_id", id), bD("$inc", bD("n", int32(1)), "$set", bD("last", "mk-"+tag)))
			return obsUpdate(res, err)
		}}
	}
	// a manually managed session transaction whose commit the store may reject, and a later write through the same session
	sessCommit := func(tag string) *c04Op {
		return &c04Op{name: "session{$inc n}+commit", write: true, owns: tagged(tag), run: func(w *world.World, ctx context.Context) string {
			sess, err := w.Client.StartSession()
			if err != nil {
				return "err"
			}
			c04Sessions.Store(w, sess)
			if err := sess.StartTransaction(); err != nil {
				return "err"
			}
			var res string
			_ = lungo.WithSession(ctx, sess, func(sc lungo.ISessionContext) error {
				r1, e1 := w.C("d", "c").UpdateOne(sc, bD("_id", int32(1)), bD("$inc", bD("n", int32(1)), "$set", bD("last", "mk-"+tag)))
				res = obsUpdate(r1, e1)
				return nil
			})
			return res + " commit=" + world.ErrClass(sess.CommitTransaction(ctx))
		}}
	}
	sessAgain := func(tag string) *c04Op {
		return &c04Op{name: "same session: $inc n", write: true, owns: tagged(tag), run: func(w *world.World, ctx context.Context) string {
			v, ok := c04Sessions.Load(w)
			if !ok {
				return "no session"
			}
			sess := v.(lungo.ISession)
			defer sess.EndSession(ctx)
			defer c04Sessions.Delete(w)
			var res string
			_ = lungo.WithSession(ctx, sess, func(sc lungo.ISessionContext) error {
				r1, e1 := w.C("d", "c").UpdateOne(sc, bD("_id", int32(1)), bD("$inc", bD("n", int32(1)), "$set", bD("last", "mk-"+tag)))
				res = obsUpdate(r1, e1)
				return nil
			})
			return res
		}}
	}
	failingStore := func(w *world.World) {
		seed(bD("_id", int32(1), "n", int32(0)))(w)
		w.Store.FailNext = 1
	}
	// an engine-level transaction that creates a collection and is aborted; a reader lists the collections meanwhile
	ghost := func() *c04Op {
		return &c04Op{name: "engine.txn{Create d.ghost}+abort", write: true, owns: func(string) bool { return false }, run: func(w *world.World, ctx context.Context) string {
			txn, err := w.Engine.Begin(ctx, true)
			if err != nil {
				return "err"
			}
			cerr := txn.Create(lungo.Handle{"d", "ghost"})
			w.Engine.Abort(txn)
			return "create=" + world.ErrClass(cerr)
		}}
	}
	listColls := func() *c04Op {
		return &c04Op{name: "ListCollectionNames(d)", run: func(w *world.World, ctx context.Context) string {
			names, err := w.Client.Database("d").ListCollectionNames(ctx, bD())
			sort.Strings(names)
			if err != nil || strings.Join(names, ",") != "c" {
				return fmt.Sprintf("collections %v (err %v)", names, err)
			}
			// (the oracle of reads compares with whole states)
			return c04Find(w, ctx, nil)
		}}
	}
	// a read-only engine transaction used as a scratch pad and thrown away
	scratch := func() *c04Op {
		return &c04Op{name: "engine.Begin(read-only){Insert ghost; Delete all}+discard", write: true, owns: func(string) bool { return false }, run: func(w *world.World, ctx context.Context) string {
			txn, err := w.Engine.Begin(ctx, false)
			if err != nil {
				return "err"
			}
			doc := bD("_id", "ghost")
			_, e1 := txn.Insert(lungo.Handle{"d", "c"}, []*bson.D{&doc}, true)
			_, e2 := txn.Delete(lungo.Handle{"d", "c"}, &bson.D{}, nil, 0, 0)
			return world.ErrClass(e1) + "," + world.ErrClass(e2)
		}}
	}
	// counts inside a transaction see what its finds see
	countsAgree := func() *c04Op {
		return &c04Op{name: "counts vs Find", run: func(w *world.World, ctx context.Context) string {
			docs, err := findAll(ctx, w.C("d", "c"))
			if err != nil {
				return "err"
			}
			est, e1 := w.C("d", "c").EstimatedDocumentCount(ctx)
			cnt, e2 := w.C("d", "c").CountDocuments(ctx, bD())
			if e1 != nil || e2 != nil || int(est) != len(docs) || int(cnt) != len(docs) {
				return fmt.Sprintf("Find sees %d documents, EstimatedDocumentCount %d (%v), CountDocuments %d (%v)", len(docs), est, e1, cnt, e2)
			}
			return strings.Join(docs, "|")
		}}
	}
	d1 := bD("_id", int32(1), "n", int32(0))
	d2 := bD("_id", int32(2), "n", int32(0))
	ttl := func(w *world.World) {
		seed(bD("_id", int32(1), "n", int32(0), "t", primitive.DateTime(1000)))(w)
		if _, err := w.C("d", "c").Indexes().CreateOne(w.Ctx, mongo.IndexModel{Keys: bD("t", int32(1)), Options: options.Index().SetExpireAfterSeconds(3600)}); err != nil {
			panic(err)
		}
	}
	return []*c04Scenario{
		{name: "S1 two $inc + reader", setup: seed(d1), threads: [][]*c04Op{{inc("w1", 1)}, {inc("w2", 10)}, {read()}}},
		{name: "S2 two transactional read-modify-write", setup: seed(d1), threads: [][]*c04Op{{rmw("t1")}, {rmw("t2")}}, txn: []bool{true, true}},
		{name: "S3 two inserts of the same id + count", setup: seed(d1), threads: [][]*c04Op{{ins("i1", 2)}, {ins("i2", 2)}, {count()}}},
		{name: "S4 transaction with two inserts vs reader reading twice", setup: seed(d1), threads: [][]*c04Op{{ins("a", 2), ins("b", 3)}, {read(), read()}}, txn: []bool{true, false}},
		{name: "S5 transactional rmw vs plain $inc", setup: seed(d1), threads: [][]*c04Op{{rmw("t1")}, {inc("w1", 10)}}, txn: []bool{true, false}},
		{name: "S6 UpdateMany vs DeleteMany vs ReplaceOne", setup: seed(d1, d2), threads: [][]*c04Op{{updMany("u")}, {delMany()}, {repl("r")}}, bound: -1},
		{name: "S7 expiry pass of the real loop vs update of the expiring document", setup: ttl, threads: [][]*c04Op{{touch("k")}, {read()}}, ticker: true},
		{name: "S8 FindOneAndUpdate vs $inc vs reader", setup: seed(d1), threads: [][]*c04Op{{foau("f")}, {inc("w", 10)}, {read()}}, bound: -1},
		{name: "S10 ReplaceOne vs $inc vs reader", setup: seed(d1), threads: [][]*c04Op{{repl("r")}, {inc("w", 10)}, {read()}}, bound: -1},
		{name: "S11 insert vs DeleteMany vs count", setup: seed(d1, d2), threads: [][]*c04Op{{ins("i", 5)}, {delMany()}, {count()}}, bound: -1},
		{name: "S12 transaction (two inserts) vs UpdateMany vs reader", setup: seed(d1), threads: [][]*c04Op{{ins("a", 2), ins("b", 3)}, {updMany("u")}, {read()}}, txn: []bool{true, false, false}, bound: -1},
		{name: "S13 transaction (insert, then a delete matching nothing) vs reader", setup: seed(d1), threads: [][]*c04Op{{ins("a", 2), delNone()}, {read()}}, txn: []bool{true, false}},
		{name: "S14 aborted transaction writing below array elements vs reader reading twice", setup: seed(nested), threads: [][]*c04Op{{abortedNested()}, {read(), read()}},
			expect: func(calls []*c04Call, final string) string {
				want := J(nested)
				for _, c := range calls {
					if c.op.name == "Find({})" && c.result != want {
						return "a reader saw " + c.result + " although the only writer aborted (the document is " + want + ")"
					}
					if strings.HasPrefix(c.op.name, "session{") && c.result != "ok matched=1 modified=1 upserted=0 id=- abort=ok" {
						return "the update inside the transaction returned " + c.result
					}
				}
				if final != want {
					return "after the abort the collection holds " + final + ", before it held " + want
				}
				return ""
			}},
		{name: "S15 sorted reads vs updates by _id", setup: seed(bD("_id", int32(1), "p", int32(1), "n", int32(0)), bD("_id", int32(2), "p", int32(3), "n", int32(0)), bD("_id", int32(3), "p", int32(2), "n", int32(0))),
			threads: [][]*c04Op{{sortedRead(), sortedRead()}, {incID("a", 2), incID("b", 3)}}, bound: -1,
			expect: func(calls []*c04Call, final string) string {
				for _, c := range calls {
					if strings.HasPrefix(c.op.name, "Find({}).sort") && strings.HasPrefix(c.result, "the sorted read") {
						return c.result
					}
					if strings.HasPrefix(c.op.name, "UpdateOne({_id:") && c.result != "ok matched=1 modified=1 upserted=0 id=-" {
						return c.op.name + " returned " + c.result
					}
				}
				want := J(bD("_id", int32(1), "p", int32(1), "n", int32(0))) + "|" + J(bD("_id", int32(2), "p", int32(3), "n", int32(1), "last", "mk-a")) + "|" + J(bD("_id", int32(3), "p", int32(2), "n", int32(1), "last", "mk-b"))
				if final != want {
					return "the collection ends as " + final + ", expected " + want
				}
				return ""
			}},
		{name: "S16 session transaction whose commit the store may reject, the session used again, vs plain $inc", setup: failingStore, threads: [][]*c04Op{{sessCommit("s1"), sessAgain("s2")}, {inc("w", 10)}}, bound: -1,
			expect: func(calls []*c04Call, final string) string {
				want := int32(0)
				for _, c := range calls {
					switch {
					case c.op.name == "session{$inc n}+commit" && strings.HasSuffix(c.result, "commit=ok"):
						want++
					case c.op.name == "same session: $inc n" && strings.HasPrefix(c.result, "ok matched=1 modified=1"):
						want++
					case strings.HasPrefix(c.op.name, "UpdateOne($inc n 10)") && strings.HasPrefix(c.result, "ok matched=1 modified=1"):
						want += 10
					}
				}
				if !strings.Contains(final, fmt.Sprintf(`"n":{"$numberInt":"%d"}`, want)) {
					return fmt.Sprintf("the acknowledged increments add up to %d, the collection ends as %s", want, final)
				}
				return ""
			}},
		{name: "S17 aborted engine-level transaction creating a collection vs reader listing collections", setup: seed(d1), threads: [][]*c04Op{{ghost()}, {listColls(), listColls()}},
			expect: func(calls []*c04Call, final string) string {
				for _, c := range calls {
					if c.op.name == "ListCollectionNames(d)" && strings.HasPrefix(c.result, "collections ") {
						return "a reader listed " + c.result + " although the transaction that created d.ghost never committed"
					}
				}
				return ""
			}},
		{name: "S18 transaction (insert, counts, insert, counts) vs inserting client", setup: seed(d1), threads: [][]*c04Op{{ins("a", 2), countsAgree(), ins("b", 3), countsAgree()}, {ins("c", 4)}}, txn: []bool{true, false}, bound: -1,
			expect: func(calls []*c04Call, final string) string {
				for _, c := range calls {
					if c.op.name == "counts vs Find" && strings.HasPrefix(c.result, "Find sees") {
						return "inside the transaction: " + c.result
					}
				}
				return ""
			}},
		{name: "S19 discarded writes into a read-only engine transaction vs reader vs $inc", setup: seed(d1), threads: [][]*c04Op{{scratch()}, {read(), read()}, {inc("w", 10)}}, bound: -1,
			expect: func(calls []*c04Call, final string) string {
				for _, c := range calls {
					if c.op.name == "Find({})" && (strings.Contains(c.result, "ghost") || c.result == "") {
						return "a reader saw " + c.result + " although the only writes beside the $inc went into a read-only transaction that was thrown away"
					}
				}
				if strings.Contains(final, "ghost") || final == "" {
					return "the collection ends as " + final
				}
				return ""
			}},
		{name: "S9 two threads sharing one session transaction", setup: seed(d1), threads: [][]*c04Op{{ins("x", 2)}, {ins("y", 3)}}, txn: []bool{true, true}},
		{name: "S9c two threads sharing one session transaction, one of them commits it while the other still writes", setup: seed(d1), threads: [][]*c04Op{{ins("x", 2), ins("y", 3)}, {commitShared()}}, txn: []bool{true, true}, onlyExpect: true,
			expect: func(calls []*c04Call, final string) string {
				for _, c := range calls {
					if !strings.HasPrefix(c.op.name, "InsertOne") {
						continue
					}
					id := strings.TrimSuffix(strings.TrimPrefix(c.op.name, "InsertOne({_id:"), "})")
					present := strings.Contains(final, `{"$numberInt":"`+id+`"},"tag"`)
					if strings.HasPrefix(c.result, "ok") && !present {
						return c.op.name + " through the session's context was acknowledged (" + c.result + ") and the document is nowhere: " + final
					}
					if strings.HasPrefix(c.result, "err") && present {
						return c.op.name + " returned an error and the document is there: " + final
					}
				}
				return ""
			}},
		{name: "S9b two threads sharing one session transaction, one call rejected after its write", setup: seed(d1), threads: [][]*c04Op{{foauBad(), foauBad()}, {ins("y", 3), ins("z", 4)}}, txn: []bool{true, true},
			expect: func(calls []*c04Call, final string) string {
				for _, c := range calls {
					if strings.HasPrefix(c.op.name, "InsertOne") && c.result == "ok" && !strings.Contains(final, strings.TrimSuffix(strings.TrimPrefix(c.op.name, "InsertOne({_id:"), "})")+`"},"tag"`) {
						return c.op.name + " was acknowledged inside the shared transaction, the transaction committed, and the document is not there: " + final
					}
					if strings.HasPrefix(c.op.name, "FindOneAndUpdate") && c.result != "err" {
						return c.op.name + " returned " + c.result
					}
				}
				if !strings.Contains(final, `"n":{"$numberInt":"0"}`) {
					return "a rejected find-one-and-update left its write behind: " + final
				}
				return ""
			}},
	}
}

// c04Run executes one scenario under the scheduler and returns the history.
func c04Run(sc *c04Scenario, prefix, expectN []int) (*sched.Result, []*c04Call, []string, string) {
	var calls []*c04Call
	var oplog []string
	var final string
	res := sched.Run(prefix, expectN, sched.Config{}, func(x *sched.Exec) {
		w := e3World(x)
		sc.setup(w)
		base := len(w.Engine.VerifCatalog().Namespaces[lungo.Oplog].Documents.List)
		commits := func() int { return len(w.Engine.VerifCatalog().Namespaces[lungo.Oplog].Documents.List) - base }
		done := 0
		nthreads := len(sc.threads)
		// threads flagged txn share ONE session transaction when there are several of them in S9 style
		// scenarios (all flagged): the first starts it, the last to finish commits it
		shared := len(sc.txn) == len(sc.threads) && len(sc.threads) > 1 && allTrue(sc.txn) && strings.HasPrefix(sc.name, "S9")
		var sharedSess lungo.ISession
		var sharedCtx context.Context
		if shared {
			sess, err := w.Client.StartSession()
			if err != nil {
				panic(err)
			}
			if err := sess.StartTransaction(); err != nil {
				panic(err)
			}
			sharedSess = sess
			c04Sessions.Store(w, sess)
			_ = lungo.WithSession(w.Ctx, sess, func(sctx lungo.ISessionContext) error { sharedCtx = sctx; return nil })
		}
		for ti, ops := range sc.threads {
			ti, ops := ti, ops
			x.Go(fmt.Sprintf("T%d", ti+1), func() {
				defer func() { done++ }()
				body := func(ctx context.Context) {
					for _, op := range ops {
						c := &c04Call{thread: ti + 1, op: op}
						calls = append(calls, c)
						x.Yield("invoke " + op.name)
						c.invoke, c.commitsB = x.Clock(), commits()
						c.result = op.run(w, ctx)
						c.ret, c.commitsR = x.Clock(), commits()
					}
				}
				switch {
				case shared:
					body(sharedCtx)
				case len(sc.txn) > ti && sc.txn[ti]:
					sess, err := w.Client.StartSession()
					if err != nil {
						panic(err)
					}
					c0 := len(calls)
					_, err = sess.WithTransaction(w.Ctx, func(sctx lungo.ISessionContext) (interface{}, error) {
						body(sctx)
						return nil, nil
					})
					// calls of a transaction take effect (and return, for ordering purposes) at its commit
					for _, c := range calls[c0:] {
						if c.thread == ti+1 {
							if err != nil {
								c.result += " txn-error"
							}
							c.ret, c.commitsR = x.Clock(), commits()
						}
					}
					sess.EndSession(w.Ctx)
				default:
					body(w.Ctx)
				}
			})
		}
		if sc.ticker {
			nthreads++
			x.Go("ticker", func() {
				defer func() { done++ }()
				x.Yield("grant tick")
				lungo.VerifGrantTick(w.Engine)
			})
		}
		x.Await("join", func() bool { return done == nthreads })
		if shared && strings.HasPrefix(sc.name, "S9c") {
			// (the transaction is committed by one of the threads)
			sharedSess.EndSession(w.Ctx)
			c04Sessions.Delete(w)
		} else if shared {
			if err := sharedSess.CommitTransaction(w.Ctx); err != nil {
				for _, c := range calls {
					c.result += " txn-error"
				}
			}
			for _, c := range calls {
				c.ret, c.commitsR = x.Clock(), commits()
			}
			sharedSess.EndSession(w.Ctx)
		}
		if sc.ticker {
			// let the expiry loop finish its pass: it is idle again when it waits for the next tick
			x.Quiescent("settle")
			// the pass is a write issued by the engine itself, unconstrained in real time
			calls = append(calls, &c04Call{thread: 0, op: c04ExpireOp, invoke: 0, ret: 1 << 30, commitsB: 0, commitsR: 1 << 30})
		}
		for _, d := range w.Engine.VerifCatalog().Namespaces[lungo.Oplog].Documents.List[base:] {
			oplog = append(oplog, J(*d))
		}
		final = c04Find(w, w.Ctx, nil)
		w.Close()
		lungo.VerifForget(w.Engine)
	})
	return res, calls, oplog, final
}

// c04ExpireOp stands for one pass of the expiry loop (begin, expire, commit).
var c04ExpireOp = &c04Op{name: "expiry pass", write: true,
	owns: func(ev string) bool { return strings.Contains(ev, `"operationType":"delete"`) },
	run: func(w *world.World, ctx context.Context) string {
		txn, err := w.Engine.Begin(nil, true)
		if err != nil {
			return "err"
		}
		if err := txn.Expire(); err != nil {
			w.Engine.Abort(txn)
			return "err"
		}
		if err := w.Engine.Commit(txn); err != nil {
			return "err"
		}
		return ""
	}}

func allTrue(b []bool) bool {
	for _, v := range b {
		if !v {
			return false
		}
	}
	return true
}

// c04Serial replays write calls sequentially in the given order on a fresh engine (memoised per order).
type c04SerialResult struct {
	results []string // per position in the order
	states  []string // contents after every prefix (0..n)
}

var c04Memo = map[string]*c04SerialResult{}

func c04Serial(sc *c04Scenario, order []*c04Call) *c04SerialResult {
	key := sc.name
	for _, c := range order {
		key += fmt.Sprintf("|%d.%s", c.thread, c.op.name)
	}
	if r, ok := c04Memo[key]; ok {
		return r
	}
	w := world.New()
	defer w.Close()
	sc.setup(w)
	out := &c04SerialResult{}
	out.states = append(out.states, c04Find(w, w.Ctx, nil))
	shared := strings.HasPrefix(sc.name, "S9")
	i := 0
	for i < len(order) {
		c := order[i]
		if c.thread >= 1 && len(sc.txn) >= c.thread && sc.txn[c.thread-1] {
			sess, _ := w.Client.StartSession()
			j := i
			_, _ = sess.WithTransaction(w.Ctx, func(sctx lungo.ISessionContext) (interface{}, error) {
				for j < len(order) && (order[j].thread == c.thread || shared) {
					out.results = append(out.results, order[j].op.run(w, sctx))
					j++
				}
				return nil, nil
			})
			sess.EndSession(w.Ctx)
			for k := i; k < j; k++ {
				out.states = append(out.states, c04Find(w, w.Ctx, nil))
			}
			i = j
			continue
		}
		out.results = append(out.results, c.op.run(w, w.Ctx))
		out.states = append(out.states, c04Find(w, w.Ctx, nil))
		i++
	}
	c04Memo[key] = out
	return out
}

func init() {
	Register("C04", "model_checking", func(c *Ctx) {
		r := c.R
		if !sched.Available {
			r.Broken("binary built without the scheduler overlay")
			return
		}
		bound := 2
		if !c.Quick() {
			bound = 3
		}
		scs := c04Scenarios()
		outs := e3Shards(c, len(scs), func(i int, col *shardCollector) *shardOut {
			sc := scs[i]
			out := col.out
			out.Name = sc.name
			scOut := map[string]bool{}
			ex := &sched.Explorer{Bound: bound + sc.bound, MaxExec: 600000,
				Exec: func(prefix, expectN []int) *sched.Result {
					res, calls, oplog, final := c04Run(sc, prefix, expectN)
					c04Check(col, sc, res, calls, oplog, final, scOut)
					return res
				},
				Visit: func(res *sched.Result) bool { return !col.TooMany() },
			}
			if rname, choices, ok := e3Replay(c); ok {
				if rname != sc.name {
					out.Exhaustive = false
					return out // the replay file names another scenario
				}
				ex.Only = choices
			}
			st := ex.Explore()
			out.Executions, out.Transitions, out.MaxPoints, out.Exhaustive = st.Executions, st.Transitions, st.MaxPoints, st.Exhaustive
			out.Extra["racy_selects"], out.Extra["racy_diverged"] = st.RacySelects, st.RacyDiverged
			out.Extra["select_retries"], out.Extra["unreachable_select_branches"], out.Extra["unowned_divergences"] = st.Retries, st.Unreachable, st.Unowned
			for k, v := range st.PerBound {
				out.PerBound[fmt.Sprint(k)] = v
			}
			for o := range scOut {
				out.Outcomes = append(out.Outcomes, o)
			}
			sort.Strings(out.Outcomes)
			if len(scOut) < 2 && len(out.Violations) == 0 {
				out.Broken = append(out.Broken, fmt.Sprintf("vacuous: %d distinct outcome(s)", len(scOut)))
			}
			return out
		})
		e3Merge(c, outs, bound)
		r.Set("rule", "E3: every interleaving of each scenario's threads with at most bound_completed preemptions (one less for the two largest scenarios), scheduling points at every mutex acquisition (sync shim), semaphore acquisition, commit hand-over sites and API call boundaries; states = distinct (scenario, history outcome) pairs; every execution's history must be explained by a serial execution of its writes in oplog order (event-less writes placed freely) on a fresh sequential engine")
		r.Assume("real timers (1 minute token timeout) never fire in virtual time", "memory-model effects below synchronisation granularity are covered only by a free-running -race pass", "the sequential semantics used as the oracle are lungo's own (differential), checked by C01")
	})
}

// c04Check is the strict-serializability oracle for one execution.
func c04Check(r violator, sc *c04Scenario, res *sched.Result, calls []*c04Call, oplog []string, final string, outcomes map[string]bool) {
	rep := schedReplay(res)
	rep["scenario"] = sc.name
	tag := strings.Fields(sc.name)[0]
	if cls, what := e3Problem(res); cls != "" {
		r.Violation(cls+":"+tag, sc.name+": "+what+" schedule "+res.Schedule(), rep)
		return
	}
	if sc.expect != nil {
		if msg := sc.expect(calls, final); msg != "" {
			r.Violation("absolute-expectation:"+tag, sc.name+": "+msg+"; schedule "+res.Schedule(), rep)
			return
		}
		if sc.onlyExpect {
			var o []string
			for _, c := range calls {
				o = append(o, c.result)
			}
			outcomes[strings.Join(o, " ; ")+" => "+final] = true
			return
		}
	}
	pos := map[*c04Call]int{}
	var evented, eventless []*c04Call
	for _, c := range calls {
		if !c.op.write {
			continue
		}
		p := -1
		for i, ev := range oplog {
			if c.op.owns(ev) {
				p = i
				break
			}
		}
		pos[c] = p
		if p >= 0 {
			evented = append(evented, c)
		} else {
			eventless = append(eventless, c)
		}
	}
	sort.SliceStable(evented, func(i, j int) bool { return pos[evented[i]] < pos[evented[j]] })
	hist := func() string {
		var sb strings.Builder
		for _, c := range calls {
			fmt.Fprintf(&sb, "\n  T%d %s [%d..%d] commits[%d..%d] -> %s", c.thread, c.op.name, c.invoke, c.ret, c.commitsB, c.commitsR, c.result)
		}
		fmt.Fprintf(&sb, "\n  final: %s\n  oplog: %d events; evented writes in order:", final, len(oplog))
		for _, w := range evented {
			fmt.Fprintf(&sb, " T%d(ev %d)", w.thread, pos[w])
		}
		return sb.String()
	}
	// candidate serial orders: evented writes in oplog order, event-less writes anywhere
	var orders [][]*c04Call
	var place func(cur []*c04Call, rest []*c04Call)
	place = func(cur []*c04Call, rest []*c04Call) {
		if len(rest) == 0 {
			orders = append(orders, append([]*c04Call{}, cur...))
			return
		}
		for i := 0; i <= len(cur); i++ {
			next := append(append(append([]*c04Call{}, cur[:i]...), rest[0]), cur[i:]...)
			place(next, rest[1:])
		}
	}
	place(evented, eventless)
	why := ""
	for _, order := range orders {
		if w := c04Explains(sc, order, calls, pos, final, len(oplog)); w == "" {
			var o []string
			for _, c := range calls {
				o = append(o, c.result)
			}
			outcomes[strings.Join(o, " ; ")+" => "+final] = true
			return
		} else if why == "" {
			why = w
		}
	}
	cls := strings.SplitN(why, ":", 2)[0]
	r.Violation(cls+":"+tag, fmt.Sprintf("%s: no serial order of the committed writes explains this execution (%s); schedule %s%s", sc.name, why, res.Schedule(), hist()), rep)
}

// c04Explains checks one candidate serial order; it returns "" when the order explains the history.
func c04Explains(sc *c04Scenario, order []*c04Call, calls []*c04Call, pos map[*c04Call]int, final string, nEvents int) string {
	ser := c04Serial(sc, order)
	for i, c := range order {
		if strings.HasSuffix(c.result, "txn-error") {
			return fmt.Sprintf("transaction-failed: T%d's transaction reported an error", c.thread)
		}
		if ser.results[i] != c.result {
			return fmt.Sprintf("serial-result-differs: T%d %s returned %q, serially %q", c.thread, c.op.name, c.result, ser.results[i])
		}
	}
	if final != ser.states[len(ser.states)-1] {
		return fmt.Sprintf("final-state-differs: serial execution ends in %s", ser.states[len(ser.states)-1])
	}
	for i, a := range order {
		for _, b := range order[i+1:] {
			if b.ret < a.invoke {
				return fmt.Sprintf("real-time-order: T%d %s returned before T%d %s was invoked but must be ordered after it", b.thread, b.op.name, a.thread, a.op.name)
			}
		}
	}
	// reads: state after a prefix p whose events were all published when the read returned, and which
	// contains every event published before the read was invoked; monotone per thread
	eventsOf := func(p int) (min, max int) { // number of published events needed / allowed for prefix p
		need := 0
		for _, c := range order[:p] {
			if pos[c] >= 0 && pos[c]+1 > need {
				need = pos[c] + 1
			}
		}
		allow := nEvents
		for _, c := range order[p:] {
			if pos[c] >= 0 && pos[c] < allow {
				allow = pos[c]
			}
		}
		return need, allow
	}
	lastP := map[int]int{}
	for _, c := range calls {
		if c.op.write || (c.thread >= 1 && len(sc.txn) >= c.thread && sc.txn[c.thread-1]) {
			continue
		}
		ok := false
		for p := lastP[c.thread]; p < len(ser.states); p++ {
			if readState(c.result, ser.states[p]) != ser.states[p] {
				continue
			}
			need, allow := eventsOf(p)
			// some instant during the call had between 'need' and 'allow' events published
			if need <= c.commitsR && allow >= c.commitsB {
				ok = true
				lastP[c.thread] = p
				break
			}
		}
		if !ok {
			return fmt.Sprintf("read-not-a-committed-prefix: T%d %s returned %q, not the state after a committed prefix that was current during the call (serial states %v)", c.thread, c.op.name, c.result, ser.states)
		}
	}
	return ""
}

// readState maps a read result onto the state representation (Find returns the state itself, counts compare by length).
func readState(result, state string) string {
	if strings.HasSuffix(result, "ok") && !strings.Contains(result, "{") {
		n := 0
		if state != "" {
			n = strings.Count(state, "|") + 1
		}
		if result == fmt.Sprint(n, "ok") {
			return state
		}
		return "\x00"
	}
	return result
}
