//go:build overlay

package checks

import (
	"bytes"
	"context"
	"crypto/sha256"
	"errors"
	"fmt"
	"os"
	"os/exec"
	"path/filepath"
	"regexp"
	"sort"
	"strings"
	"sync"
	"time"

	"go.mongodb.org/mongo-driver/bson/primitive"
	"go.mongodb.org/mongo-driver/mongo"
	"go.mongodb.org/mongo-driver/mongo/options"

	"github.com/256dpi/lungo"
	"github.com/256dpi/lungo/verifshim/vos"

	"verif/internal/memfs"
	"verif/internal/world"
)

// ---------------------------------------------------------------------------
// C05 — crash atomicity and failed persistence of the single-file store (E4).

const c05Dir = "/db"
const c05Path = "/db/data.bson"

// c05Store wraps the real FileStore and records, per Store call, the candidate image's
// reference dump and whether it was acknowledged.
type c05Store struct {
	inner   *lungo.FileStore
	fs      *memfs.FS
	allowed map[int]map[string]bool // epoch -> dumps a crash image may load as
	cur     map[string]bool
	acks    int
	stores  int
	cands   []string
}

func c05Dump(cat *lungo.Catalog) string {
	return world.DumpCatalog(cat, world.DumpOpts{Raw: true, Oplog: true})
}

func (s *c05Store) Load() (*lungo.Catalog, error) { return s.inner.Load() }

func (s *c05Store) setEpoch(set map[string]bool) {
	s.fs.Epoch++
	cp := map[string]bool{}
	for k := range set {
		cp[k] = true
	}
	s.allowed[s.fs.Epoch] = cp
	s.cur = cp
}

func (s *c05Store) Store(cat *lungo.Catalog) error {
	s.stores++
	// the reference for "the state being committed" is the catalog the engine hands over, dumped directly: going
	// through the store's own decoder here would make the oracle share its mistakes (a namespace key split at the
	// wrong dot loads wrongly on both sides)
	cand := c05Dump(cat)
	s.cands = append(s.cands, cand)
	inflight := map[string]bool{cand: true}
	for k := range s.cur {
		inflight[k] = true
	}
	s.setEpoch(inflight)
	err := s.inner.Store(cat)
	if err == nil {
		s.acks++
		s.setEpoch(map[string]bool{cand: true})
		s.fs.Mark("commit acknowledged")
	}
	return err
}

type c05Call struct {
	name string
	do   func(w *world.World) error
}

func c05Calls() map[string]c05Call {
	pad := func(c string, n int) string { return strings.Repeat(c, n) }
	m := map[string]c05Call{}
	add := func(name string, do func(w *world.World) error) { m[name] = c05Call{name, do} }
	add("ins1", func(w *world.World) error {
		_, err := w.C("d", "c").InsertOne(w.Ctx, bD("_id", int32(1), "pad", pad("a", 40)))
		return err
	})
	add("ins2big", func(w *world.World) error {
		_, err := w.C("d", "c").InsertOne(w.Ctx, bD("_id", int32(2), "pad", pad("b", 700)))
		return err
	})
	add("del2", func(w *world.World) error {
		_, err := w.C("d", "c").DeleteOne(w.Ctx, bD("_id", int32(2)))
		return err
	})
	add("upd1", func(w *world.World) error {
		_, err := w.C("d", "c").UpdateOne(w.Ctx, bD("_id", int32(1)), bD("$set", bD("x", int32(1))))
		return err
	})
	add("idx", func(w *world.World) error {
		// (the smallest expiry there is: expireAfterSeconds 0 is kept as one nanosecond; pad holds no dates)
		_, err := w.C("d", "c").Indexes().CreateOne(w.Ctx, mongo.IndexModel{Keys: bD("pad", int32(1)), Options: options.Index().SetExpireAfterSeconds(0).SetPartialFilterExpression(bD())})
		return err
	})
	// a collection with a TTL index and a document that has expired, and one pass of the expiry loop (what the loop
	// does at every tick: begin, expire, commit) whose commit goes through the store like any other
	add("ttlidx", func(w *world.World) error {
		_, err := w.C("d", "t").Indexes().CreateOne(w.Ctx, mongo.IndexModel{Keys: bD("at", int32(1)), Options: options.Index().SetExpireAfterSeconds(60)})
		return err
	})
	add("insold", func(w *world.World) error {
		_, err := w.C("d", "t").InsertMany(w.Ctx, []interface{}{bD("_id", "old", "at", primitive.NewDateTimeFromTime(time.Now().Add(-2*time.Hour))), bD("_id", "new", "at", primitive.NewDateTimeFromTime(time.Now().Add(2*time.Hour)))})
		return err
	})
	add("expire", func(w *world.World) error {
		txn, err := w.Engine.Begin(w.Ctx, true)
		if err != nil {
			return err
		}
		if err := txn.Expire(); err != nil {
			w.Engine.Abort(txn)
			return err
		}
		return w.Engine.Commit(txn)
	})
	add("ins3other", func(w *world.World) error {
		_, err := w.C("d", "e").InsertOne(w.Ctx, bD("_id", "x"))
		return err
	})
	add("insdotted", func(w *world.World) error {
		_, err := w.C("d", "fs.files").InsertOne(w.Ctx, bD("_id", "f1", "filename", "x"))
		return err
	})
	add("dropc", func(w *world.World) error { return w.C("d", "c").Drop(w.Ctx) })
	// a session transaction committed through the manual API (no deferred Abort on the caller's side)
	add("txn", func(w *world.World) error {
		sess, err := w.Client.StartSession()
		if err != nil {
			return err
		}
		defer sess.EndSession(w.Ctx)
		if err := sess.StartTransaction(); err != nil {
			return err
		}
		_ = lungo.WithSession(w.Ctx, sess, func(sc lungo.ISessionContext) error {
			_, _ = w.C("d", "c").InsertOne(sc, bD("_id", "in-txn", "pad", pad("t", 30)))
			_, _ = w.C("d", "e").InsertOne(sc, bD("_id", "in-txn"))
			return nil
		})
		return sess.CommitTransaction(w.Ctx)
	})
	// a session whose explicit commit may fail is used again afterwards: what it then acknowledges must be visible
	add("txnkeep", func(w *world.World) error {
		sess, err := w.Client.StartSession()
		if err != nil {
			return err
		}
		c05Sessions.Store(w, sess)
		if err := sess.StartTransaction(); err != nil {
			return err
		}
		_ = lungo.WithSession(w.Ctx, sess, func(sc lungo.ISessionContext) error {
			_, _ = w.C("d", "c").InsertOne(sc, bD("_id", "kept-txn"))
			return nil
		})
		return sess.CommitTransaction(w.Ctx)
	})
	add("sesswrite", func(w *world.World) error {
		v, ok := c05Sessions.Load(w)
		if !ok {
			return fmt.Errorf("harness: no session")
		}
		sess := v.(lungo.ISession)
		defer sess.EndSession(w.Ctx)
		var werr error
		_ = lungo.WithSession(w.Ctx, sess, func(sc lungo.ISessionContext) error {
			_, werr = w.C("d", "c").InsertOne(sc, bD("_id", "after-commit"))
			return nil
		})
		if werr != nil {
			return werr
		}
		n, err := w.C("d", "c").CountDocuments(w.Ctx, bD("_id", "after-commit"))
		if err != nil {
			return err
		}
		if n != 1 {
			return fmt.Errorf("lost-acknowledged-write: a write acknowledged through the session after its commit is not visible to other clients")
		}
		return nil
	})
	add("wtxn", func(w *world.World) error {
		sess, err := w.Client.StartSession()
		if err != nil {
			return err
		}
		defer sess.EndSession(w.Ctx)
		_, err = sess.WithTransaction(w.Ctx, func(sc lungo.ISessionContext) (interface{}, error) {
			_, err := w.C("d", "c").InsertOne(sc, bD("_id", "in-wtxn"))
			return nil, err
		})
		return err
	})
	return m
}

type c05Trace struct {
	fs        *memfs.FS
	store     *c05Store
	openErr   error
	callErrs  []error
	problems  []string
	initImage memfs.Image
	calls     []string
	failAt    int
	failMode  string
	noops     int
}

// c05Sessions keeps the session of a history between two of its calls.
var c05Sessions sync.Map

// c05Retention makes c05Run open the engine with a retention that trims aged change-log events at every commit.
var c05Retention bool

// c05Run opens an engine on the image and performs the calls, with an optional single fault.
func c05Run(img memfs.Image, calls []string, failAt int, failMode string) *c05Trace {
	all := c05Calls()
	fs := memfs.FromImage(c05Dir, img)
	fs.FailAt, fs.FailMode = failAt, failMode
	tr := &c05Trace{fs: fs, initImage: img, calls: calls, failAt: failAt, failMode: failMode}
	vos.FS = fs
	defer func() { vos.FS = nil }()
	st := &c05Store{inner: lungo.NewFileStore(c05Path, 0o666), fs: fs, allowed: map[int]map[string]bool{}}
	tr.store = st
	// what the file holds at open time (loaded outside the fault window: snapshots off, op log restored)
	fs.NoSnaps = true
	savedFail := fs.FailAt
	fs.FailAt = -1
	nOps := len(fs.Ops)
	if cat, err := st.inner.Load(); err == nil {
		st.allowed[0] = map[string]bool{c05Dump(cat): true}
		st.cur = st.allowed[0]
	} else {
		st.allowed[0] = map[string]bool{}
		st.cur = st.allowed[0]
	}
	fs.Ops = fs.Ops[:nOps]
	fs.FailAt = savedFail
	fs.NoSnaps = false
	fs.Mark("before open")
	opts := lungo.Options{Store: st, ExpireInterval: 1000 * time.Hour}
	if c05Retention {
		opts.MinOplogSize, opts.MaxOplogSize, opts.MinOplogAge, opts.MaxOplogAge = 2, 1000, time.Nanosecond, time.Hour
	}
	eng, err := lungo.CreateEngine(opts)
	if err != nil {
		tr.openErr = err
		if !fs.Injected {
			tr.problems = append(tr.problems, "open-fails: engine cannot be opened on a crash image: "+err.Error())
		}
		return tr
	}
	w := &world.World{Engine: eng, Client: lungo.NewClient(eng), Ctx: bgCtx}
	defer eng.Close()
	for _, cn := range calls {
		before := world.DumpCatalog(eng.Catalog(), world.DumpOpts{Raw: true, Oplog: true, IndexList: true})
		acks, stores, inj := st.acks, st.stores, fs.Injected
		// a commit that cannot get the writer slot would wait for a minute: bound the call generously instead
		cctx, cancel := context.WithTimeout(bgCtx, 45*time.Second)
		w.Ctx = cctx
		err := all[cn].do(w)
		cancel()
		w.Ctx = bgCtx
		if err != nil && strings.HasPrefix(err.Error(), "lost-acknowledged-write") {
			tr.problems = append(tr.problems, err.Error())
			tr.callErrs = append(tr.callErrs, err)
			continue
		}
		if err != nil && (errors.Is(err, context.DeadlineExceeded) || strings.Contains(err.Error(), "token acquisition timeout")) {
			tr.problems = append(tr.problems, fmt.Sprintf("later-commit-blocked: %s could not obtain the writer slot (%v): an earlier failed commit did not release it", cn, err))
			tr.callErrs = append(tr.callErrs, err)
			break
		}
		tr.callErrs = append(tr.callErrs, err)
		after := world.DumpCatalog(eng.Catalog(), world.DumpOpts{Raw: true, Oplog: true, IndexList: true})
		struck := fs.Injected && !inj
		switch {
		case err != nil && after != before:
			tr.problems = append(tr.problems, fmt.Sprintf("visible-state-changed-by-failed-commit: %s returned %q but the state visible to clients changed", cn, err))
		case err != nil && !struck:
			tr.problems = append(tr.problems, fmt.Sprintf("spurious-error: %s failed (%v) although no fault struck during it (a later commit must work after a failed one)", cn, err))
		case err == nil && st.stores > stores && st.acks == acks:
			tr.problems = append(tr.problems, fmt.Sprintf("acknowledged-without-persisting: %s returned success although persisting its catalog failed", cn))
		case err == nil && after == before && st.stores == stores:
			tr.noops++ // e.g. an update of a document whose insert was rejected by the injected fault
		case err == nil && st.acks > acks:
			// the acknowledged state is what clients see
			if c05Dump(eng.Catalog()) != st.cands[len(st.cands)-1] {
				tr.problems = append(tr.problems, fmt.Sprintf("visible-differs-from-persisted: after %s the visible catalog is not the one handed to the store", cn))
			}
		}
	}
	return tr
}

var bgCtx = context.Background()

type c05Stats struct {
	runs, ops, snaps, images, distinct, loads, loadsOld, loadsNew, faults, tmpImages, maxPending int64
	exhaustive                                                                                   bool
}

type c05Checker struct {
	c          *Ctx
	cache      map[[32]byte]string // image hash -> dump or "!error"
	st         c05Stats
	tmp        map[[32]byte]memfs.Image // distinct crash images that contain a stale temp file
	nonTrivial map[[32]byte]bool
	collectTmp bool
}

func (k *c05Checker) load(im memfs.Image) string {
	h := im.Hash()
	if d, ok := k.cache[h]; ok {
		return d
	}
	fs := memfs.FromImage(c05Dir, im)
	fs.NoSnaps = true
	vos.FS = fs
	cat, err := lungo.NewFileStore(c05Path, 0o666).Load()
	vos.FS = nil
	k.st.loads++
	d := ""
	if err != nil {
		d = "!" + err.Error()
	} else {
		d = c05Dump(cat)
	}
	k.cache[h] = d
	return d
}

func (k *c05Checker) describe(tr *c05Trace) map[string]interface{} {
	var ops []string
	for _, o := range tr.fs.Ops {
		ops = append(ops, o.String())
	}
	var init []string
	for n, b := range tr.initImage {
		init = append(init, fmt.Sprintf("%s(%d bytes)", n, len(b)))
	}
	sort.Strings(init)
	return map[string]interface{}{"initial_image": init, "calls": tr.calls, "fail_at_op": tr.failAt, "fail_mode": tr.failMode, "ops": ops}
}

// check evaluates one run: per-call problems plus every crash image of every snapshot.
func (k *c05Checker) check(tr *c05Trace, label string) {
	r := k.c.R
	k.st.runs++
	k.st.ops += int64(len(tr.fs.Ops))
	for _, p := range tr.problems {
		rep := k.describe(tr)
		r.Violation(strings.SplitN(p, ":", 2)[0], label+": "+p, rep)
	}
	for _, s := range tr.fs.Snaps {
		k.st.snaps++
		allowed := tr.store.allowed[s.Epoch]
		b, d := s.Pending()
		if int64(b+d) > k.st.maxPending {
			k.st.maxPending = int64(b + d)
		}
		_, ok := s.Images(func(im memfs.Image, bm, dm int) {
			k.st.images++
			h := im.Hash()
			if _, has := im["data.bson.tmp"]; has && k.collectTmp {
				if _, seen := k.tmp[h]; !seen {
					k.tmp[h] = im
				}
			}
			dump := k.load(im)
			if strings.HasPrefix(dump, "!") {
				rep := k.describe(tr)
				rep["crash_after_ops"], rep["snapshot"], rep["block_mask"], rep["dir_mask"] = s.OpIndex, s.Note, bm, dm
				r.Violation("torn-file", fmt.Sprintf("%s: crash after %d ops (%s), persisted blocks mask %b, persisted dir-ops mask %b: the store file does not load: %s", label, s.OpIndex, s.Note, bm, dm, dump[1:]), rep)
				return
			}
			if !allowed[dump] {
				rep := k.describe(tr)
				rep["crash_after_ops"], rep["snapshot"], rep["block_mask"], rep["dir_mask"] = s.OpIndex, s.Note, bm, dm
				cls := "neither-old-nor-new"
				if len(allowed) == 1 {
					cls = "acknowledged-commit-lost"
				}
				r.Violation(cls, fmt.Sprintf("%s: crash after %d ops (%s), persisted blocks mask %b, persisted dir-ops mask %b: the file loads as a state that is not allowed here (%d allowed: last acknowledged%s)", label, s.OpIndex, s.Note, bm, dm, len(allowed), map[bool]string{true: " only", false: " or in flight"}[len(allowed) == 1]), rep)
				return
			}
			if len(allowed) > 1 {
				k.nonTrivial[h] = true
			}
		})
		if !ok {
			k.st.exhaustive = false
		}
	}
}

func init() {
	Register("C05", "fault_enumeration", func(c *Ctx) {
		r := c.R
		k := &c05Checker{c: c, cache: map[[32]byte]string{}, tmp: map[[32]byte]memfs.Image{}, nonTrivial: map[[32]byte]bool{}}
		k.st.exhaustive = true
		histories := [][]string{
			{"ins1", "ins2big", "del2", "upd1"},
			{"ins1", "idx", "insdotted", "dropc"},
		}
		histories = append(histories, []string{"ins1", "txn", "upd1", "wtxn"}, []string{"ins1", "txnkeep", "sesswrite", "upd1"})
		histories = append(histories, []string{"ttlidx", "insold", "expire", "ins1"})
		if !c.Quick() {
			histories = append(histories, []string{"ins2big", "ins1", "upd1", "del2", "ins3other", "idx"})
		}
		// the same on a database whose change log holds aged events, with a retention that trims at every commit
		// (commits that only change index definitions included)
		agedFrom := len(histories)
		histories = append(histories, []string{"idx", "ins1", "txn", "upd1"})
		var samples []interface{}
		for hi, h := range histories {
			label := fmt.Sprintf("H%d%v", hi+1, h)
			k.collectTmp = hi == 0 || !c.Quick() // quick: stale temp files of the first history only
			start := memfs.Image{}
			c05Retention = hi >= agedFrom
			if c05Retention {
				label += "(aged log, trimming retention)"
				start = memfs.Image{"data.bson": c09AgedImage()}
			}
			// (1) fault-free run: every crash point x every persistence subset
			base := c05Run(start, h, -1, "")
			k.check(base, label)
			if len(samples) < 4 {
				var ops []string
				for _, o := range base.fs.Ops {
					ops = append(ops, o.String())
				}
				samples = append(samples, map[string]interface{}{"history": h, "op_log": ops, "snapshots": len(base.fs.Snaps)})
			}
			// (2) every single fault at every operation
			blocked := false
			n := len(base.fs.Ops)
			for at := 0; at < n && !r.TooMany(); at++ {
				modes := []string{"error"}
				if base.fs.Ops[at].Kind == "write" {
					modes = append(modes, "short")
				}
				for _, m := range modes {
					if blocked {
						break // a leaked writer slot has been reported; every further fault would wait for the deadline again
					}
					tr := c05Run(start, h, at, m)
					for _, p := range tr.problems {
						if strings.HasPrefix(p, "later-commit-blocked") {
							blocked = true
						}
					}
					k.st.faults++
					if !tr.fs.Injected {
						r.Broken("fault at op %d of %s was not injected", at, label)
					}
					k.check(tr, fmt.Sprintf("%s fault=%s@op%d(%s)", label, m, at, base.fs.Ops[at]))
				}
			}
		}
		c05Retention = false
		k.collectTmp = false
		// (3) restart on every distinct crash image that carries a stale temp file, then commit again
		var tmpImgs []memfs.Image
		var keys []string
		byKey := map[string]memfs.Image{}
		for h, im := range k.tmp {
			key := fmt.Sprintf("%x", h[:8])
			keys = append(keys, key)
			byKey[key] = im
		}
		sort.Strings(keys)
		for _, key := range keys {
			tmpImgs = append(tmpImgs, byKey[key])
		}
		k.st.tmpImages = int64(len(tmpImgs))
		for i, im := range tmpImgs {
			if r.TooMany() {
				break
			}
			d := k.load(im)
			if strings.HasPrefix(d, "!") {
				continue // already reported as torn
			}
			for _, cont := range [][]string{{"upd1"}, {"ins3other", "ins1"}} {
				// upd1 only changes something if document 1 exists; ins1 only succeeds if it does not
				tr := c05Run(im, cont, -1, "")
				usable := tr.noops == 0
				for _, p := range tr.problems {
					if strings.HasPrefix(p, "spurious-error") {
						usable = false // ins1 on an image that already holds document 1
					}
				}
				if !usable {
					continue
				}
				k.check(tr, fmt.Sprintf("restart on crash image #%d (stale temp file of %d bytes) then %v", i, len(im["data.bson.tmp"]), cont))
			}
		}
		c05Strace(c, k)
		st := k.st
		r.Set("evaluations", st.images+st.faults+r.Get("strace_kill_points")+r.Get("strace_error_injections"))
		r.Set("crash_images", st.images)
		r.Set("distinct_images_loaded", st.loads)
		r.Set("distinct_nontrivial", int64(len(k.nonTrivial)))
		r.Set("runs", st.runs)
		r.Set("ops_logged", st.ops)
		r.Set("crash_points", st.snaps)
		r.Set("faults", st.faults)
		r.Set("stale_temp_images_restarted", st.tmpImages)
		r.Set("max_pending_items", st.maxPending)
		r.Set("exhaustive", st.exhaustive && !r.TooMany())
		r.Set("samples", samples)
		r.Set("rule", "E4a: the real FileStore/AtomicWriteFile run over an in-memory POSIX-model file system (os import replaced by a seam through go build -overlay). For every history, for every operation boundary and every block boundary inside a write (crash point), for every subset of unsynced data blocks x every subset of unsynced directory operations, the crash image is loaded by the real FileStore.Load and must equal the last acknowledged state or (only while a commit is in flight or was rejected) the state being committed; after an acknowledgement only the acknowledged state is allowed. Every single operation is also made to fail (error; short write + error): the commit must report it, the visible catalog must stay unchanged, later commits must work. Every distinct crash image holding a stale temp file is restarted and committed on again.")
		r.Assume("power-loss model: unsynced data blocks (a write is split into three) and unsynced directory operations are lost independently; fsync(file) persists that file's data only, fsync(dir) persists the directory's operations; no bit rot or partial blocks",
			"process-kill atomicity on real system calls is covered by the strace part when present (see strace_* keys)")
		if st.images < 500 || len(k.nonTrivial) < 3 {
			r.Broken("vacuity: only %d crash images, %d distinct in-flight images", st.images, len(k.nonTrivial))
		}
	})
}

// ---------------------------------------------------------------- E4b: real system calls under strace

var c05SysSet = "openat,unlinkat,write,fsync,close,renameat"

type c05Sys struct {
	name string
	args string
	ret  string
}

var c05LineRe = regexp.MustCompile(`^(\w+)\((.*)\)\s+= (.*)$`)

func c05ParseTrace(b []byte) []c05Sys {
	var out []c05Sys
	for _, line := range strings.Split(string(b), "\n") {
		m := c05LineRe.FindStringSubmatch(line)
		if m == nil {
			continue
		}
		if !strings.Contains(","+c05SysSet+",", ","+m[1]+",") {
			continue
		}
		out = append(out, c05Sys{name: m[1], args: m[2], ret: strings.TrimSpace(m[3])})
	}
	return out
}

// c05SysOps maps the traced system calls to the op vocabulary of memfs.
func c05SysOps(sys []c05Sys) []string {
	var out []string
	dirFD := map[string]bool{}
	tmpFD := map[string]bool{}
	for _, s := range sys {
		fail := ""
		if strings.HasPrefix(s.ret, "-1 ") {
			fail = "=" + strings.Fields(s.ret)[1]
		}
		first := strings.TrimSpace(strings.SplitN(s.args, ",", 2)[0])
		switch s.name {
		case "openat":
			switch {
			case strings.Contains(s.args, "data.bson.tmp\""):
				out = append(out, "open(data.bson.tmp)"+fail)
				if fail == "" {
					tmpFD[s.ret] = true
				}
			case strings.Contains(s.args, "data.bson\""):
				out = append(out, "readfile(data.bson)"+fail)
			default:
				out = append(out, "opendir(.)"+fail)
				if fail == "" {
					dirFD[s.ret] = true
				}
			}
		case "unlinkat":
			if strings.Contains(s.args, "AT_REMOVEDIR") {
				continue // os.Remove retries as rmdir after ENOENT
			}
			out = append(out, "remove(data.bson.tmp)"+fail)
		case "write":
			n := strings.TrimSpace(s.args[strings.LastIndex(s.args, ",")+1:])
			out = append(out, "write(data.bson.tmp,"+n+")"+fail)
		case "fsync":
			if dirFD[first] {
				out = append(out, "fsyncdir(.)"+fail)
			} else {
				out = append(out, "fsync(data.bson.tmp)"+fail)
			}
		case "close":
			if dirFD[first] {
				out = append(out, "closedir(.)"+fail)
				delete(dirFD, first)
			} else {
				out = append(out, "close(data.bson.tmp)"+fail)
				delete(tmpFD, first)
			}
		case "renameat":
			out = append(out, "rename(data.bson.tmp->data.bson)"+fail)
		}
	}
	return out
}

func c05Strace(c *Ctx, k *c05Checker) {
	r := c.R
	writer := os.Getenv("VERIF_C05_WRITER")
	work := os.Getenv("VERIF_WORK")
	if writer == "" || work == "" {
		r.Set("strace_part", "skipped: writer binary not provided by bin/check")
		return
	}
	history := []string{"ins1", "ins2big", "del2", "upd1"}
	hist := strings.Join(history, ",")
	seq := 0
	run := func(inject string) (stdout string, trace []byte, dir string, err error) {
		seq++
		dir = filepath.Join(work, fmt.Sprintf("st%d", seq))
		_ = os.MkdirAll(dir, 0o755)
		tf := filepath.Join(work, fmt.Sprintf("st%d.trace", seq))
		args := []string{"-o", tf, "-P", filepath.Join(dir, "data.bson"), "-P", filepath.Join(dir, "data.bson.tmp"), "-P", dir}
		if inject != "" {
			args = append(args, "-e", "inject="+inject)
		}
		args = append(args, writer, dir, hist)
		cmd := exec.Command("strace", args...)
		cmd.Env = append(os.Environ(), "GOMAXPROCS=1")
		var ob, eb bytes.Buffer
		cmd.Stdout, cmd.Stderr = &ob, &eb
		err = cmd.Run()
		trace, _ = os.ReadFile(tf)
		_ = os.Remove(tf)
		if err != nil && len(trace) == 0 {
			err = fmt.Errorf("%v: %s", err, eb.String())
		} else {
			err = nil
		}
		return ob.String(), trace, dir, err
	}
	loadHash := func(dir string) string {
		cat, err := lungo.NewFileStore(filepath.Join(dir, "data.bson"), 0o666).Load()
		if err != nil {
			return "!" + err.Error()
		}
		h := sha256.Sum256([]byte(world.DumpCatalog(cat, world.DumpOpts{Oplog: true})))
		return fmt.Sprintf("%x", h[:8])
	}
	// reference run
	out, trace, dir, err := run("")
	if err != nil || !strings.Contains(out, "DONE") {
		r.Set("strace_part", fmt.Sprintf("skipped: strace not usable here (%v)", err))
		return
	}
	states := map[int]string{}
	for _, line := range strings.Split(out, "\n") {
		var i int
		var h string
		if n, _ := fmt.Sscanf(line, "STATE %d %s", &i, &h); n == 2 {
			states[i] = h
		}
	}
	if got := loadHash(dir); got != states[len(history)] {
		r.Violation("strace:final-file-differs", fmt.Sprintf("real run: the file left by %v loads as %s, the engine's final state was %s", history, got, states[len(history)]), map[string]interface{}{"part": "strace", "history": history})
	}
	_ = os.RemoveAll(dir)
	sys := c05ParseTrace(trace)
	realOps := c05SysOps(sys)
	// conformance: the simulated run of the same history must have issued the same operations
	sim := c05Run(memfs.Image{}, history, -1, "")
	var simOps []string
	for _, o := range sim.fs.Ops {
		if o.Err == "file already closed" {
			continue // os.File.Close on a closed file makes no system call
		}
		simOps = append(simOps, o.String())
	}
	r.Set("strace_traces_compared", int64(1))
	r.Set("strace_syscalls", int64(len(sys)))
	if strings.Join(realOps, " ") != strings.Join(simOps, " ") {
		r.Violation("strace:model-does-not-conform", "the system calls of the real run differ from the operation log of the simulated file system", map[string]interface{}{"part": "strace", "real": realOps, "simulated": simOps})
		return
	}
	r.Set("strace_ops_conforming", int64(len(realOps)))
	// strace counts invocations per system call name: address the n-th traced call as (name, ordinal)
	ord := make([]int, len(sys))
	cnt := map[string]int{}
	for i, sc := range sys {
		cnt[sc.name]++
		ord[i] = cnt[sc.name]
	}
	// kill points: before every traced system call
	kills, errsInj := int64(0), int64(0)
	for n := 1; n <= len(sys) && !r.TooMany(); n++ {
		out, _, dir, err := run(fmt.Sprintf("%s:signal=KILL:when=%d", sys[n-1].name, ord[n-1]))
		if err != nil {
			r.Broken("strace kill run %d failed: %v", n, err)
			break
		}
		kills++
		acked := strings.Count(out, "ACK ")
		got := loadHash(dir)
		if got != states[acked] && got != states[acked+1] {
			r.Violation("strace:kill-neither-old-nor-new", fmt.Sprintf("process killed before its %d-th file system call (%s %s) after %d acknowledged commits: the file loads as %s, allowed %s (last acknowledged) or %s (in flight)", n, sys[n-1].name, sys[n-1].args, acked, got, states[acked], states[acked+1]),
				map[string]interface{}{"part": "strace", "kill_before_syscall": n, "history": history})
		}
		_ = os.RemoveAll(dir)
	}
	// real error injection at every traced system call
	for n := 1; n <= len(sys) && !r.TooMany(); n++ {
		out, _, dir, err := run(fmt.Sprintf("%s:error=EIO:when=%d", sys[n-1].name, ord[n-1]))
		if err != nil {
			r.Broken("strace error run %d failed: %v", n, err)
			break
		}
		errsInj++
		what := fmt.Sprintf("EIO injected into the %d-th file system call (%s %s)", n, sys[n-1].name, sys[n-1].args)
		rep := map[string]interface{}{"part": "strace", "eio_at_syscall": n, "history": history, "stdout": out}
		if strings.Contains(out, "OPENERR") {
			_ = os.RemoveAll(dir)
			continue
		}
		if !strings.Contains(out, "DONE") {
			r.Violation("strace:writer-died", what+": the process did not finish: "+out, rep)
			_ = os.RemoveAll(dir)
			continue
		}
		st := map[int]string{}
		failed := map[int]bool{}
		nErr := 0
		for _, line := range strings.Split(out, "\n") {
			var i int
			var h string
			if n, _ := fmt.Sscanf(line, "STATE %d %s", &i, &h); n == 2 {
				st[i] = h
			}
			if n, _ := fmt.Sscanf(line, "ERR %d", &i); n == 1 {
				failed[i] = true
				nErr++
			}
		}
		for i := 1; i <= len(history); i++ {
			if failed[i] && st[i] != st[i-1] {
				r.Violation("strace:visible-state-changed-by-failed-commit", fmt.Sprintf("%s: call %d (%s) reported an error but the visible state changed", what, i, history[i-1]), rep)
			}
		}
		if nErr > 1 {
			r.Violation("strace:later-commit-fails", what+": more than one call failed after a single fault", rep)
		}
		got := loadHash(dir)
		ok := got == st[len(history)]
		if failed[len(history)] && got == states[len(history)] {
			ok = true // the fault struck after the rename of the last commit: durability undetermined
		}
		if !ok {
			// a rejected last commit may also have left the file at the rejected state
			for _, h := range states {
				if failed[len(history)] && got == h {
					ok = true
				}
			}
		}
		if !ok {
			r.Violation("strace:file-differs-after-fault", fmt.Sprintf("%s: at the end the file loads as %s but the visible state is %s", what, got, st[len(history)]), rep)
		}
		_ = os.RemoveAll(dir)
	}
	r.Set("strace_kill_points", kills)
	r.Set("strace_error_injections", errsInj)
	r.Set("strace_part", "ran")
}
