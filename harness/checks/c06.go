package checks

import (
	"fmt"
	"math"
	"os"
	"path/filepath"
	"sort"
	"strings"
	"sync/atomic"
	"time"

	"go.mongodb.org/mongo-driver/bson"
	"go.mongodb.org/mongo-driver/bson/primitive"
	"go.mongodb.org/mongo-driver/mongo"
	"go.mongodb.org/mongo-driver/mongo/options"

	"github.com/256dpi/lungo"

	"verif/internal/e1"
	"verif/internal/sched"
	"verif/internal/world"
)

// ---------------------------------------------------------------------------
// C06 — persist-and-reload returns the identical database.

// typed renders a value with its Go/BSON type, so that representations which do not survive
// the round trip (a nil array that is written as null, an int that comes back as another width) differ.
func typed(sb *strings.Builder, v interface{}) {
	switch x := v.(type) {
	case nil:
		sb.WriteString("null")
	case bson.D:
		if x == nil {
			sb.WriteString("nilD")
			return
		}
		sb.WriteString("{")
		for _, e := range x {
			fmt.Fprintf(sb, "%q:", e.Key)
			typed(sb, e.Value)
			sb.WriteString(",")
		}
		sb.WriteString("}")
	case bson.A:
		if x == nil {
			sb.WriteString("nilA")
			return
		}
		sb.WriteString("[")
		for _, e := range x {
			typed(sb, e)
			sb.WriteString(",")
		}
		sb.WriteString("]")
	case float64:
		fmt.Fprintf(sb, "f64(%x)", math.Float64bits(x))
	case primitive.Binary:
		fmt.Fprintf(sb, "bin(%d,%x,nil=%v)", x.Subtype, x.Data, x.Data == nil)
	default:
		fmt.Fprintf(sb, "%T(%v)", v, v)
	}
}

// c06Dump is the typed dump of a catalog: documents in natural order, index definitions, change log.
func c06Dump(cat *lungo.Catalog) string {
	var sb strings.Builder
	for _, h := range sortedHandles(cat) {
		ns := cat.Namespaces[h]
		fmt.Fprintf(&sb, "ns db=%q coll=%q docs=%d\n", h[0], h[1], len(ns.Documents.List))
		for _, d := range ns.Documents.List {
			sb.WriteString(" ")
			typed(&sb, *d)
			sb.WriteString("\n")
		}
		var names []string
		for n := range ns.Indexes {
			names = append(names, n)
		}
		sort.Strings(names)
		for _, n := range names {
			c := ns.Indexes[n].Config()
			fmt.Fprintf(&sb, " idx %q key=", n)
			typed(&sb, *c.Key)
			fmt.Fprintf(&sb, " unique=%v expiry=%d partial=", c.Unique, int64(c.Expiry))
			if c.Partial != nil {
				typed(&sb, *c.Partial)
			} else {
				sb.WriteString("-")
			}
			sb.WriteString("\n")
		}
	}
	return sb.String()
}

// c06Probes runs behaviour probes on an engine opened on the catalog and returns their canonical outcome.
func c06Probes(cat *lungo.Catalog, deep bool) string {
	w := world.New(world.Options{Catalog: cat})
	defer w.Close()
	var out []string
	for _, h := range sortedHandles(cat) {
		if h[0] == "local" {
			continue
		}
		coll := w.C(h[0], h[1])
		docs := cat.Namespaces[h].Documents.List
		fields := map[string]bool{}
		for k, d := range docs {
			for _, e := range *d {
				fields[e.Key] = true
			}
			// a copy under a new _id is rejected iff some unique index covers the document
			cp := bson.D{{Key: "_id", Value: fmt.Sprintf("probe-%d", k)}}
			for _, e := range *d {
				if e.Key != "_id" {
					cp = append(cp, e)
				}
			}
			_, err := coll.InsertOne(w.Ctx, cp)
			out = append(out, fmt.Sprintf("%s dup-probe %d: %s", h.String(), k, world.ErrClass(err)))
			if err == nil {
				_, _ = coll.DeleteOne(w.Ctx, bson.D{{Key: "_id", Value: cp[0].Value}})
			}
		}
		var fs []string
		for f := range fields {
			fs = append(fs, f)
		}
		sort.Strings(fs)
		for _, f := range fs {
			qs := []bson.D{{{Key: f, Value: nil}}, {{Key: f, Value: bson.A{}}}, {{Key: f, Value: bD("$exists", true)}}, {{Key: f, Value: bD("$size", int32(0))}}}
			for _, t := range []string{"array", "null", "object", "string", "number", "bool", "binData", "date"} {
				qs = append(qs, bson.D{{Key: f, Value: bD("$type", t)}})
			}
			for _, q := range qs {
				n, err := coll.CountDocuments(w.Ctx, q)
				out = append(out, fmt.Sprintf("%s count %s: %d %s", h.String(), J(q), n, world.ErrClass(err)))
			}
			if deep {
				cur, err := coll.Find(w.Ctx, bson.D{}, options.Find().SetSort(bD(f, int32(1))).SetProjection(bD("_id", int32(1))))
				if err == nil {
					var ids []bson.D
					_ = cur.All(w.Ctx, &ids)
					out = append(out, fmt.Sprintf("%s sort %s: %s", h.String(), f, J(ids)))
				}
			}
		}
		if deep {
			cur, err := coll.Indexes().List(w.Ctx)
			if err == nil {
				var specs []bson.D
				_ = cur.All(w.Ctx, &specs)
				var ss []string
				for _, s := range specs {
					ss = append(ss, J(canonSorted(s)))
				}
				sort.Strings(ss)
				out = append(out, h.String()+" specs "+strings.Join(ss, ";"))
			}
		}
	}
	if deep {
		// a TTL pass removes the same documents
		txn, err := w.Engine.Begin(nil, true)
		if err == nil {
			eerr := txn.Expire()
			cerr := w.Engine.Commit(txn)
			w.Engine.Abort(txn)
			out = append(out, fmt.Sprintf("expire: %s %s -> %s", world.ErrClass(eerr), world.ErrClass(cerr), world.DumpCatalog(w.Engine.Catalog(), world.DumpOpts{})))
		}
	}
	return strings.Join(out, "\n")
}

// c06Compare reloads the catalog and compares; returns violations.
func c06Compare(cat *lungo.Catalog, reload func(*lungo.Catalog) (*lungo.Catalog, error), deep bool) [][2]string {
	re, err := reload(cat)
	if err != nil {
		return [][2]string{{"reload-fails", "the persisted catalog cannot be loaded: " + err.Error()}}
	}
	var out [][2]string
	if a, b := c06Dump(cat), c06Dump(re); a != b {
		out = append(out, [2]string{"dump-differs", "the reloaded database differs from the one that was stored:\n--- stored\n" + firstDiff(a, b)})
	}
	// index coherence and uniqueness must not get worse by the reload (whether they hold at all is C07/C15's business)
	had := map[string]bool{}
	for _, p := range append(coherenceProblems(cat), uniqueProblems(cat)...) {
		had[p.class] = true
	}
	has := map[string]bool{}
	for _, p := range append(coherenceProblems(re), uniqueProblems(re)...) {
		has[p.class] = true
		if !had[p.class] {
			out = append(out, [2]string{"reloaded-" + p.class, "only after reload: " + p.what})
		}
	}
	// ... and an index that is damaged before the reload and sound after it enforces other constraints than the reloaded one
	for _, p := range append(coherenceProblems(cat), uniqueProblems(cat)...) {
		if !has[p.class] {
			out = append(out, [2]string{"live-only-" + p.class, "only before the reload (the reloaded index differs from the live one): " + p.what})
		}
	}
	if a, b := c06Probes(cat, deep), c06Probes(re, deep); a != b {
		out = append(out, [2]string{"behaviour-differs", "the reloaded database answers probes differently:\n" + firstDiff(a, b)})
	}
	return out
}

func firstDiff(a, b string) string {
	la, lb := strings.Split(a, "\n"), strings.Split(b, "\n")
	for i := 0; i < len(la) || i < len(lb); i++ {
		x, y := "<nothing>", "<nothing>"
		if i < len(la) {
			x = la[i]
		}
		if i < len(lb) {
			y = lb[i]
		}
		if x != y {
			return fmt.Sprintf("line %d\n  before: %s\n  after:  %s", i+1, x, y)
		}
	}
	return "(equal)"
}

// c06FileReload stores through the real FileStore on disk and loads with a second FileStore.
func c06FileReload(dir string) func(*lungo.Catalog) (*lungo.Catalog, error) {
	var n int64
	return func(cat *lungo.Catalog) (*lungo.Catalog, error) {
		p := filepath.Join(dir, fmt.Sprintf("db%d.bson", atomic.AddInt64(&n, 1)))
		defer os.Remove(p)
		if err := lungo.NewFileStore(p, 0o666).Store(cat); err != nil {
			return nil, fmt.Errorf("store: %w", err)
		}
		return lungo.NewFileStore(p, 0o666).Load()
	}
}

func c06Values() []interface{} {
	d128 := func(s string) primitive.Decimal128 {
		d, err := primitive.ParseDecimal128(s)
		if err != nil {
			panic(err)
		}
		return d
	}
	oid, _ := primitive.ObjectIDFromHex("0102030405060708090a0b0c")
	return []interface{}{
		int32(0), int32(1), int32(-1), int32(math.MaxInt32), int32(math.MinInt32),
		int64(0), int64(1), int64(math.MaxInt32) + 1, int64(1) << 53, int64(1)<<53 + 1, int64(math.MaxInt64), int64(math.MinInt64),
		0.0, math.Copysign(0, -1), 1.0, 1.5, math.NaN(), math.Inf(1), math.Inf(-1), float64(1 << 53), 1e308, 5e-324,
		d128("0"), d128("1"), d128("1.0"), d128("-0"), d128("0.1"), d128("9.999999999999999999999999999999999E+6144"), d128("1E-6176"), d128("NaN"), d128("Infinity"), d128("-Infinity"),
		"", "a", "ünï€✓", "tab\tnl\n", strings.Repeat("x", 300),
		nil, true, false,
		primitive.DateTime(0), primitive.DateTime(1), primitive.DateTime(-1), primitive.DateTime(math.MaxInt64), primitive.DateTime(math.MinInt64),
		primitive.Timestamp{T: 0, I: 0}, primitive.Timestamp{T: 1, I: 2}, primitive.Timestamp{T: math.MaxUint32, I: math.MaxUint32},
		oid, primitive.NilObjectID,
		primitive.Regex{Pattern: "a.*b", Options: "i"}, primitive.Regex{Pattern: "", Options: ""}, primitive.Regex{Pattern: "^a", Options: "si"}, primitive.Regex{Pattern: "x", Options: "xmi"},
		primitive.Binary{Subtype: 0, Data: []byte{1, 2, 3}}, primitive.Binary{Subtype: 0, Data: []byte{}}, primitive.Binary{Subtype: 2, Data: []byte{9}}, primitive.Binary{Subtype: 4, Data: make([]byte, 16)}, primitive.Binary{Subtype: 0x80, Data: []byte{0xff}},
		bson.D{}, bson.A{}, bson.D{{Key: "a", Value: bson.D{{Key: "b", Value: bson.A{int32(1), bson.D{{Key: "c", Value: nil}}}}}}},
		bson.A{bson.A{int32(1)}, bson.A{}}, bson.A{nil, int64(2), "s", bson.D{}}, bson.D{{Key: "", Value: int32(1)}}, bson.D{{Key: "k.with.dots", Value: int32(1)}},
	}
}

func init() {
	Register("C06", "model_checking", func(c *Ctx) {
		r := c.R
		// part (e) runs under the controlled scheduler, one scenario per worker process
		schedBound := 2
		if !c.Quick() {
			schedBound = 3
		}
		_, _, isSchedReplay := e3Replay(c)
		if os.Getenv("VERIF_SHARD") != "" || isSchedReplay {
			if !sched.Available {
				r.Broken("binary built without the scheduler overlay")
				return
			}
			execs, trans, outs, exh, per := c06Sched(c, schedBound)
			r.Set("close_race_executions", execs)
			r.Set("close_race_transitions", trans)
			r.Set("close_race_outcomes", outs)
			r.Set("exhaustive", exh && !r.TooMany())
			r.Set("samples", per)
			return
		}
		work := os.Getenv("VERIF_WORK")
		if work == "" {
			work = filepath.Join(os.TempDir(), "c06")
		}
		dir := filepath.Join(work, "c06files")
		if err := os.MkdirAll(dir, 0o755); err != nil {
			r.Broken("scratch dir: %v", err)
			return
		}
		defer os.RemoveAll(dir)
		fileReload := c06FileReload(dir)
		var valueCases, rejected, indexCases, stateCases int64
		report := func(part string, vs [][2]string, what string, rep map[string]interface{}) {
			for _, v := range vs {
				rep["part"] = part
				r.Violation(part+":"+v[0], what+": "+v[1], rep)
			}
		}
		// (a) every value of the alphabet at three positions and as _id, through the real FileStore
		for vi, v := range c06Values() {
			if r.TooMany() {
				break
			}
			for pos := 0; pos < 4; pos++ {
				var doc bson.D
				switch pos {
				case 0:
					doc = bD("_id", int32(1), "v", v, "z", int32(1))
				case 1:
					doc = bD("_id", int32(1), "s", bD("in", v, "z", int32(1)))
				case 2:
					doc = bD("_id", int32(1), "a", bson.A{int32(0), v, bD("deep", v)})
				case 3:
					doc = bD("_id", v, "z", int32(1))
				}
				w := world.New()
				_, err := w.C("d", "c").InsertOne(w.Ctx, doc)
				if err != nil {
					rejected++
					w.Close()
					continue
				}
				// a second document and an index over the value field
				_, _ = w.C("d", "c").InsertOne(w.Ctx, bD("_id", "other", "v", int32(7)))
				_, _ = w.C("d", "c").Indexes().CreateOne(w.Ctx, mongo.IndexModel{Keys: bD("v", int32(1))})
				valueCases++
				report("values", c06Compare(w.Engine.Catalog(), fileReload, true), fmt.Sprintf("value #%d %s at position %d", vi, J(v), pos), map[string]interface{}{"value": J(v), "position": pos, "document": J(doc)})
				w.Close()
			}
		}
		// (b) every index option combination
		keys := []bson.D{bD("a", int32(1)), bD("a", int32(-1)), bD("a", int32(1), "b", int32(-1)), bD("a.b", int32(1))}
		partials := []bson.D{nil, bD("b", bD("$gt", int32(0))), bD("b", bD("$exists", true)), {}}
		expiries := []*int32{nil, i32(0), i32(3600)}
		for _, key := range keys {
			for _, unique := range []bool{false, true} {
				for _, partial := range partials {
					for _, exp := range expiries {
						for _, name := range []string{"", "custom.name"} {
							if exp != nil && len(key) != 1 {
								continue
							}
							w := world.New()
							old := primitive.NewDateTimeFromTime(time.Now().Add(-2 * time.Hour))
							fresh := primitive.NewDateTimeFromTime(time.Now().Add(2 * time.Hour))
							for k, d := range []bson.D{bD("_id", int32(1), "a", old, "b", int32(1)), bD("_id", int32(2), "a", fresh, "b", int32(0)), bD("_id", int32(3), "a", bD("b", int32(5))), bD("_id", int32(4), "a", bson.A{int32(8), int32(9)}, "b", int32(2)), bD("_id", int32(5), "b", int32(-1))} {
								if _, err := w.C("d", "c").InsertOne(w.Ctx, d); err != nil {
									r.Broken("index grid insert %d: %v", k, err)
								}
							}
							o := idxOpt{unique: unique, partial: partial, name: name, expire: exp}
							obs := cCreateIndex("d", "c", key, o).Do(w)
							indexCases++
							report("index-options", c06Compare(w.Engine.Catalog(), fileReload, true), fmt.Sprintf("index key=%s unique=%v partial=%s expire=%v name=%q (creation: %s)", J(key), unique, J(partial), exp != nil, name, obs),
								map[string]interface{}{"key": J(key), "unique": unique, "partial": J(partial), "name": name, "expire": exp != nil})
							w.Close()
						}
					}
				}
			}
		}
		// (c) every state reached by sequences of driver calls (collections with dots in their names included)
		var alpha []e1.Call
		for _, p := range c01Alphabet(false) {
			alpha = append(alpha, p.real)
		}
		alpha = append(alpha,
			cInsertOne("d", "fs.files", bD("_id", int32(1), "filename", "x")),
			cInsertOne("d.x", "c", bD("_id", int32(1))),
			cInsertOne("d", "c", bD("_id", int32(30), "tags", bson.A{"a", "b"}, "bin", primitive.Binary{Data: []byte{1}})),
			cUpdate("d", "c", true, bD(), bD("$pull", bD("tags", bD("$in", bson.A{"a", "b"}))), false),
			cUpdate("d", "c", true, bD(), bD("$pop", bD("tags", int32(1))), false),
			cUpdate("d", "c", true, bD(), bD("$pullAll", bD("tags", bson.A{"a", "b"})), false),
			cUpdate("d", "c", true, bD(), bD("$set", bD("tags", bson.A{})), false),
			cUpdate("d", "c", true, bD(), bD("$push", bD("tags", bD("$each", bson.A{}, "$slice", int32(0)))), false),
			cCreateIndex("d", "c", bD("t", int32(1)), idxOpt{expire: i32(0)}),
			cCreateIndex("d", "fs.files", bD("filename", int32(1)), idxOpt{unique: true}),
			// the next commit is rejected by the store: what was written by the last successful one is what a reopen finds
			e1.Call{Name: "env.NextStoreFails", Do: func(w *world.World) string {
				if w.Store != nil {
					w.Store.FailNext = 1
				}
				return "ok"
			}},
		)
		// every state is stored, loaded and probed: depth 3 in both tiers (the thorough tier goes deeper on the aged
		// database below and uses the deep probes)
		depth := 3
		cfg := e1.Config{ReplayNames: c.ReplayCalls(), Alphabet: alpha, Depth: depth, Stop: r.TooMany,
			New: func() *world.World {
				w := world.New()
				w.Store.KeepImage = true
				return w
			},
			// (a pending store failure is part of the state)
			Key: func(w *world.World) string {
				if w.Store != nil && w.Store.FailNext > 0 {
					return "store-fails-next\n" + w.Key()
				}
				return w.Key()
			},
			After: func(w *world.World, path []int, pre interface{}, obs string) {
				atomic.AddInt64(&stateCases, 1)
				vs := c06Compare(w.Engine.Catalog(), world.RoundTrip, false)
				// what the store was handed last is what clients see (so that a restart returns exactly the visible state)
				if w.Store != nil && w.Store.Stores > 0 {
					if a, b := c06Dump(w.Engine.Catalog()), c06Dump(w.Store.Catalog); a != b {
						vs = append(vs, [2]string{"persisted-differs-from-visible", "the catalog handed to the store differs from the published one:\n" + firstDiff(a, b)})
					}
				}
				// ... and the bytes written at the last successful commit load as the visible state (a failed or aborted call
				// after that commit must not have reached the committed documents in memory)
				if w.Store != nil && w.Store.Image != nil {
					if img, err := w.Store.LoadImage(); err != nil {
						vs = append(vs, [2]string{"image-does-not-load", err.Error()})
					} else if a, b := c06Dump(w.Engine.Catalog()), c06Dump(img); a != b {
						vs = append(vs, [2]string{"file-differs-from-visible", "the file written by the last successful commit loads as another state than the visible one:\n--- visible / file\n" + firstDiff(a, b)})
					}
				}
				if len(vs) > 0 {
					names := e1.Names(alpha, path)
					report("states", vs, "after "+strings.Join(names, " ; "), map[string]interface{}{"calls": names})
				}
			}}
		st := e1.BFS(cfg)
		// the same on a database whose change log holds aged events and whose retention trims at every commit
		aged := cfg
		aged.Depth = 2
		if !c.Quick() {
			aged.Depth = 3
		}
		aged.New = func() *world.World {
			w := c09NewWorld(true)
			if w.Store != nil {
				w.Store.KeepImage = true
			}
			return w
		}
		st2 := e1.BFS(aged)
		st.States += st2.States
		st.Transitions += st2.Transitions
		st.Exhaustive = st.Exhaustive && st2.Exhaustive
		r.Set("states_with_trimming_retention", st2.States)
		// (e) a Close racing the writes in flight
		var schedSamples []interface{}
		if !sched.Available {
			r.Broken("binary built without the scheduler overlay")
		} else if !r.TooMany() {
			execs, trans, outs, exh, per := c06Sched(c, schedBound)
			r.Set("close_race_executions", execs)
			r.Set("close_race_transitions", trans)
			r.Set("close_race_outcomes", outs)
			r.Set("close_race_preemption_bound", int64(schedBound))
			st.Exhaustive = st.Exhaustive && exh
			schedSamples = per
			if execs < 500 {
				r.Broken("vacuity: %d scheduled executions", execs)
			}
		}
		r.Set("value_cases", valueCases)
		r.Set("value_cases_rejected_at_insert", rejected)
		r.Set("index_option_cases", indexCases)
		r.Set("states", st.States)
		r.Set("transitions", st.Transitions)
		r.Set("max_depth", int64(st.MaxDepth))
		r.Set("frontier_left", int64(st.Frontier))
		r.Set("distinct_outcomes", st.Outcomes)
		r.Set("distinct_nontrivial", st.Nontrivial)
		r.Set("states_reloaded", stateCases)
		r.Set("evaluations", valueCases+indexCases+stateCases)
		r.Set("traces_validated_against_impl", st.Transitions)
		r.Set("exhaustive", st.Exhaustive && !r.TooMany())
		r.Set("samples", []interface{}{map[string]interface{}{"shortest_paths": toIface(st.Shortest)}, map[string]interface{}{"longest_paths": toIface(st.Longest)}, map[string]interface{}{"values": len(c06Values())}, map[string]interface{}{"close_race_scenarios": schedSamples}})
		r.Set("rule", "every value of a BSON value alphabet at a top-level, embedded and array position and as _id (where accepted), and every combination of index key x unique x partial filter x TTL x name, is stored through the real FileStore to disk and loaded by a second FileStore; every state reached by every sequence <= max_depth of the C01 alphabet plus dotted namespaces and array-emptying updates is round-tripped through the store's encoder/decoder. Oracle: the typed dump (Go type of every value, natural order, index definitions, change log) of the loaded catalog equals that of the stored one, the loaded indexes are coherent and unique, and engines opened on both answer the same to behaviour probes (duplicate probes, $type/$size/null/[] counts per field, sort order, index specifications, a TTL pass). Part (e), E3: every interleaving (preemption bound close_race_preemption_bound, one less for the three-thread scenarios) of Engine.Close with an insert, update, delete, session transaction, index build, drop, bulk insert, a second writer, a second Close or the expiry pass; after all calls returned the dump of the closed engine's catalog, of the stored catalog and of the stored bytes decoded again are equal, and a call's effect is in the reopened database exactly when the call was acknowledged")
		r.Assume("values rejected at insert (e.g. arrays or regular expressions as _id) are counted, not reloaded")
		if valueCases < 150 || indexCases < 100 || st.States < 300 {
			r.Broken("vacuity: values=%d index combos=%d states=%d", valueCases, indexCases, st.States)
		}
	})
}
