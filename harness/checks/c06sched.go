package checks

import (
	"fmt"
	"sort"
	"strings"
	"time"

	"go.mongodb.org/mongo-driver/bson"
	"go.mongodb.org/mongo-driver/mongo"
	"go.mongodb.org/mongo-driver/mongo/options"

	"github.com/256dpi/lungo"

	"verif/internal/sched"
	"verif/internal/world"
)

// ---------------------------------------------------------------------------
// C06, part (e) — the database that is closed is the database that is stored, under every interleaving of
// a Close with the writes that are in flight (E3). "Closing and opening again yields the same documents" has two
// readings that must both hold: the stored image equals what the closed engine publishes, and a write is in the
// stored image exactly when the API acknowledged it.

type c06Thread struct {
	name string
	run  func(w *world.World) string // "ok" or "err"
	// in reports whether the effect of the call is in the catalog
	in func(cat *lungo.Catalog) bool
}

type c06Scenario struct {
	name    string
	setup   func(w *world.World)
	threads []c06Thread
	ticker  bool
	bound   int
}

func c06Has(cat *lungo.Catalog, db, coll string, id interface{}) bool {
	ns := cat.Namespaces[lungo.Handle{db, coll}]
	if ns == nil {
		return false
	}
	for _, d := range ns.Documents.List {
		for _, e := range *d {
			if e.Key == "_id" && e.Value == id {
				return true
			}
		}
	}
	return false
}

func c06Field(cat *lungo.Catalog, db, coll string, id interface{}, field string) interface{} {
	ns := cat.Namespaces[lungo.Handle{db, coll}]
	if ns == nil {
		return nil
	}
	for _, d := range ns.Documents.List {
		match := false
		for _, e := range *d {
			if e.Key == "_id" && e.Value == id {
				match = true
			}
		}
		if match {
			for _, e := range *d {
				if e.Key == field {
					return e.Value
				}
			}
		}
	}
	return nil
}

func c06Scenarios() []*c06Scenario {
	ack := func(err error) string {
		if err != nil {
			return "err"
		}
		return "ok"
	}
	seed := func(w *world.World) {
		if _, err := w.C("d", "c").InsertMany(w.Ctx, []interface{}{bD("_id", int32(1), "a", int32(1)), bD("_id", int32(9), "a", int32(9))}); err != nil {
			panic(err)
		}
	}
	ins := func(coll string, id int32) c06Thread {
		return c06Thread{name: fmt.Sprintf("insert %s %d", coll, id),
			run: func(w *world.World) string {
				_, err := w.C("d", coll).InsertOne(w.Ctx, bD("_id", id, "a", id))
				return ack(err)
			},
			in: func(cat *lungo.Catalog) bool { return c06Has(cat, "d", coll, id) }}
	}
	closer := c06Thread{name: "close", run: func(w *world.World) string { w.Engine.Close(); return "ok" }}
	closeTwice := c06Thread{name: "close twice", run: func(w *world.World) string { w.Engine.Close(); w.Engine.Close(); return "ok" }}
	upd := c06Thread{name: "update 1",
		run: func(w *world.World) string {
			_, err := w.C("d", "c").UpdateOne(w.Ctx, bD("_id", int32(1)), bD("$set", bD("a", int32(7))))
			return ack(err)
		},
		in: func(cat *lungo.Catalog) bool { return c06Field(cat, "d", "c", int32(1), "a") == int32(7) }}
	del := c06Thread{name: "delete 9",
		run: func(w *world.World) string {
			_, err := w.C("d", "c").DeleteOne(w.Ctx, bD("_id", int32(9)))
			return ack(err)
		},
		in: func(cat *lungo.Catalog) bool { return !c06Has(cat, "d", "c", int32(9)) }}
	txn := c06Thread{name: "txn{insert 2, insert 3}",
		run: func(w *world.World) string {
			sess, err := w.Client.StartSession()
			if err != nil {
				return "err"
			}
			defer sess.EndSession(w.Ctx)
			_, err = sess.WithTransaction(w.Ctx, func(sctx lungo.ISessionContext) (interface{}, error) {
				if _, err := w.C("d", "c").InsertOne(sctx, bD("_id", int32(2))); err != nil {
					return nil, err
				}
				_, err := w.C("d", "c").InsertOne(sctx, bD("_id", int32(3)))
				return nil, err
			})
			return ack(err)
		},
		in: func(cat *lungo.Catalog) bool {
			return c06Has(cat, "d", "c", int32(2)) && c06Has(cat, "d", "c", int32(3))
		}}
	index := c06Thread{name: "create index a",
		run: func(w *world.World) string {
			_, err := w.C("d", "c").Indexes().CreateOne(w.Ctx, mongoIndex(bD("a", int32(1)), options.Index().SetName("ia").SetUnique(true)))
			return ack(err)
		},
		in: func(cat *lungo.Catalog) bool {
			ns := cat.Namespaces[lungo.Handle{"d", "c"}]
			return ns != nil && ns.Indexes["ia"] != nil
		}}
	drop := c06Thread{name: "drop d.c",
		run: func(w *world.World) string { return ack(w.C("d", "c").Drop(w.Ctx)) },
		in:  func(cat *lungo.Catalog) bool { return cat.Namespaces[lungo.Handle{"d", "c"}] == nil }}
	bulk := c06Thread{name: "insert many 4,5",
		run: func(w *world.World) string {
			_, err := w.C("d", "c").InsertMany(w.Ctx, []interface{}{bD("_id", int32(4)), bD("_id", int32(5))})
			return ack(err)
		},
		in: func(cat *lungo.Catalog) bool {
			return c06Has(cat, "d", "c", int32(4)) && c06Has(cat, "d", "c", int32(5))
		}}
	ttl := func(w *world.World) {
		seed(w)
		if _, err := w.C("d", "t").Indexes().CreateOne(w.Ctx, mongoIndex(bD("at", int32(1)), options.Index().SetExpireAfterSeconds(1))); err != nil {
			panic(err)
		}
		if _, err := w.C("d", "t").InsertOne(w.Ctx, bD("_id", int32(1), "at", time.Unix(1000, 0))); err != nil {
			panic(err)
		}
	}
	return []*c06Scenario{
		{name: "insert | close", setup: seed, threads: []c06Thread{ins("c", 2), closer}},
		{name: "update | close", setup: seed, threads: []c06Thread{upd, closer}},
		{name: "delete | close twice", setup: seed, threads: []c06Thread{del, closeTwice}},
		{name: "session transaction | close", setup: seed, threads: []c06Thread{txn, closer}},
		{name: "index build | close", setup: seed, threads: []c06Thread{index, closer}},
		{name: "drop | close", setup: seed, threads: []c06Thread{drop, closer}},
		{name: "insert many | close", setup: seed, threads: []c06Thread{bulk, closer}},
		{name: "insert into a new collection | close", setup: seed, threads: []c06Thread{ins("n", 1), closer}},
		{name: "insert | insert | close", setup: seed, threads: []c06Thread{ins("c", 2), ins("e", 3), closer}, bound: -1},
		{name: "insert | close | close", setup: seed, threads: []c06Thread{ins("c", 2), closer, closer}, bound: -1},
		{name: "expiry pass | close", setup: ttl, ticker: true, threads: []c06Thread{closer}},
		{name: "expiry pass | insert | close", setup: ttl, ticker: true, threads: []c06Thread{ins("c", 2), closer}, bound: -1},
	}
}

func mongoIndex(keys bson.D, o *options.IndexOptions) mongo.IndexModel {
	return mongo.IndexModel{Keys: keys, Options: o}
}

// c06RunSched runs one scenario under the scheduler.
func c06RunSched(r violator, sc *c06Scenario, prefix, expectN []int, outcomes map[string]bool) *sched.Result {
	var acks []string
	var vis, stored, image string
	var present []bool
	var imgErr error
	res := sched.Run(prefix, expectN, sched.Config{}, func(x *sched.Exec) {
		w := e3World(x)
		w.Store.KeepImage = true
		sc.setup(w)
		acks = make([]string, len(sc.threads))
		done, n := 0, len(sc.threads)
		for i, t := range sc.threads {
			i, t := i, t
			x.Go(fmt.Sprintf("T%d", i+1), func() {
				defer func() { done++ }()
				x.Yield("invoke " + t.name)
				acks[i] = t.run(w)
			})
		}
		if sc.ticker {
			n++
			x.Go("ticker", func() {
				defer func() { done++ }()
				x.Yield("grant tick")
				lungo.VerifGrantTick(w.Engine)
			})
		}
		x.Await("join", func() bool { return done == n })
		if sc.ticker {
			x.Quiescent("settle")
		}
		w.Close()
		// the closed database, the stored catalog, and the stored bytes decoded as FileStore.Load does
		cat := w.Engine.Catalog()
		vis = c06Dump(cat)
		stored = c06Dump(w.Store.Catalog)
		var loaded *lungo.Catalog
		loaded, imgErr = w.Store.LoadImage()
		if imgErr == nil {
			image = c06Dump(loaded)
			for _, t := range sc.threads {
				if t.in != nil {
					present = append(present, t.in(loaded))
				} else {
					present = append(present, true)
				}
			}
		}
		lungo.VerifForget(w.Engine)
	})
	if class, what := e3Problem(res); class != "" {
		r.Violation("e:"+class+":"+tagOf(sc.name), sc.name+": "+what, c06Rep(sc, res))
		return res
	}
	if imgErr != nil {
		r.Violation("e:image-unreadable:"+tagOf(sc.name), sc.name+": the stored image does not load: "+imgErr.Error(), c06Rep(sc, res))
		return res
	}
	if vis != stored || vis != image {
		r.Violation("e:closed-differs-from-stored:"+tagOf(sc.name), fmt.Sprintf("%s: after all calls returned and the engine was closed, the database it publishes is not the one in the store\nclosed:\n%s\nstored:\n%s\nimage:\n%s", sc.name, vis, stored, image), c06Rep(sc, res))
	}
	var o []string
	for i, t := range sc.threads {
		if t.in == nil {
			continue
		}
		o = append(o, fmt.Sprintf("%s=%s/%v", t.name, acks[i], present[i]))
		if (acks[i] == "ok") != present[i] {
			r.Violation("e:ack-disagrees-with-store:"+tagOf(sc.name), fmt.Sprintf("%s: %q returned %s but its effect is %s the reopened database", sc.name, t.name, acks[i], map[bool]string{true: "in", false: "missing from"}[present[i]]), c06Rep(sc, res))
		}
	}
	if sc.ticker {
		o = append(o, fmt.Sprintf("expired=%v", !strings.Contains(image, `coll="t" docs=1`)))
	}
	outcomes[strings.Join(o, " ")] = true
	return res
}

func tagOf(name string) string { return strings.ReplaceAll(name, " ", "") }

func c06Rep(sc *c06Scenario, res *sched.Result) map[string]interface{} {
	rep := schedReplay(res)
	rep["scenario"] = sc.name
	rep["part"] = "e"
	return rep
}

// c06Sched explores every scenario; it returns executions, transitions, distinct outcomes, exhaustive.
func c06Sched(c *Ctx, bound int) (execs, trans, outs int64, exhaustive bool, perScenario []interface{}) {
	exhaustive = true
	scs := c06Scenarios()
	res := e3Shards(c, len(scs), func(i int, col *shardCollector) *shardOut {
		sc := scs[i]
		out := col.out
		out.Name = sc.name
		scOut := map[string]bool{}
		ex := &sched.Explorer{Bound: bound + sc.bound, MaxExec: 400000,
			Exec: func(prefix, expectN []int) *sched.Result {
				return c06RunSched(col, sc, prefix, expectN, scOut)
			},
			Visit: func(res *sched.Result) bool { return !col.TooMany() },
		}
		if rname, choices, ok := e3Replay(c); ok {
			if rname != sc.name {
				out.Exhaustive = false
				return out
			}
			ex.Only = choices
		}
		st := ex.Explore()
		out.Executions, out.Transitions, out.MaxPoints, out.Exhaustive = st.Executions, st.Transitions, st.MaxPoints, st.Exhaustive
		for k, v := range st.PerBound {
			out.PerBound[fmt.Sprint(k)] = v
		}
		for o := range scOut {
			out.Outcomes = append(out.Outcomes, o)
		}
		sort.Strings(out.Outcomes)
		if len(scOut) < 2 && len(out.Violations) == 0 && ex.Only == nil {
			out.Broken = append(out.Broken, fmt.Sprintf("vacuous: %d distinct outcome(s)", len(scOut)))
		}
		return out
	})
	for _, o := range res {
		execs += o.Executions
		trans += o.Transitions
		outs += int64(len(o.Outcomes))
		exhaustive = exhaustive && o.Exhaustive
		perScenario = append(perScenario, map[string]interface{}{"scenario": o.Name, "executions": o.Executions, "outcomes": o.Outcomes})
	}
	return
}
