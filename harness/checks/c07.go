package checks

import (
	"fmt"
	"strings"
	"sync"

	"go.mongodb.org/mongo-driver/bson"
	"go.mongodb.org/mongo-driver/mongo"

	"github.com/256dpi/lungo"
	"github.com/256dpi/lungo/mongokit"

	"verif/internal/e1"
	"verif/internal/refmodel"
	"verif/internal/world"
)

// idxAlphabet is the collision-rich alphabet shared by C07 and C15.
// ids[i] lists the explicit _id values call i tries to insert (for the _id exactness rule).
// idxSpecOf maps a call name to the unique index definition it tries to build (nil otherwise).
var idxSpecs = map[string]*mongokit.IndexConfig{}
var idxSpecsMu sync.Mutex

func idxAlphabet(extra bool) (calls []e1.Call, ids [][]interface{}) {
	add := func(c e1.Call, id ...interface{}) {
		calls = append(calls, c)
		ids = append(ids, id)
	}
	ins := func(d bson.D) {
		var id []interface{}
		for _, e := range d {
			if e.Key == "_id" {
				id = append(id, e.Value)
			}
		}
		add(cInsertOne("d", "c", d), id...)
	}
	ins(bD("_id", int32(1), "a", int32(1)))
	ins(bD("_id", int32(2), "a", int64(1)))
	ins(bD("_id", int32(2), "a", 1.0, "b", int32(1)))
	ins(bD("_id", int32(3), "a", "1"))
	ins(bD("_id", 1.0, "a", int32(2)))
	ins(bD("_id", int32(2), "a", bson.A{int32(1), int32(2)}))
	ins(bD("_id", int32(3), "a", bson.A{int32(2), int32(3)}, "b", int32(1)))
	ins(bD("_id", int32(3), "a", bson.A{}))
	ins(bD("_id", int32(2), "a", nil))
	ins(bD("_id", int32(3)))
	ins(bD("_id", int32(2), "a", int32(1), "b", int32(0)))
	ins(bD("a", int32(1)))
	// a document whose own key list repeats a BSON-equal value must not collide with itself
	ins(bD("_id", int32(3), "a", bson.A{int32(2), 2.0}))
	ins(bD("_id", int32(1), "a", bson.A{"x", "y", "x"}))
	add(cUpdate("d", "c", false, bD("_id", int32(2)), bD("$push", bD("a", int32(2))), false))
	add(cUpdate("d", "c", false, bD("_id", int32(2)), bD("$set", bD("a", int32(1))), false))
	add(cUpdate("d", "c", false, bD("_id", int32(2)), bD("$set", bD("a", int32(2))), false))
	add(cUpdate("d", "c", true, bD(), bD("$set", bD("a", int32(1))), false))
	add(cUpdate("d", "c", true, bD("a", bD("$type", "number")), bD("$inc", bD("a", int32(1))), false))
	add(cUpdate("d", "c", true, bD("a", bD("$type", "int")), bD("$bit", bD("a", bD("xor", int32(3)))), false))
	add(cUpdate("d", "c", false, bD("_id", int32(1)), bD("$push", bD("a", int32(2))), false))
	add(cUpdate("d", "c", true, bD(), bD("$pull", bD("a", int32(1))), false))
	add(cUpdate("d", "c", false, bD("_id", int32(2)), bD("$set", bD("b", int32(1))), false))
	add(cUpdate("d", "c", false, bD("_id", int32(2)), bD("$set", bD("b", int32(0))), false))
	add(cUpdate("d", "c", false, bD("_id", int32(1)), bD("$unset", bD("a", "")), false))
	add(cUpdate("d", "c", false, bD("_id", int32(9)), bD("$set", bD("a", int32(1))), true), int32(9))
	add(cReplace("d", "c", bD("_id", int32(2)), bD("a", int32(1)), false))
	add(cReplace("d", "c", bD("_id", int32(8)), bD("a", int32(2), "b", int32(1)), true), int32(8))
	add(cFindOneAndUpdate("d", "c", bD("a", int32(2)), bD("$set", bD("a", int64(1))), nil, true, false))
	// sorted one-document writes: the document acted on is not the first in insertion order
	add(cFindOneAndUpdate("d", "c", bD(), bD("$set", bD("b", int32(5))), bD("a", int32(-1), "_id", int32(-1)), true, false))
	add(cFindOneAndDelete("d", "c", bD(), bD("_id", int32(-1))))
	bulk := func() []mongo.WriteModel {
		return []mongo.WriteModel{
			mongo.NewInsertOneModel().SetDocument(bD("_id", int32(3), "a", int32(1))),
			mongo.NewUpdateOneModel().SetFilter(bD("_id", int32(1))).SetUpdate(bD("$set", bD("a", int32(5)))),
			mongo.NewInsertOneModel().SetDocument(bD("_id", int32(4), "a", int32(1))),
		}
	}
	add(cBulk("d", "c", true, "ins{3,a:1};upd{1->a:5};ins{4,a:1}", bulk), int32(3), int32(4))
	add(cBulk("d", "c", false, "ins{3,a:1};upd{1->a:5};ins{4,a:1}", bulk), int32(3), int32(4))
	bulk2 := func() []mongo.WriteModel {
		return []mongo.WriteModel{
			mongo.NewUpdateManyModel().SetFilter(bD()).SetUpdate(bD("$set", bD("a", int32(5)))),
			mongo.NewInsertOneModel().SetDocument(bD("_id", int32(4), "a", 7.0)),
			mongo.NewInsertOneModel().SetDocument(bD("_id", int32(8), "a", 1.0)),
			mongo.NewUpdateOneModel().SetFilter(bD("_id", int32(1))).SetUpdate(bD("$set", bD("a", int32(2)))),
			mongo.NewInsertOneModel().SetDocument(bD("_id", int32(5), "a", int64(2))),
		}
	}
	add(cBulk("d", "c", false, "updMany{a:5};ins{4,a:7.0};ins{8,a:1.0};upd{1->a:2};ins{5,a:2L}", bulk2), int32(4), int32(8), int32(5))
	add(cBulk("d", "c", true, "updMany{a:5};ins{4,a:7.0};ins{8,a:1.0};upd{1->a:2};ins{5,a:2L}", bulk2), int32(4), int32(8), int32(5))
	bulk3 := func() []mongo.WriteModel {
		return []mongo.WriteModel{
			mongo.NewReplaceOneModel().SetFilter(bD("_id", int32(1))).SetReplacement(bD("_id", int32(1), "a", int32(1))), // identical to the stored document when it is fresh
			mongo.NewInsertOneModel().SetDocument(bD("_id", int32(6), "a", int32(60))),
			mongo.NewUpdateOneModel().SetFilter(bD("_id", int32(1))).SetUpdate(bD("$set", bD("a", int32(1)))), // no-op update
		}
	}
	add(cBulk("d", "c", true, "repl{1 identical};ins{6,a:60};upd{1 no-op}", bulk3), int32(6))
	add(cInsertMany("d", "c", false, bD("_id", int32(5), "a", int32(7)), bD("_id", int32(6), "a", 7.0), bD("_id", int32(7), "a", int32(8))), int32(5), int32(6), int32(7))
	add(cInsertMany("d", "c", true, bD("_id", int32(5), "a", int32(7)), bD("_id", int32(6), "a", 7.0), bD("_id", int32(7), "a", int32(8))), int32(5), int32(6), int32(7))
	add(cDelete("d", "c", false, bD("_id", int32(1))))
	add(cDelete("d", "c", true, bD("a", int32(1))))
	add(cDelete("d", "c", true, bD()))
	// keys below documents in arrays and keys that are arrays themselves, changed in place through index paths
	ins(bD("_id", int32(4), "a", bson.A{bson.A{int32(7)}, bson.A{int32(1)}}, "items", bson.A{bD("k", int32(1)), bD("k", int32(2))}))
	ins(bD("_id", int32(5), "a", bson.A{bson.A{int32(3)}}, "items", bson.A{bD("k", int32(3))}))
	ins(bD("_id", int32(6), "items", bson.A{bD("k", int32(2))}))
	add(cUpdate("d", "c", false, bD("_id", int32(4)), bD("$set", bD("items.1.k", int32(3), "a.0.0", int32(3))), false))
	add(cUpdate("d", "c", false, bD("_id", int32(4)), bD("$inc", bD("items.0.k", int32(1))), false))
	// neighbouring numbers of different types beyond 2^53
	ins(bD("_id", int32(7), "a", int64(1)<<53+1))
	ins(bD("_id", int32(8), "a", float64(int64(1)<<53)))
	uniq := func(key bson.D, o idxOpt) {
		c := cCreateIndex("d", "c", key, o)
		k := key
		cfg := &mongokit.IndexConfig{Key: &k, Unique: true}
		if o.partial != nil {
			p := o.partial
			cfg.Partial = &p
		}
		idxSpecsMu.Lock()
		idxSpecs[c.Name] = cfg
		idxSpecsMu.Unlock()
		add(c)
	}
	uniq(bD("a", int32(1)), idxOpt{unique: true})
	uniq(bD("items.k", int32(1)), idxOpt{unique: true})
	uniq(bD("a", int32(1), "b", int32(1)), idxOpt{unique: true})
	uniq(bD("a", int32(1)), idxOpt{unique: true, partial: bD("b", bD("$gt", int32(0))), name: "part"})
	add(cDropIndex("d", "c", "a_1"))
	add(cDropIndex("d", "c", "*"))
	if !extra {
		add(cDropIndexWithKey("d", "c", bD("_id", int32(1)))) // (part of the extra calls of C15 otherwise)
	}
	// the engine-level API: an index build that may be rejected, followed by a write in the same transaction and a commit
	add(e1.Call{Name: "engine.txn{CreateIndex({a:1} unique, name \"eng\"); Insert({_id:90,a:1}); Commit}", Do: func(w *world.World) string {
		txn, err := w.Engine.Begin(w.Ctx, true)
		if err != nil {
			return "err"
		}
		defer w.Engine.Abort(txn)
		key := bD("a", int32(1))
		_, e1 := txn.CreateIndex(lungo.Handle{"d", "c"}, "eng", mongokit.IndexConfig{Key: &key, Unique: true})
		doc := bD("_id", int32(90), "a", int32(1))
		_, e2 := txn.Insert(lungo.Handle{"d", "c"}, []*bson.D{&doc}, true)
		return world.ErrClass(e1) + "," + world.ErrClass(e2) + "," + world.ErrClass(w.Engine.Commit(txn))
	}})
	// a compound unique index over four fields, the last of them holding arrays
	ins(bD("_id", int32(9), "a", int32(1), "b", int32(1), "c", int32(1), "d", bson.A{int32(1), int32(2)}))
	ins(bD("_id", int32(10), "a", int32(1), "b", int32(1), "c", int32(1), "d", int32(1)))
	uniq(bD("a", int32(1), "b", int32(1), "c", int32(1), "d", int32(1)), idxOpt{unique: true})
	add(cReload())
	if extra {
		// C15: index-management corner cases
		add(cCreateIndex("d", "c", bD("a", int32(1)), idxOpt{}))            // same key, not unique: conflicts with a_1 unique
		uniq(bD("a", int32(1)), idxOpt{unique: true, name: "other"})        // same key under another name
		add(cCreateIndex("d", "c", bD("b", int32(1)), idxOpt{name: "a_1"})) // same name, other key
		add(cCreateIndex("d", "c", bD("b", int32(-1)), idxOpt{}))
		uniq(bD("a", int32(1)), idxOpt{unique: true, name: "part"})                                        // name and key of "part" without its partial filter
		uniq(bD("a", int32(1)), idxOpt{unique: true, partial: bD("b", bD("$gt", int32(0)))})               // name and key of a_1 with a partial filter
		uniq(bD("a", int32(1)), idxOpt{unique: true, partial: bD("b", bD("$gt", int32(1))), name: "part"}) // another partial filter
		add(cCreateIndex("d", "c", bD("t", int32(1)), idxOpt{expire: i32(3600)}))
		add(cDropIndex("d", "c", "_id_"))
		add(cDropIndex("d", "c", "nope"))
		add(cDropIndexWithKey("d", "c", bD("a", int32(1))))
		add(cDropIndexWithKey("d", "c", bD("_id", int32(1))))
		add(cUpdate("d", "c", true, bD(), bD("$inc", bD("a", int32(1))), false)) // fails on strings / arrays at the k-th document
		add(cUpdate("d", "c", false, bD("_id", int32(1)), bD("$set", bD("_id", int32(5))), false))
		add(cDropColl("d", "c"))
		// an array below an embedded document under a unique index (the reads after every step project below it)
		ins(bD("_id", int32(11), "n", bD("t", bson.A{int32(1), int32(2), int32(3)}, "u", int32(1))))
		uniq(bD("n.t", int32(1)), idxOpt{unique: true})
	}
	return
}

// relaxUnique turns every unique secondary index of d.c into a non-unique one (shadow engine for the exactness oracle).
func relaxUnique(w *world.World) (specs []mongokit.IndexConfig, names []string, err error) {
	cat := w.Engine.Catalog()
	ns := cat.Namespaces[lungo.Handle{"d", "c"}]
	if ns == nil {
		return nil, nil, nil
	}
	for name, idx := range ns.Indexes {
		c := idx.Config()
		if name == "_id_" || !c.Unique {
			continue
		}
		specs = append(specs, c)
		names = append(names, name)
	}
	for i, name := range names {
		txn, err := w.Engine.Begin(nil, true)
		if err != nil {
			return nil, nil, err
		}
		if err := txn.DropIndex(lungo.Handle{"d", "c"}, name); err != nil {
			w.Engine.Abort(txn)
			return nil, nil, err
		}
		c := specs[i]
		c.Unique = false
		if _, err := txn.CreateIndex(lungo.Handle{"d", "c"}, name, c); err != nil {
			w.Engine.Abort(txn)
			return nil, nil, err
		}
		if err := w.Engine.Commit(txn); err != nil {
			return nil, nil, err
		}
	}
	return specs, names, nil
}

func init() {
	Register("C07", "model_checking", func(c *Ctx) {
		r := c.R
		calls, ids := idxAlphabet(false)
		depth := 3
		if !c.Quick() {
			depth = 4
		}
		var mu sync.Mutex
		var dupSeen, dupJustified int64
		hasDupPair := func(docs []bson.D, sp mongokit.IndexConfig) bool {
			var under []bson.D
			for _, d := range docs {
				if underPartial(d, sp.Partial) {
					under = append(under, d)
				}
			}
			for i := 0; i < len(under); i++ {
				for j := i + 1; j < len(under); j++ {
					if refmodel.SharesKey(under[i], under[j], *sp.Key) {
						return true
					}
				}
			}
			return false
		}
		docsOf := func(w *world.World) []bson.D {
			var out []bson.D
			if ns := w.Engine.Catalog().Namespaces[lungo.Handle{"d", "c"}]; ns != nil {
				for _, d := range ns.Documents.List {
					out = append(out, *d)
				}
			}
			return out
		}
		// justified decides, independently of lungo's uniqueness machinery, whether a uniqueness
		// rejection of the last call of path had a cause.
		justified := func(path []int, w0 func() *world.World) (bool, string) {
			ci := path[len(path)-1]
			// (a) index build: the documents before the call contain a duplicate pair under the new definition
			idxSpecsMu.Lock()
			spec := idxSpecs[calls[ci].Name]
			idxSpecsMu.Unlock()
			if spec != nil {
				w := w0()
				defer w.Close()
				if hasDupPair(docsOf(w), *spec) {
					return true, ""
				}
				return false, "no two documents share a key under the requested definition"
			}
			// (b) _id: the state before holds a document with a BSON-equal _id to one the call inserts
			idExists := false
			{
				w := w0()
				before := docsOf(w)
				w.Close()
				// (an upserting update/replace names its _id in the filter: when that document exists it is modified, nothing
				// is inserted, and its _id cannot be the cause)
				kind := callKind(calls[ci].Name)
				upsertKind := kind == "UpdateOne" || kind == "ReplaceOne" || kind == "UpdateMany"
				for i, id := range ids[ci] {
					for _, d := range before {
						if refmodel.Cmp(refmodel.GetPath(d, "_id"), id) == 0 {
							if upsertKind {
								idExists = true
								continue
							}
							return true, ""
						}
					}
					for j := 0; j < i; j++ {
						if refmodel.Cmp(ids[ci][j], id) == 0 {
							return true, ""
						}
					}
				}
			}
			// (c) secondary unique indexes: the same call on a shadow engine whose unique indexes were
			// relaxed to plain ones yields a duplicate pair under the original definitions
			w := w0()
			defer w.Close()
			specs, _, err := relaxUnique(w)
			if err != nil {
				return true, ""
			}
			obs := calls[ci].Do(w)
			if obs == "dup" && idExists {
				return false, "the document named by the filter exists (nothing is inserted) and, with the uniqueness flags of the secondary indexes removed, only _id_ is left to object"
			}
			if !strings.HasPrefix(obs, "ok") {
				return true, "" // undecidable by this oracle (the relaxed call fails for another reason)
			}
			after := docsOf(w)
			for _, sp := range specs {
				if hasDupPair(after, sp) {
					return true, ""
				}
			}
			return false, "the same call on an engine without the uniqueness flags succeeds (" + obs + ") and leaves no duplicate pair"
		}
		cfg := e1.Config{ReplayNames: c.ReplayCalls(), Alphabet: calls, Depth: depth, Stop: r.TooMany,
			After: func(w *world.World, path []int, pre interface{}, obs string) {
				names := e1.Names(calls, path)
				for _, p := range uniqueProblems(w.Engine.Catalog()) {
					r.Violation(p.class+":"+callKind(names[len(names)-1]), p.what+" after "+strings.Join(names, " ; "), bson.M{"calls": names})
				}
				if strings.HasPrefix(obs, "reload-error") {
					r.Violation("reload-fails:"+callKind(names[len(names)-2]), "persisted image does not load: "+obs+" after "+strings.Join(names, " ; "), bson.M{"calls": names})
				}
				if strings.Contains(obs, "dup") {
					mu.Lock()
					dupSeen++
					mu.Unlock()
				}
			},
		}
		// exactness needs the error text: wrap the last call to capture it
		cfg.Before = func(w *world.World, path []int) interface{} { return nil }
		st := e1.BFS(cfg)
		// the same search from states in which a document with keys below array elements and a unique index exist
		for _, seed := range [][]string{
			{`d.c.InsertOne({"_id":{"$numberInt":"4"}`, `d.c.CreateIndex({"items.k"`},
			{`d.c.InsertOne({"_id":{"$numberInt":"4"}`, `d.c.CreateIndex({"a":{"$numberInt":"1"}},unique=true,partial=null,name=""`},
		} {
			ss := bfsSeeded(cfg, depth-1, seed...)
			st.States += ss.States
			st.Transitions += ss.Transitions
			st.ReplayCalls += ss.ReplayCalls
			st.Exhaustive = st.Exhaustive && ss.Exhaustive
		}
		// exactness pass: every (state, single-write call) whose call reports a uniqueness error
		exact := e1.Config{ReplayNames: c.ReplayCalls(), Alphabet: calls, Depth: depth, Stop: r.TooMany}
		exact.After = func(w *world.World, path []int, pre interface{}, obs string) {
			if obs != "dup" {
				return
			}
			names := e1.Names(calls, path)
			rebuild := func() *world.World {
				w2 := world.New()
				for _, ci := range path[:len(path)-1] {
					calls[ci].Do(w2)
				}
				return w2
			}
			ok, why := justified(path, rebuild)
			mu.Lock()
			if ok {
				dupJustified++
			}
			mu.Unlock()
			if !ok {
				r.Violation("spurious-uniqueness-error:"+callKind(names[len(names)-1]), fmt.Sprintf("%s was rejected for uniqueness but %s; history: %s", names[len(names)-1], why, strings.Join(names, " ; ")), bson.M{"calls": names})
			}
		}
		st2 := e1.BFS(exact)
		r.Set("states", st.States)
		r.Set("transitions", st.Transitions+st2.Transitions)
		r.Set("traces_validated_against_impl", st.Transitions+st2.Transitions)
		r.Set("replay_calls", st.ReplayCalls+st2.ReplayCalls)
		r.Set("max_depth", int64(st.MaxDepth))
		r.Set("frontier_left", int64(st.Frontier))
		r.Set("distinct_outcomes", st.Outcomes)
		r.Set("distinct_nontrivial", st.Nontrivial)
		r.Set("evaluations", st.Transitions+st2.Transitions)
		r.Set("uniqueness_errors_seen", dupSeen)
		r.Set("uniqueness_errors_checked_exact", dupJustified)
		r.Set("alphabet", e1.Names(calls, seq(len(calls))))
		r.Set("exhaustive", st.Exhaustive && st2.Exhaustive)
		r.Set("samples", append(append([]interface{}{}, toIface(st.Shortest)...), toIface(st.Longest)...))
		r.Set("rule", "E1 BFS with state deduplication over the printed alphabet; every transition is a real driver call on an engine rebuilt by replaying the shortest path to its source state; distinct_nontrivial = states with >= 2 distinct successor states")
		r.Assume("index paths in the alphabet are top-level fields (a, b, _id); dotted multikey paths are covered by C15's rebuild oracle only", "exactness ('never rejected for uniqueness without cause') is decided for calls whose whole observation is a uniqueness error; per-item errors of batches are covered by C02")
		if st.States < 200 || dupSeen < 20 || st.Outcomes < 40 {
			r.Broken("vacuous: states=%d dups=%d outcomes=%d", st.States, dupSeen, st.Outcomes)
		}
	})
}

func seq(n int) []int {
	out := make([]int, n)
	for i := range out {
		out[i] = i
	}
	return out
}

func toIface(p [][]string) []interface{} {
	var out []interface{}
	for _, x := range p {
		out = append(out, x)
	}
	return out
}

// callKind extracts the method name of a call label ("d.c.InsertOne({...})" -> "InsertOne").
func callKind(name string) string {
	if i := strings.Index(name, "("); i >= 0 {
		name = name[:i]
	}
	if i := strings.LastIndex(name, "."); i >= 0 {
		name = name[i+1:]
	}
	return name
}
