package checks

import (
	"context"
	"fmt"
	"os"
	"os/exec"
	"path/filepath"
	"sort"
	"strings"
	"sync/atomic"
	"time"

	"go.mongodb.org/mongo-driver/bson"
	"go.mongodb.org/mongo-driver/bson/primitive"
	"go.mongodb.org/mongo-driver/mongo"
	"go.mongodb.org/mongo-driver/mongo/options"

	"github.com/256dpi/lungo"
	"github.com/256dpi/lungo/bsonkit"

	"verif/internal/e1"
	"verif/internal/refmodel"
	"verif/internal/world"
)

// ---------------------------------------------------------------------------
// C08 — the change log is faithful, gap-free and ordered.

type c08Snap struct {
	events   []bson.D
	raw      []string                     // event bytes
	contents map[string]map[string]bson.D // ns -> id (JSON) -> document
}

func c08Take(cat *lungo.Catalog) *c08Snap {
	s := &c08Snap{contents: map[string]map[string]bson.D{}}
	for h, ns := range cat.Namespaces {
		if h == lungo.Oplog {
			for _, d := range ns.Documents.List {
				b, _ := bson.Marshal(d)
				s.raw = append(s.raw, string(b))
				s.events = append(s.events, *d)
			}
			continue
		}
		m := map[string]bson.D{}
		for _, d := range ns.Documents.List {
			m[J(refmodel.GetPath(*d, "_id"))] = *d
		}
		s.contents[h.String()] = m
	}
	return s
}

// canon renders a value with document keys sorted recursively (equality up to field order).
func canonSorted(v interface{}) interface{} {
	switch x := v.(type) {
	case bson.D:
		out := make(bson.D, len(x))
		for i, e := range x {
			out[i] = bson.E{Key: e.Key, Value: canonSorted(e.Value)}
		}
		sort.SliceStable(out, func(i, j int) bool { return out[i].Key < out[j].Key })
		return out
	case bson.A:
		out := make(bson.A, len(x))
		for i, e := range x {
			out[i] = canonSorted(e)
		}
		return out
	}
	return v
}

func evField(ev bson.D, key string) interface{} {
	for _, e := range ev {
		if e.Key == key {
			return e.Value
		}
	}
	return nil
}

// c08Check compares two consecutive states; returns violation (class, text) pairs.
func c08Check(before, after *c08Snap, failed bool) [][2]string {
	var out [][2]string
	bad := func(class, f string, a ...interface{}) { out = append(out, [2]string{class, fmt.Sprintf(f, a...)}) }
	// the log only grows, earlier events stay byte-identical
	if len(after.raw) < len(before.raw) {
		bad("log-shrank", "the change log lost events (%d -> %d) although retention is not due", len(before.raw), len(after.raw))
		return out
	}
	for i := range before.raw {
		if before.raw[i] != after.raw[i] {
			bad("log-rewritten", "event %d of the change log changed after it had been written", i)
			return out
		}
	}
	newEvents := after.events[len(before.events):]
	if failed && len(newEvents) > 0 {
		bad("event-for-failed-write", "a call that returned an error appended %d event(s)", len(newEvents))
	}
	// strictly increasing, unique timestamps; clusterTime == _id.ts
	var last primitive.Timestamp
	if n := len(before.events); n > 0 {
		last, _ = refmodel.GetPath(before.events[n-1], "_id.ts").(primitive.Timestamp)
	}
	for i, ev := range newEvents {
		ts, ok := refmodel.GetPath(ev, "_id.ts").(primitive.Timestamp)
		ct, _ := evField(ev, "clusterTime").(primitive.Timestamp)
		if !ok || !tsLess(last, ts) {
			bad("timestamps", "event %d: _id.ts %v is not greater than its predecessor's %v", len(before.events)+i, ts, last)
		}
		if ct != ts {
			bad("timestamps", "event %d: clusterTime %v differs from _id.ts %v", len(before.events)+i, ct, ts)
		}
		last = ts
	}
	// replay the new events on the contents before
	st := map[string]map[string]bson.D{}
	for ns, m := range before.contents {
		c := map[string]bson.D{}
		for k, d := range m {
			c[k] = d
		}
		st[ns] = c
	}
	for i, ev := range newEvents {
		op, _ := evField(ev, "operationType").(string)
		db, _ := refmodel.GetPath(ev, "ns.db").(string)
		coll, _ := refmodel.GetPath(ev, "ns.coll").(string)
		ns := db + "." + coll
		key := J(refmodel.GetPath(ev, "documentKey._id"))
		switch op {
		case "insert", "replace", "update":
			full, ok := evField(ev, "fullDocument").(bson.D)
			if !ok {
				bad("event-shape", "%s event %d carries no fullDocument", op, i)
				continue
			}
			if J(refmodel.GetPath(full, "_id")) != key {
				bad("event-shape", "%s event %d: documentKey %s differs from fullDocument._id", op, i, key)
			}
			if st[ns] == nil {
				st[ns] = map[string]bson.D{}
			}
			prev, had := st[ns][key]
			if op == "insert" && had {
				bad("replay", "insert event for %s %s but that document already exists", ns, key)
			}
			if op != "insert" && !had {
				bad("replay", "%s event for %s %s but no such document exists before it", op, ns, key)
			}
			if op == "update" && had {
				// update description applied to the previous version gives the new version (up to field order)
				var cur interface{} = refmodel.CopyDoc(prev)
				okDesc := true
				if uf, ok := refmodel.GetPath(ev, "updateDescription.updatedFields").(bson.D); ok {
					for _, f := range uf {
						nv, err := refmodel.SetPath(cur, f.Key, refmodel.Copy(f.Value))
						if err != nil {
							okDesc = false
							break
						}
						cur = nv
					}
				} else {
					okDesc = false
				}
				if rf, ok := refmodel.GetPath(ev, "updateDescription.removedFields").(bson.A); ok {
					for _, f := range rf {
						if p, ok := f.(string); ok {
							cur, _ = refmodel.UnsetPath(cur, p)
						}
					}
				}
				if !okDesc || J(canonSorted(cur)) != J(canonSorted(full)) {
					bad("update-description", "update event for %s %s: applying updatedFields/removedFields %s to the previous version %s gives %s, the new version is %s",
						ns, key, J(refmodel.GetPath(ev, "updateDescription")), J(prev), J(cur), J(full))
				}
				if J(prev) == J(full) {
					bad("event-for-noop", "update event for %s %s although the document did not change", ns, key)
				}
			}
			if op == "replace" && had && J(prev) == J(full) {
				bad("event-for-noop", "replace event for %s %s although the document did not change", ns, key)
			}
			st[ns][key] = full
		case "delete":
			if _, had := st[ns][key]; !had {
				bad("replay", "delete event for %s %s but no such document exists before it", ns, key)
			}
			delete(st[ns], key)
		case "drop":
			if _, had := st[ns]; !had {
				bad("replay", "drop event for %s which does not exist", ns)
			}
			delete(st, ns)
		case "dropDatabase":
			for k := range st {
				if strings.HasPrefix(k, db+".") {
					bad("replay", "dropDatabase event for %s while %s was not dropped by a preceding drop event", db, k)
					delete(st, k)
				}
			}
		default:
			bad("event-shape", "unknown operationType %q", op)
		}
	}
	// replayed contents == contents after (as sets of documents by _id)
	render := func(m map[string]map[string]bson.D) string {
		var lines []string
		for ns, docs := range m {
			// empty collections (created by an index build or CreateCollection) carry no documents to replay
			for k, d := range docs {
				lines = append(lines, ns+" "+k+" "+J(d))
			}
		}
		sort.Strings(lines)
		return strings.Join(lines, "\n")
	}
	if a, b := render(st), render(after.contents); a != b {
		bad("replay-differs", "replaying the %d new event(s) on the previous contents does not give the new contents:\n--- replayed\n%s\n--- actual\n%s", len(newEvents), a, b)
	}
	return out
}

func c08Alphabet() []e1.Call {
	var calls []e1.Call
	add := func(c e1.Call) { calls = append(calls, c) }
	i := func(v int) int32 { return int32(v) }
	d1 := bD("_id", i(1), "n", i(1), "s", "x", "nul", nil, "arr", bson.A{i(1), i(2), i(3)}, "sub", bD("k", i(1), "l", bson.A{bD("x", i(1), "y", i(1)), bD("x", i(2), "y", i(2))}))
	d2 := bD("_id", i(2), "n", i(5), "arr", bson.A{i(3)})
	add(cInsertOne("d", "c", d1))
	add(cInsertOne("d", "c", d2))
	add(cInsertOne("d", "c", bD("_id", i(1), "n", i(9))))
	add(cInsertOne("d", "c", bD("n", i(7))))
	add(cInsertOne("d", "e", bD("_id", "e1")))
	add(cInsertMany("d", "c", false, bD("_id", i(3), "n", i(3)), bD("_id", i(1)), bD("_id", i(4), "arr", bson.A{})))
	upd := func(u bson.D) { add(cUpdate("d", "c", false, bD("_id", i(1)), u, false)) }
	updMany := func(u bson.D) { add(cUpdate("d", "c", true, bD(), u, false)) }
	upd(bD("$set", bD("n", i(1))))                                    // no-op
	upd(bD("$set", bD("n", i(2), "sub.k", i(2), "fresh.deep", i(1)))) // nested + new parents
	upd(bD("$unset", bD("s", "", "sub.k", "", "nope", "")))           // removal incl. missing
	upd(bD("$unset", bD("nul", "")))                                  // removal of a field that holds null
	upd(bD("$rename", bD("s", "t")))
	upd(bD("$inc", bD("n", i(1)), "$mul", bD("sub.k", i(3))))
	upd(bD("$min", bD("n", i(0)), "$max", bD("sub.k", i(0)))) // one changes, one does not
	upd(bD("$push", bD("arr", i(4))))
	upd(bD("$push", bD("arr", bD("$each", bson.A{i(7), i(8)}, "$position", i(1), "$slice", i(4)))))
	upd(bD("$push", bD("newarr", i(1))))                                            // push on a missing field
	upd(bD("$push", bD("arr", bD("$each", bson.A{i(7), i(8)}, "$position", i(1))))) // insertion in the middle, no $slice/$sort
	upd(bD("$push", bD("arr", bD("$each", bson.A{i(6)}, "$position", i(0)))))       // at the front
	upd(bD("$push", bD("arr", bD("$each", bson.A{i(5)}, "$position", i(-1)))))      // before the last element
	upd(bD("$pop", bD("arr", i(1))))
	upd(bD("$pop", bD("arr", i(-1))))
	upd(bD("$pull", bD("arr", bD("$gte", i(2)))))
	upd(bD("$pullAll", bD("arr", bson.A{i(1), i(9)})))
	upd(bD("$addToSet", bD("arr", i(2)))) // present: no-op on the fresh document
	upd(bD("$addToSet", bD("arr", bD("$each", bson.A{i(2), i(9)}))))
	upd(bD("$bit", bD("n", bD("xor", i(3)))))
	upd(bD("$set", bD("arr.1", i(20), "sub.l.0.x", i(9)))) // array element paths
	upd(bD("$set", bD("sub.l.$[].y", i(0))))
	upd(bD("$unset", bD("arr.0", "")))
	upd(bD("$currentDate", bD("when", true)))
	upd(bD("$inc", bD("s", i(1)))) // fails on the string
	updMany(bD("$inc", bD("n", i(1))))
	updMany(bD("$max", bD("n", i(5)), "$unset", bD("s", ""))) // no-op for some, change for others
	updMany(bD("$push", bD("arr", i(3))))
	updMany(bD("$set", bD("n", int64(5)))) // a change of value for one document, of the numeric type only for another
	add(cUpdate("d", "c", false, bD("_id", i(9)), bD("$set", bD("n", i(1))), true))
	add(cReplace("d", "c", bD("_id", i(1)), d1, false)) // identical replacement when the document is fresh
	add(cReplace("d", "c", bD("_id", i(2)), bD("n", i(6)), false))
	add(cReplace("d", "c", bD("_id", i(8)), bD("n", i(8)), true))
	add(cFindOneAndUpdate("d", "c", bD(), bD("$inc", bD("n", i(1))), bD("n", i(-1)), true, false))
	add(cFindOneAndDelete("d", "c", bD(), bD("n", i(1))))
	add(cDelete("d", "c", true, bD("n", bD("$gte", i(3)))))
	add(cDelete("d", "c", false, bD("_id", i(77))))
	add(cBulk("d", "c", false, "ins{5};upd{2};dupins{1};del{2}", func() []mongo.WriteModel {
		return []mongo.WriteModel{
			mongo.NewInsertOneModel().SetDocument(bD("_id", i(5))),
			mongo.NewUpdateOneModel().SetFilter(bD("_id", i(2))).SetUpdate(bD("$inc", bD("n", i(1)))),
			mongo.NewInsertOneModel().SetDocument(bD("_id", i(1))),
			mongo.NewDeleteOneModel().SetFilter(bD("_id", i(2))),
		}
	}))
	txn := func(name string, commit bool) {
		add(e1.Call{Name: name, Do: func(w *world.World) string {
			sess, err := w.Client.StartSession()
			if err != nil {
				return "err"
			}
			defer sess.EndSession(w.Ctx)
			if err := sess.StartTransaction(); err != nil {
				return "err"
			}
			var res []string
			_ = lungo.WithSession(w.Ctx, sess, func(sc lungo.ISessionContext) error {
				_, e1 := w.C("d", "c").InsertOne(sc, bD("_id", "t1"))
				_, e2 := w.C("d", "e").UpdateMany(sc, bD(), bD("$set", bD("touched", true)))
				_, e3 := w.C("d", "c").DeleteOne(sc, bD("_id", i(2)))
				_, e4 := w.C("d", "c").BulkWrite(sc, []mongo.WriteModel{
					mongo.NewInsertOneModel().SetDocument(bD("_id", "t2")),
					mongo.NewUpdateOneModel().SetFilter(bD("_id", i(1))).SetUpdate(bD("$inc", bD("n", i(100)))),
				})
				// a statement that fails after its write (the projection is rejected): no event of it may be committed
				e5 := w.C("d", "c").FindOneAndUpdate(sc, bD("_id", i(1)), bD("$inc", bD("n", i(1000))), options.FindOneAndUpdate().SetProjection(bD("n", i(1), "s", i(0)))).Err()
				res = append(res, world.ErrClass(e1), world.ErrClass(e2), world.ErrClass(e3), world.ErrClass(e4), world.ErrClass(e5))
				return nil
			})
			if commit {
				res = append(res, world.ErrClass(sess.CommitTransaction(w.Ctx)))
			} else {
				res = append(res, world.ErrClass(sess.AbortTransaction(w.Ctx)))
			}
			return strings.Join(res, ",")
		}})
	}
	txn("txn{ins d.c; updMany d.e; del d.c; bulk d.c}+commit", true)
	txn("txn{ins d.c; updMany d.e; del d.c; bulk d.c}+abort", false)
	add(cCreateIndex("d", "c", bD("n", i(1)), idxOpt{unique: true}))
	// TTL expiry over several namespaces in one pass: one delete event per removed document
	add(e1.Call{Name: "ttl-setup{TTL index on t in d.c, d.e, x.c; one expired and one live document each}", Do: func(w *world.World) string {
		old := primitive.NewDateTimeFromTime(time.Now().Add(-3 * time.Hour))
		fresh := primitive.NewDateTimeFromTime(time.Now().Add(3 * time.Hour))
		var res []string
		for _, ns := range [][2]string{{"d", "c"}, {"d", "e"}, {"x", "c"}} {
			res = append(res, cCreateIndex(ns[0], ns[1], bD("t", i(1)), idxOpt{expire: i32(3600)}).Do(w))
			_, e1 := w.C(ns[0], ns[1]).InsertOne(w.Ctx, bD("_id", "ttl-old", "t", old))
			_, e2 := w.C(ns[0], ns[1]).InsertOne(w.Ctx, bD("_id", "ttl-new", "t", fresh))
			res = append(res, world.ErrClass(e1), world.ErrClass(e2))
		}
		return "ok " + strings.Join(res, ",")
	}})
	add(e1.Call{Name: "expire-pass", Do: func(w *world.World) string {
		txn, err := w.Engine.Begin(nil, true)
		if err != nil {
			return "err"
		}
		defer w.Engine.Abort(txn)
		if err := txn.Expire(); err != nil {
			return "err"
		}
		return world.ErrClass(w.Engine.Commit(txn))
	}})
	add(cDropColl("d", "c"))
	add(cDropDB("d"))
	return calls
}

// c08Retention checks Transaction.Clean against the reference formula on synthetic change logs.
func c08Retention(c *Ctx) (cases int64, truncating int64) {
	r := c.R
	ages := []int64{10, 2000, 200000}
	var patterns [][]int64
	var gen func(n int, cur []int64, minIdx int)
	gen = func(n int, cur []int64, maxIdx int) {
		if len(cur) == n {
			patterns = append(patterns, append([]int64{}, cur...))
			return
		}
		// oldest first: ages are non-increasing along the log
		for k := maxIdx; k >= 0; k-- {
			gen(n, append(cur, ages[k]), k)
		}
	}
	maxLen := 5
	if !c.Quick() {
		maxLen = 6
	}
	for n := 0; n <= maxLen; n++ {
		gen(n, nil, len(ages)-1)
	}
	minSizes := []int{0, 1, 2, 4}
	maxSizes := []int{1, 2, 3, 100}
	minAges := []time.Duration{0, 1000 * time.Second, 100000 * time.Second}
	maxAges := []time.Duration{1000 * time.Second, 100000 * time.Second, 500 * time.Hour}
	for _, pat := range patterns {
		for _, minSize := range minSizes {
			for _, maxSize := range maxSizes {
				for _, minAge := range minAges {
					for _, maxAge := range maxAges {
						now := uint32(time.Now().Unix())
						var list bsonkit.List
						for k, age := range pat {
							ts := primitive.Timestamp{T: now - uint32(age), I: uint32(k + 1)}
							d := bson.D{{Key: "_id", Value: bson.D{{Key: "ts", Value: ts}}}, {Key: "clusterTime", Value: ts}, {Key: "operationType", Value: "insert"},
								{Key: "ns", Value: bson.D{{Key: "db", Value: "d"}, {Key: "coll", Value: "c"}}}, {Key: "documentKey", Value: bson.D{{Key: "_id", Value: int32(k)}}}, {Key: "fullDocument", Value: bson.D{{Key: "_id", Value: int32(k)}}}}
							list = append(list, &d)
						}
						f := lungo.File{Namespaces: map[string]lungo.FileNamespace{"local.oplog": {Documents: list, Indexes: map[string]lungo.FileIndex{}}}}
						cat, err := f.BuildCatalog()
						if err != nil {
							r.Broken("synthetic catalog: %v", err)
							return
						}
						txn := lungo.NewTransaction(cat)
						txn.Clean(minSize, maxSize, minAge, maxAge)
						got := len(txn.Catalog().Namespaces[lungo.Oplog].Documents.List)
						// reference: drop the longest prefix of events that are both outside the keep-zone (and old enough)
						// and forced out (beyond the maximum size or older than the maximum age)
						n := len(pat)
						drop := 0
						for idx, age := range pat {
							willing := idx < n-minSize && (minAge == 0 || time.Duration(age)*time.Second > minAge)
							forced := idx < n-maxSize || time.Duration(age)*time.Second > maxAge
							if !(willing && forced) {
								break
							}
							drop++
						}
						cases++
						if drop > 0 {
							truncating++
						}
						if got != n-drop {
							r.Violation(fmt.Sprintf("retention:keeps-%s", map[bool]string{true: "too-few", false: "too-many"}[got < n-drop]),
								fmt.Sprintf("Clean(minSize=%d,maxSize=%d,minAge=%s,maxAge=%s) on a log with event ages %v s keeps %d events, the retention rule keeps %d", minSize, maxSize, minAge, maxAge, pat, got, n-drop),
								map[string]interface{}{"part": "retention", "ages_s": pat, "minSize": minSize, "maxSize": maxSize, "minAge": minAge.String(), "maxAge": maxAge.String()})
						}
						// the survivors are exactly the newest events, untouched, and dirty is set iff something was dropped
						keep := txn.Catalog().Namespaces[lungo.Oplog].Documents.List
						for k, d := range keep {
							if got == n-drop && d != list[drop+k] {
								r.Violation("retention:not-a-suffix", fmt.Sprintf("Clean kept something else than the newest %d events (ages %v)", got, pat), map[string]interface{}{"part": "retention", "ages_s": pat})
								break
							}
						}
						if txn.Dirty() != (got != n) {
							r.Violation("retention:dirty-flag", fmt.Sprintf("Clean removed %d events but Dirty()=%v", n-got, txn.Dirty()), map[string]interface{}{"part": "retention", "ages_s": pat})
						}
					}
				}
			}
		}
	}
	return
}

func init() {
	Register("C08", "model_checking", func(c *Ctx) {
		r := c.R
		// worker mode: one process lifetime on a store file (open, three commits, close)
		if path := os.Getenv("VERIF_C08_WRITER"); path != "" {
			tag := os.Getenv("VERIF_C08_TAG")
			client, engine, err := lungo.Open(context.Background(), lungo.Options{Store: lungo.NewFileStore(path, 0o666)})
			if err != nil {
				fmt.Println("writer: open:", err)
				os.Exit(3)
			}
			for k := 0; k < 3; k++ {
				if _, err := client.Database("d").Collection("c").InsertOne(context.Background(), bD("_id", fmt.Sprintf("%s-%d", tag, k))); err != nil {
					fmt.Println("writer: insert:", err)
					os.Exit(3)
				}
			}
			engine.Close()
			os.Exit(0)
		}
		// the change log across process lifetimes: event ids stay unique and increasing when a process that opens the
		// file writes within the same second as the one that closed it (several pairs of short-lived processes)
		{
			work := os.Getenv("VERIF_WORK")
			if work == "" {
				work = os.TempDir()
			}
			var sameSecond, pairs int64
			for attempt := 0; attempt < 6 && sameSecond < 2; attempt++ {
				path := filepath.Join(work, fmt.Sprintf("c08-restart-%d.bson", attempt))
				_ = os.Remove(path)
				okRuns := true
				for run := 0; run < 2; run++ {
					cmd := exec.Command(os.Args[0], "C08", "quick")
					cmd.Env = append(os.Environ(), "VERIF_C08_WRITER="+path, fmt.Sprintf("VERIF_C08_TAG=a%dr%d", attempt, run), "VERIF_EVIDENCE_DIR="+work)
					if out, err := cmd.CombinedOutput(); err != nil {
						r.Broken("restart writer: %v %s", err, out)
						okRuns = false
					}
				}
				if !okRuns {
					break
				}
				cat, err := lungo.NewFileStore(path, 0o666).Load()
				_ = os.Remove(path)
				if err != nil {
					r.Violation("restart:file-does-not-load", err.Error(), map[string]interface{}{"part": "restart"})
					break
				}
				pairs++
				evs := c09ReadOplog(cat)
				if len(evs) != 6 {
					r.Violation("restart:events", fmt.Sprintf("two processes made three commits each, the change log holds %d events", len(evs)), map[string]interface{}{"part": "restart"})
					break
				}
				if evs[2].ts.T == evs[3].ts.T {
					sameSecond++
				}
				for k := 1; k < len(evs); k++ {
					a, b := evs[k-1].ts, evs[k].ts
					if !(b.T > a.T || (b.T == a.T && b.I > a.I)) {
						r.Violation("restart:event-ids-not-increasing", fmt.Sprintf("after a process restart within one second the change log holds the ids %v: event %d has {%d %d} after {%d %d}", func() (o []string) {
							for _, e := range evs {
								o = append(o, fmt.Sprintf("{%d %d}", e.ts.T, e.ts.I))
							}
							return
						}(), k, b.T, b.I, a.T, a.I), map[string]interface{}{"part": "restart"})
						break
					}
				}
			}
			r.Set("restart_pairs", pairs)
			r.Set("restart_pairs_within_one_second", sameSecond)
		}
		alpha := c08Alphabet()
		// quick: every sequence <= 3 from the empty database and <= 3 from a database holding the two sample documents;
		// thorough: <= 4 and <= 4
		depth := 3
		if !c.Quick() {
			depth = 4
		}
		var updEvents, noopCalls, failedCalls, events, storeFaults int64
		cfg := e1.Config{
			ReplayNames: c.ReplayCalls(),
			Alphabet:    alpha,
			Depth:       depth,
			Key:         func(w *world.World) string { return w.Key() },
			Before: func(w *world.World, path []int) interface{} {
				return c08Take(w.Engine.Catalog())
			},
			After: func(w *world.World, path []int, pre interface{}, obs string) {
				before := pre.(*c08Snap)
				after := c08Take(w.Engine.Catalog())
				failed := obs == "err" || obs == "dup"
				if failed {
					atomic.AddInt64(&failedCalls, 1)
				}
				// the statement that fails inside the session transactions adds 1000 to n: no event may carry its effect
				if strings.HasPrefix(e1.Names(alpha, path)[len(path)-1], "txn{") {
					for _, ev := range after.events[len(before.events):] {
						if n, ok := refmodel.GetPath(ev, "fullDocument.n").(int32); ok && n >= 1000 {
							r.Violation("event-for-failed-statement", fmt.Sprintf("the change log holds an event with the effect of the statement that failed inside %s: %s", e1.Names(alpha, path)[len(path)-1], J(ev)), map[string]interface{}{"calls": e1.Names(alpha, path)})
						}
					}
				}
				if len(after.events) == len(before.events) {
					atomic.AddInt64(&noopCalls, 1)
				}
				atomic.AddInt64(&events, int64(len(after.events)-len(before.events)))
				for _, ev := range after.events[len(before.events):] {
					if evField(ev, "operationType") == "update" {
						atomic.AddInt64(&updEvents, 1)
					}
				}
				names := e1.Names(alpha, path)
				// the same call on a store that rejects its commit: it reports the error and the visible log and
				// contents stay as they were
				if !failed && len(after.events) > len(before.events) && !strings.HasPrefix(names[len(names)-1], "ttl-setup") {
					ws := world.New()
					for _, ci := range path[:len(path)-1] {
						alpha[ci].Do(ws)
					}
					b0 := c08Take(ws.Engine.Catalog())
					ws.Store.FailNext = 1
					o2 := alpha[path[len(path)-1]].Do(ws)
					if ws.Store.FailNext == 0 {
						atomic.AddInt64(&storeFaults, 1)
						a0 := c08Take(ws.Engine.Catalog())
						if len(a0.events) != len(b0.events) {
							r.Violation("event-for-rejected-commit:"+callKind(names[len(names)-1]), fmt.Sprintf("%s on a store that rejects the commit returned %q and the change log grew from %d to %d events\n  calls: %s", names[len(names)-1], o2, len(b0.events), len(a0.events), strings.Join(names, " ; ")), map[string]interface{}{"calls": names, "store": "fails"})
						}
					}
					ws.Store.FailNext = 0
					ws.Close()
				}
				for _, v := range c08Check(before, after, failed) {
					cls := v[0] + ":" + callKind(names[len(names)-1])
					if v[0] == "update-description" {
						cls = v[0] + ":" + c08UpdateOps(names[len(names)-1])
					}
					r.Violation(cls, v[1]+"\n  calls: "+strings.Join(names, " ; "), map[string]interface{}{"calls": names})
				}
			},
			Stop: r.TooMany,
		}
		st := e1.BFS(cfg)
		{
			seeded := cfg
			seeded.New = func() *world.World {
				w := world.New()
				alpha[0].Do(w)
				alpha[1].Do(w)
				return w
			}
			inner := cfg.After
			seeded.After = func(w *world.World, path []int, pre interface{}, obs string) {
				inner(w, append([]int{0, 1}, path...), pre, obs)
			}
			st2 := e1.BFS(seeded)
			st.States += st2.States
			st.Transitions += st2.Transitions
			st.ReplayCalls += st2.ReplayCalls
			st.Outcomes += st2.Outcomes
			st.Nontrivial += st2.Nontrivial
			st.Exhaustive = st.Exhaustive && st2.Exhaustive
			r.Set("seeded_states", st2.States)
		}
		cases, trunc := c08Retention(c)
		// retention as the engine applies it at commit time: a database whose change log starts with three aged events,
		// MinOplogSize 2, MaxOplogSize 1000, MinOplogAge ~0, MaxOplogAge 1 h; after every commit of every sequence of
		// <= 3 writes the retained log must be what the retention rule leaves of (previous log + new events)
		var engineRetention, engineTrunc int64
		{
			writes := []e1.Call{cInsertOne("d", "c", bD("k", int32(1))), cInsertMany("d", "c", false, bD("k", int32(2)), bD("k", int32(3))), cCreateIndex("d", "e", bD("q", int32(1)), idxOpt{}), cDelete("d", "c", true, bD())}
			for _, lim := range [][2]int{{2, 1000}, {5, 2}, {1, 1}} {
				minSize, maxSize := lim[0], lim[1]
				var rec func(path []int)
				rec = func(path []int) {
					if len(path) > 0 {
						w := c09NewWorldSized(minSize, maxSize)
						for _, ci := range path {
							prev := c09ReadOplog(w.Engine.Catalog())
							stores := w.Store.Stores
							writes[ci].Do(w)
							cur := c09ReadOplog(w.Engine.Catalog())
							seen := map[primitive.Timestamp]bool{}
							for _, e := range prev {
								seen[e.ts] = true
							}
							all := append([]c09Event{}, prev...)
							for _, e := range cur {
								if !seen[e.ts] {
									all = append(all, e)
								}
							}
							engineRetention++
							want := all
							if w.Store.Stores > stores { // the commit was dirty: retention ran
								now := uint32(time.Now().Unix())
								drop := 0
								for idx, e := range all {
									age := int64(now) - int64(e.ts.T)
									willing := idx < len(all)-minSize && age > 0
									forced := idx < len(all)-maxSize || age > 3600
									if !(willing && forced) {
										break
									}
									drop++
								}
								want = all[drop:]
								if drop > 0 {
									engineTrunc++
								}
							}
							if len(cur) != len(want) || (len(cur) > 0 && cur[0].ts != want[0].ts) {
								names := []string{}
								for _, k := range path {
									names = append(names, writes[k].Name)
								}
								r.Violation("engine-retention", fmt.Sprintf("MinOplogSize %d, MaxOplogSize %d: after %s the change log holds %d events, the retention rule leaves %d of the %d events (3 of them aged)", minSize, maxSize, strings.Join(names, " ; "), len(cur), len(want), len(all)), map[string]interface{}{"part": "engine-retention", "calls": names, "min_size": minSize, "max_size": maxSize})
								break
							}
						}
						w.Close()
					}
					if len(path) == 3 {
						return
					}
					for k := range writes {
						rec(append(append([]int{}, path...), k))
					}
				}
				rec(nil)
			}
		}
		r.Set("engine_retention_commits", engineRetention)
		r.Set("engine_retention_truncating", engineTrunc)
		r.Set("states", st.States)
		r.Set("transitions", st.Transitions)
		r.Set("replay_calls", st.ReplayCalls)
		r.Set("max_depth", int64(st.MaxDepth))
		r.Set("frontier_left", int64(st.Frontier))
		r.Set("distinct_outcomes", st.Outcomes)
		r.Set("distinct_nontrivial", st.Nontrivial)
		r.Set("evaluations", st.Transitions+cases)
		r.Set("traces_validated_against_impl", st.Transitions)
		r.Set("events_checked", events)
		r.Set("update_events_checked", updEvents)
		r.Set("calls_without_event", noopCalls)
		r.Set("failed_calls", failedCalls)
		r.Set("calls_repeated_on_a_failing_store", storeFaults)
		r.Set("retention_cases", cases)
		r.Set("retention_cases_truncating", trunc)
		r.Set("exhaustive", st.Exhaustive && !r.TooMany())
		var names []string
		for _, a := range alpha {
			names = append(names, a.Name)
		}
		r.Set("alphabet", names)
		r.Set("samples", []interface{}{map[string]interface{}{"shortest_paths": toIface(st.Shortest)}, map[string]interface{}{"longest_paths": toIface(st.Longest)}, map[string]interface{}{"new_states_per_level": st.PerLevel}})
		r.Set("rule", "E1 BFS with deduplication: every sequence <= max_depth of the alphabet (writes, failing writes, no-op writes, one update per operator on nested/array fields, multi-namespace transaction commit/abort, drops). For every transition: the log after extends the log before byte-for-byte, new events carry strictly increasing unique timestamps, a failed call appends nothing, no event for an unchanged document, replaying the new events (set fullDocument / remove / drop) on the contents before yields the contents after, and every update event's updatedFields/removedFields applied to the previous version yields the new version. Retention: Transaction.Clean on every synthetic log of length <= 5/6 with non-increasing age patterns x minSize x maxSize x minAge x maxAge against the prefix rule.")
		r.Assume("pairwise replay between any two positions follows from the consecutive-step replay plus the byte-exact prefix property checked at every step", "event ages in the retention grid keep >= 990 s distance from every cut-off; exact-boundary ages are not explored", "events of one multi-namespace drop are compared as a set")
		if st.States < 100 || updEvents < 100 || trunc < 100 || engineTrunc < 10 {
			r.Broken("vacuity: states=%d update events=%d truncating retention cases=%d", st.States, updEvents, trunc)
		}
	})
}

// c08UpdateOps extracts the operator names of an update call label (known-finding keys name the operator).
func c08UpdateOps(name string) string {
	var ops []string
	for _, op := range []string{"$set", "$unset", "$rename", "$inc", "$mul", "$min", "$max", "$push", "$pop", "$pullAll", "$pull\"", "$addToSet", "$bit", "$currentDate"} {
		if strings.Contains(name, "\""+strings.TrimSuffix(op, "\"")+"\"") {
			ops = append(ops, strings.TrimSuffix(op, "\""))
		}
	}
	if strings.Contains(name, "$[]") {
		ops = append(ops, "all-positional")
	}
	if len(ops) == 0 {
		return callKind(name)
	}
	return strings.Join(ops, "+")
}
