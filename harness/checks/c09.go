package checks

import (
	"context"
	"errors"
	"fmt"
	"os"
	"sort"
	"strings"
	"time"

	"go.mongodb.org/mongo-driver/bson"
	"go.mongodb.org/mongo-driver/bson/primitive"
	"go.mongodb.org/mongo-driver/mongo"
	"go.mongodb.org/mongo-driver/mongo/options"

	"github.com/256dpi/lungo"

	"verif/internal/e1"
	"verif/internal/sched"
	"verif/internal/world"
)

// ---------------------------------------------------------------------------
// C09 — change streams: each matching event once, in order, no stalls.
//
// The oracle is the change log itself. c09Hist keeps the complete history H of
// events ever seen in local.oplog (retention only removes a prefix), and a
// stream is modelled by the index p of the last event it has examined.

type c09Event struct {
	ts   primitive.Timestamp
	db   string
	coll string
	op   string
}

func (e c09Event) String() string {
	return fmt.Sprintf("%s:%s.%s@%d.%d", e.op, e.db, e.coll, e.ts.T, e.ts.I)
}

type c09Hist struct {
	H     []c09Event
	first int // index in H of the oldest retained event
	bad   string
}

func c09ReadOplog(cat *lungo.Catalog) []c09Event {
	var out []c09Event
	for _, d := range cat.Namespaces[lungo.Oplog].Documents.List {
		var ev c09Event
		for _, e := range *d {
			switch e.Key {
			case "_id":
				ev.ts, _ = e.Value.(bson.D)[0].Value.(primitive.Timestamp)
			case "ns":
				for _, n := range e.Value.(bson.D) {
					if n.Key == "db" {
						ev.db, _ = n.Value.(string)
					} else if n.Key == "coll" {
						ev.coll, _ = n.Value.(string)
					}
				}
			case "operationType":
				ev.op, _ = e.Value.(string)
			}
		}
		out = append(out, ev)
	}
	return out
}

// refresh merges the currently retained oplog into the history.
func (h *c09Hist) refresh(cat *lungo.Catalog) {
	cur := c09ReadOplog(cat)
	if len(cur) == 0 {
		if len(h.H) > 0 && h.first < len(h.H) {
			h.first = len(h.H)
		}
		return
	}
	// locate cur[0] in H
	pos := -1
	for i := h.first; i < len(h.H); i++ {
		if h.H[i].ts == cur[0].ts {
			pos = i
			break
		}
	}
	if pos < 0 {
		if len(h.H) > h.first && len(h.H) > 0 {
			// everything retained before was discarded and only new events remain
			h.first = len(h.H)
		}
		pos = len(h.H)
	}
	h.first = pos
	for i, ev := range cur {
		k := pos + i
		if k < len(h.H) {
			if h.H[k].ts != ev.ts && h.bad == "" {
				h.bad = fmt.Sprintf("oplog is not a suffix extension of its history at %d: %v vs %v", k, h.H[k], ev)
			}
			continue
		}
		if len(h.H) > 0 && !tsLess(h.H[len(h.H)-1].ts, ev.ts) && h.bad == "" {
			h.bad = fmt.Sprintf("event timestamps not strictly increasing: %v then %v", h.H[len(h.H)-1], ev)
		}
		h.H = append(h.H, ev)
	}
}

func tsLess(a, b primitive.Timestamp) bool { return a.T < b.T || (a.T == b.T && a.I < b.I) }

type c09Scope [2]string

func (s c09Scope) String() string {
	switch {
	case s[0] == "":
		return "client"
	case s[1] == "":
		return "db:" + s[0]
	}
	return s[0] + "." + s[1]
}

func (s c09Scope) in(e c09Event) bool {
	if s[0] == "" {
		return true
	}
	if s[1] == "" {
		return e.db == s[0]
	}
	return e.db == s[0] && (e.coll == s[1] || e.op == "dropDatabase")
}

func (s c09Scope) invalidates(e c09Event) bool {
	if s[0] != "" && s[1] != "" && e.op == "drop" && e.db == s[0] && e.coll == s[1] {
		return true
	}
	return s[0] != "" && e.op == "dropDatabase" && e.db == s[0]
}

// c09Model is the reference state of one stream.
type c09Model struct {
	scope   c09Scope
	p       int  // index in H of the last examined event (-1: before everything)
	inval   bool // the next call must deliver the invalidate event
	ended   bool // Next must return false from now on
	lostErr bool // ended by the lost-position error
}

// c09Expect describes what the next TryNext must do.
type c09Expect struct {
	event        int  // index in H to be delivered, -1 none
	invalidate   bool // must deliver an invalidate event
	none         bool // must return false without error
	lostRequired bool // must return false with ErrLostOplogPosition
	lostAllowed  bool // may do so (its position itself was discarded)
}

// peek computes the expectation without advancing.
func (m *c09Model) peek(h *c09Hist) c09Expect {
	if m.ended {
		return c09Expect{event: -1, none: true}
	}
	if m.inval {
		return c09Expect{event: -1, invalidate: true}
	}
	ex := c09Expect{event: -1}
	for q := m.p + 1; q < h.first && q < len(h.H); q++ {
		if m.scope.in(h.H[q]) {
			ex.lostRequired = true
		}
	}
	if m.p >= 0 && m.p < h.first {
		ex.lostAllowed = true
	}
	if ex.lostRequired {
		return ex
	}
	start := m.p + 1
	if start < h.first {
		start = h.first
	}
	for q := start; q < len(h.H); q++ {
		if m.scope.in(h.H[q]) {
			ex.event = q
			return ex
		}
	}
	ex.none = true
	return ex
}

// c09Live is a real stream next to its model.
type c09Live struct {
	s     lungo.IChangeStream
	m     c09Model
	desc  string
	trace []string
	// unpos: lungo holds no event as the position of this stream (opened on an empty log, or with a
	// start time older than the oldest retained event): it cannot notice later/earlier truncation
	unpos bool
}

func (l *c09Live) tag() string {
	if l.unpos {
		return " [unpositioned stream]"
	}
	return ""
}

// step calls TryNext once and compares with the model; returns a violation text or "".
func (l *c09Live) step(ctx context.Context, h *c09Hist) (delivered bool, viol string) {
	ex := l.m.peek(h)
	ok := l.s.TryNext(ctx)
	err := l.s.Err()
	if ok {
		var ev bson.D
		if derr := l.s.Decode(&ev); derr != nil {
			return true, fmt.Sprintf("%s: TryNext returned true but Decode failed: %v", l.desc, derr)
		}
		var ts primitive.Timestamp
		var op string
		tsOK := false
		for _, e := range ev {
			switch e.Key {
			case "_id":
				if id, isD := e.Value.(bson.D); isD && len(id) > 0 {
					ts, tsOK = id[0].Value.(primitive.Timestamp)
				}
			case "operationType":
				op, _ = e.Value.(string)
			}
		}
		l.trace = append(l.trace, op)
		switch {
		case ex.invalidate:
			if op != "invalidate" {
				return true, fmt.Sprintf("%s: expected the invalidate event after the drop, got %s", l.desc, op)
			}
			l.m.inval, l.m.ended = false, true
			return true, ""
		case ex.lostRequired:
			return true, fmt.Sprintf("%s: delivered %s although retention discarded undelivered events of its scope (expected the lost-position error, not a silent skip)%s", l.desc, op, l.tag())
		case ex.event < 0:
			return true, fmt.Sprintf("%s: delivered an unexpected event %s (model expects nothing)", l.desc, op)
		}
		want := h.H[ex.event]
		if op == "invalidate" || !tsOK || ts != want.ts {
			return true, fmt.Sprintf("%s: delivered %s@%v, expected %v (skipped, duplicated or reordered event)", l.desc, op, ts, want)
		}
		l.m.p = ex.event
		if l.m.scope.invalidates(want) {
			l.m.inval = true
		}
		return true, ""
	}
	l.trace = append(l.trace, "-")
	if errors.Is(err, lungo.ErrLostOplogPosition) {
		if !ex.lostRequired && !ex.lostAllowed && !l.m.lostErr {
			return false, fmt.Sprintf("%s: lost-position error although its position is still retained", l.desc)
		}
		l.m.ended, l.m.lostErr = true, true
		return false, ""
	}
	if err != nil {
		return false, fmt.Sprintf("%s: unexpected stream error %v", l.desc, err)
	}
	switch {
	case ex.lostRequired:
		return false, fmt.Sprintf("%s: TryNext false without error although undelivered events of its scope were discarded%s", l.desc, l.tag())
	case ex.invalidate:
		return false, fmt.Sprintf("%s: no invalidate event after the drop of its namespace", l.desc)
	case ex.event >= 0:
		return false, fmt.Sprintf("%s: TryNext false although event %v is pending", l.desc, h.H[ex.event])
	}
	// nothing pending: the model position moves to the end of the log (all examined)
	if !l.m.ended {
		if ex.lostAllowed && !l.unpos {
			return false, fmt.Sprintf("%s: TryNext false without error although its own position was discarded (lungo reports this as lost position)", l.desc)
		}
		l.m.p = len(h.H) - 1
	}
	return false, ""
}

// drain calls step until it returns false (bounded).
func (l *c09Live) drain(ctx context.Context, h *c09Hist) string {
	for i := 0; i < 64; i++ {
		d, v := l.step(ctx, h)
		if v != "" {
			return v
		}
		if !d {
			return ""
		}
	}
	return l.desc + ": drain did not terminate"
}

func c09Watch(w *world.World, sc c09Scope, opt *options.ChangeStreamOptions) (lungo.IChangeStream, error) {
	switch {
	case sc[0] == "":
		return w.Client.Watch(w.Ctx, bson.A{}, opt)
	case sc[1] == "":
		return w.Client.Database(sc[0]).Watch(w.Ctx, bson.A{}, opt)
	}
	return w.C(sc[0], sc[1]).Watch(w.Ctx, bson.A{}, opt)
}

// c09AgedImage builds the persisted image of a database whose three oplog events are 10 000 s old.
var c09AgedImage = func() func() []byte {
	var img []byte
	return func() []byte {
		if img != nil {
			return img
		}
		w := world.New()
		defer w.Close()
		mustIns := func(db, coll string, id string) {
			if _, err := w.C(db, coll).InsertOne(w.Ctx, bD("_id", id)); err != nil {
				panic(err)
			}
		}
		mustIns("d", "c", "old1")
		mustIns("d", "e", "old2")
		mustIns("d", "c", "old3")
		f := lungo.BuildFile(w.Engine.Catalog())
		b, err := bson.Marshal(f)
		if err != nil {
			panic(err)
		}
		// shift every timestamp of the oplog into the past
		var raw bson.D
		if err := bson.Unmarshal(b, &raw); err != nil {
			panic(err)
		}
		var age func(v interface{}) interface{}
		age = func(v interface{}) interface{} {
			switch x := v.(type) {
			case bson.D:
				for i := range x {
					x[i].Value = age(x[i].Value)
				}
				return x
			case bson.A:
				for i := range x {
					x[i] = age(x[i])
				}
				return x
			case primitive.Timestamp:
				return primitive.Timestamp{T: x.T - 10000, I: x.I}
			}
			return v
		}
		out, err := bson.Marshal(age(raw))
		if err != nil {
			panic(err)
		}
		img = out
		return img
	}
}()

func c09NewWorld(aged bool) *world.World {
	if !aged {
		return world.New()
	}
	var f lungo.File
	if err := bson.Unmarshal(c09AgedImage(), &f); err != nil {
		panic(err)
	}
	cat, err := f.BuildCatalog()
	if err != nil {
		panic(err)
	}
	return world.New(world.Options{Catalog: cat, MinOplogSize: 2, MaxOplogSize: 1000, MinOplogAge: time.Nanosecond, MaxOplogAge: time.Hour})
}

// c09NewWorldSized is the aged database with other size limits of the retention (the minimum may exceed the maximum:
// the minimum wins).
func c09NewWorldSized(minSize, maxSize int) *world.World {
	var f lungo.File
	if err := bson.Unmarshal(c09AgedImage(), &f); err != nil {
		panic(err)
	}
	cat, err := f.BuildCatalog()
	if err != nil {
		panic(err)
	}
	return world.New(world.Options{Catalog: cat, MinOplogSize: minSize, MaxOplogSize: maxSize, MinOplogAge: time.Nanosecond, MaxOplogAge: time.Hour})
}

// ---------------------------------------------------------------- sequential part (E1 DFS)

type c09Runner struct {
	c       *Ctx
	aged    bool
	w       *world.World
	h       c09Hist
	streams []*c09Live
	seq     int
	path    []string
	failed  bool
	sweep   bool
	stats   *c09Stats
}

type c09Stats struct {
	steps, opened, swept, delivered, invalidates, lost, resumeErrors int64
}

var c09Actions = []string{"ins d.c", "ins d.e", "ins x.c", "updMany d.c", "txn{ins d.c; ins d.e}", "drop d.c", "dropDB d",
	"watch client", "watch db d", "watch d.c", "TryNext all", "drain all", "close oldest", "watch d.c startAt(first event ever)", "txn{bulk ins+upd d.c} aborted"}

func (r *c09Runner) viol(class, what string) {
	r.failed = true
	r.c.R.Violation(class, what+"; path: "+strings.Join(r.path, " ; "), map[string]interface{}{"part": "sequential", "aged": r.aged, "path": r.path})
}

func (r *c09Runner) open(sc c09Scope, opt *options.ChangeStreamOptions, p int, desc string) *c09Live {
	s, err := c09Watch(r.w, sc, opt)
	if err != nil {
		return nil
	}
	r.stats.opened++
	return &c09Live{s: s, m: c09Model{scope: sc, p: p}, desc: desc, unpos: p < r.h.first}
}

func (r *c09Runner) Step(a int) bool {
	if r.failed {
		return false
	}
	w := r.w
	r.path = append(r.path, c09Actions[a])
	r.stats.steps++
	r.seq++
	id := fmt.Sprintf("n%d", r.seq)
	switch a {
	case 0:
		_, _ = w.C("d", "c").InsertOne(w.Ctx, bD("_id", id, "n", int32(0)))
	case 1:
		_, _ = w.C("d", "e").InsertOne(w.Ctx, bD("_id", id))
	case 2:
		_, _ = w.C("x", "c").InsertOne(w.Ctx, bD("_id", id))
	case 3:
		_, _ = w.C("d", "c").UpdateMany(w.Ctx, bD(), bD("$inc", bD("n", int32(1))))
	case 4:
		sess, err := w.Client.StartSession()
		if err == nil {
			_, _ = sess.WithTransaction(w.Ctx, func(sc lungo.ISessionContext) (interface{}, error) {
				_, _ = w.C("d", "c").InsertOne(sc, bD("_id", id+"a", "n", int32(0)))
				_, _ = w.C("d", "e").InsertOne(sc, bD("_id", id+"b"))
				return nil, nil
			})
			sess.EndSession(w.Ctx)
		}
	case 5:
		_ = w.C("d", "c").Drop(w.Ctx)
	case 6:
		_ = w.Client.Database("d").Drop(w.Ctx)
	case 7, 8, 9:
		sc := []c09Scope{{"", ""}, {"d", ""}, {"d", "c"}}[a-7]
		if len(r.streams) >= 3 {
			return false
		}
		p := len(r.h.H) - 1
		if l := r.open(sc, nil, p, fmt.Sprintf("stream#%d(%s,now@%d)", len(r.streams), sc, p)); l != nil {
			r.streams = append(r.streams, l)
		} else {
			r.viol("seq:watch-now-fails", "Watch without options failed")
		}
	case 10:
		if len(r.streams) == 0 {
			return false
		}
		for _, l := range r.streams {
			d, v := l.step(w.Ctx, &r.h)
			if v != "" {
				r.viol("seq:"+c09Class(v), v)
				return false
			}
			if d {
				r.stats.delivered++
			}
		}
	case 11:
		if len(r.streams) == 0 {
			return false
		}
		for _, l := range r.streams {
			if v := l.drain(w.Ctx, &r.h); v != "" {
				r.viol("seq:"+c09Class(v), v)
				return false
			}
		}
	case 12:
		if len(r.streams) == 0 {
			return false
		}
		l := r.streams[0]
		r.streams = r.streams[1:]
		_ = l.s.Close(w.Ctx)
		if l.s.TryNext(w.Ctx) || l.s.Next(w.Ctx) {
			r.viol("seq:next-after-close", l.desc+": Next returned true after Close")
		}
	case 14:
		// a bulk write inside a session transaction that is aborted: nothing of it ever reaches the change log that the
		// streams read, neither while the transaction is open nor afterwards
		events := func() int {
			if ns := w.Engine.Catalog().Namespaces[lungo.Oplog]; ns != nil {
				return len(ns.Documents.List)
			}
			return 0
		}
		n0 := events()
		sess, err := w.Client.StartSession()
		if err != nil || sess.StartTransaction() != nil {
			r.viol("seq:session", "cannot start a session transaction")
			return false
		}
		_ = lungo.WithSession(w.Ctx, sess, func(sc lungo.ISessionContext) error {
			_, _ = w.C("d", "c").BulkWrite(sc, []mongo.WriteModel{
				mongo.NewInsertOneModel().SetDocument(bD("_id", id+"x", "n", int32(0))),
				mongo.NewUpdateManyModel().SetFilter(bD()).SetUpdate(bD("$inc", bD("n", int32(1)))),
			})
			return nil
		})
		if n := events(); n != n0 {
			r.viol("seq:uncommitted-event-visible", fmt.Sprintf("%d events of an open transaction are in the published change log", n-n0))
		}
		for _, l := range r.streams {
			if _, v := l.step(w.Ctx, &r.h); v != "" {
				r.viol("seq:"+c09Class(v), "while a transaction with a bulk write is open: "+v)
			}
		}
		_ = sess.AbortTransaction(w.Ctx)
		sess.EndSession(w.Ctx)
		if n := events(); n != n0 {
			r.viol("seq:event-of-aborted-transaction", fmt.Sprintf("%d events of an aborted transaction stay in the change log", n-n0))
		}
	case 13:
		if len(r.h.H) == 0 || len(r.streams) >= 3 {
			return false
		}
		ts := r.h.H[0].ts
		sc := c09Scope{"d", "c"}
		if l := r.open(sc, options.ChangeStream().SetStartAtOperationTime(&ts), -1, fmt.Sprintf("stream#%d(%s,startAt first event ever)", len(r.streams), sc)); l != nil {
			r.streams = append(r.streams, l)
		}
	}
	r.h.refresh(w.Engine.Catalog())
	if r.h.bad != "" {
		r.viol("seq:oplog-history", r.h.bad)
		return false
	}
	return true
}

func c09Class(v string) string {
	switch {
	case strings.Contains(v, "silent skip"), strings.Contains(v, "false without error although undelivered"):
		if strings.Contains(v, "[unpositioned stream]") {
			return "silent-skip-after-truncation:unpositioned-stream"
		}
		return "silent-skip-after-truncation:positioned-stream"
	case strings.Contains(v, "skipped, duplicated or reordered"):
		return "wrong-event"
	case strings.Contains(v, "is pending"):
		return "pending-event-not-delivered"
	case strings.Contains(v, "invalidate"):
		return "invalidate"
	case strings.Contains(v, "lost-position error although"):
		return "spurious-lost-position"
	}
	return "other"
}

func (r *c09Runner) Done() {
	defer r.w.Close()
	if r.failed || !r.sweep {
		return
	}
	w := r.w
	h := &r.h
	// every open stream must deliver the complete rest
	for _, l := range r.streams {
		if v := l.drain(w.Ctx, h); v != "" {
			r.viol("seq:"+c09Class(v), v)
			return
		}
		if l.m.lostErr {
			r.stats.lost++
		}
		if l.m.ended && !l.m.lostErr {
			r.stats.invalidates++
		}
	}
	// every start position x every scope on the final state
	check := func(l *c09Live) bool {
		r.stats.swept++
		v := l.drain(w.Ctx, h)
		_ = l.s.Close(w.Ctx)
		if v != "" {
			r.viol("sweep:"+c09Class(v), v)
			return !r.c.R.TooMany() // keep sweeping: other positions may fail differently
		}
		if l.m.lostErr {
			r.stats.lost++
		}
		return true
	}
	for _, sc := range []c09Scope{{"", ""}, {"d", ""}, {"d", "c"}, {"x", "c"}} {
		for k := range h.H {
			tok := bson.D{{Key: "ts", Value: h.H[k].ts}}
			for mode := 0; mode < 3; mode++ {
				var opt *options.ChangeStreamOptions
				p := k
				name := ""
				switch mode {
				case 0:
					opt, name = options.ChangeStream().SetResumeAfter(tok), "resumeAfter"
				case 1:
					opt, name = options.ChangeStream().SetStartAfter(tok), "startAfter"
				case 2:
					ts := h.H[k].ts
					opt, name, p = options.ChangeStream().SetStartAtOperationTime(&ts), "startAt", k-1
				}
				desc := fmt.Sprintf("stream(%s,%s event %d of %d, retained from %d)", sc, name, k, len(h.H), h.first)
				s, err := c09Watch(w, sc, opt)
				if err != nil {
					// an explicit error is fine exactly when the position is no longer retained
					if k >= h.first {
						r.viol("sweep:resume-fails", desc+": Watch failed although the position is retained: "+err.Error())
						return
					}
					r.stats.resumeErrors++
					continue
				}
				if mode < 2 && k < h.first {
					_ = s.Close(w.Ctx)
					r.viol("sweep:resume-from-discarded", desc+": Watch accepted a token whose event was discarded")
					return
				}
				if !check(&c09Live{s: s, m: c09Model{scope: sc, p: p}, desc: desc, unpos: p < h.first}) {
					return
				}
			}
		}
		// before the first and after the last event, and a foreign token
		if len(h.H) > 0 {
			before := primitive.Timestamp{T: h.H[0].ts.T - 1, I: 0}
			after := primitive.Timestamp{T: h.H[len(h.H)-1].ts.T + 1000, I: 0}
			if s, err := c09Watch(w, sc, options.ChangeStream().SetStartAtOperationTime(&before)); err == nil {
				if !check(&c09Live{s: s, m: c09Model{scope: sc, p: -1}, unpos: true, desc: fmt.Sprintf("stream(%s,startAt before the first event, retained from %d)", sc, h.first)}) {
					return
				}
			}
			if s, err := c09Watch(w, sc, options.ChangeStream().SetStartAtOperationTime(&after)); err == nil {
				if !check(&c09Live{s: s, m: c09Model{scope: sc, p: len(h.H) - 1}, desc: fmt.Sprintf("stream(%s,startAt after the last event)", sc)}) {
					return
				}
			} else {
				r.viol("sweep:startAt-future-fails", "Watch with a start time after the last event failed: "+err.Error())
				return
			}
		}
		foreign := bson.D{{Key: "ts", Value: primitive.Timestamp{T: 1, I: 1}}}
		if s, err := c09Watch(w, sc, options.ChangeStream().SetResumeAfter(foreign)); err == nil {
			_ = s.Close(w.Ctx)
			r.viol("sweep:foreign-token", "Watch accepted a resume token that names no event")
			return
		}
	}
	live := 0
	for _, l := range r.streams {
		if !l.m.ended {
			live++
		}
	}
	if n := w.Engine.VerifStreams(); n != live {
		r.viol("seq:stream-leak", fmt.Sprintf("%d streams registered, %d open and not ended", n, live))
	}
}

// ---------------------------------------------------------------- concurrent part (E3)

type c09Scen struct {
	name     string
	aged     bool
	scope    c09Scope
	writers  [][]string // per writer thread: ops
	consumer string     // "next" | "poll"
	ender    string     // "gated-close" | "free-close" | "free-cancel" | "free-engine-close"
	bound    int        // relative to the tier default
}

func c09Scenarios() []*c09Scen {
	dc := c09Scope{"d", "c"}
	return []*c09Scen{
		{name: "R1 consumer Next vs writer(2 commits in scope) vs writer(out of scope)", scope: dc, writers: [][]string{{"ins d.c", "ins d.c"}, {"ins d.e"}}, consumer: "next", ender: "gated-close", bound: -1},
		{name: "R1b client-wide consumer vs two writers", scope: c09Scope{}, writers: [][]string{{"ins d.c"}, {"ins x.c"}}, consumer: "next", ender: "gated-close", bound: -1},
		{name: "R1c consumer vs one writer, two commits", scope: dc, writers: [][]string{{"ins d.c", "ins d.c"}}, consumer: "next", ender: "gated-close"},
		{name: "R2 blocked Next vs Close from another thread", scope: dc, writers: [][]string{{"ins d.c"}}, consumer: "next", ender: "free-close"},
		{name: "R3 blocked Next vs context cancellation", scope: dc, writers: [][]string{{"ins d.c"}}, consumer: "next", ender: "free-cancel"},
		{name: "R4 blocked Next vs engine Close", scope: dc, writers: [][]string{{"ins d.c"}}, consumer: "next", ender: "free-engine-close"},
		{name: "R5 TryNext poller vs writer", scope: dc, writers: [][]string{{"ins d.c", "ins d.c"}}, consumer: "poll", ender: "gated-close"},
		{name: "R6 drop while blocked", scope: dc, writers: [][]string{{"ins d.c", "drop d.c"}}, consumer: "next", ender: "gated-close"},
		{name: "R6b database drop while blocked (db scope)", scope: c09Scope{"d", ""}, writers: [][]string{{"ins d.e", "dropDB d"}}, consumer: "next", ender: "gated-close"},
		{name: "R7 truncating commits while the consumer lags", aged: true, scope: dc, writers: [][]string{{"ins d.c", "ins d.c"}}, consumer: "next", ender: "gated-close"},
		{name: "R8 multi-namespace transaction commit vs consumer", scope: dc, writers: [][]string{{"txn"}, {"ins d.c"}}, consumer: "next", ender: "gated-close", bound: -1},
	}
}

type c09Outcome struct {
	delivered []string
	viol      []string
	summary   string
}

func c09Run(sc *c09Scen, prefix, expectN []int) (*sched.Result, *c09Outcome) {
	out := &c09Outcome{}
	res := sched.Run(prefix, expectN, sched.Config{}, func(x *sched.Exec) {
		w := c09NewWorld(sc.aged)
		x.Adopt(1)
		var h c09Hist
		h.refresh(w.Engine.Catalog())
		startP := len(h.H) - 1
		ctx, cancel := context.WithCancel(context.Background())
		defer cancel()
		stream, err := c09Watch(w, sc.scope, nil)
		if err != nil {
			out.viol = append(out.viol, "watch-fails: "+err.Error())
			return
		}
		sched.NoteStream(stream)
		pending := 0
		spawn := func(name string, fn func()) {
			pending++
			x.Go(name, func() {
				defer func() { pending-- }()
				fn()
			})
		}
		seq := 0
		for wi, ops := range sc.writers {
			ops := ops
			wi := wi
			spawn(fmt.Sprintf("writer%d", wi), func() {
				for _, op := range ops {
					seq++
					id := fmt.Sprintf("w%d-%d", wi, seq)
					switch op {
					case "ins d.c":
						_, _ = w.C("d", "c").InsertOne(w.Ctx, bD("_id", id))
					case "ins d.e":
						_, _ = w.C("d", "e").InsertOne(w.Ctx, bD("_id", id))
					case "ins x.c":
						_, _ = w.C("x", "c").InsertOne(w.Ctx, bD("_id", id))
					case "drop d.c":
						_ = w.C("d", "c").Drop(w.Ctx)
					case "dropDB d":
						_ = w.Client.Database("d").Drop(w.Ctx)
					case "txn":
						sess, err := w.Client.StartSession()
						if err == nil {
							_, _ = sess.WithTransaction(w.Ctx, func(sctx lungo.ISessionContext) (interface{}, error) {
								_, _ = w.C("d", "e").InsertOne(sctx, bD("_id", id+"a"))
								_, _ = w.C("d", "c").InsertOne(sctx, bD("_id", id+"b"))
								return nil, nil
							})
							sess.EndSession(w.Ctx)
						}
					}
				}
			})
		}
		// the consumer records (timestamp, type) of every delivered event
		var gots []got
		decodeFailed := false
		var endErr error
		consumerDone := false
		record := func() {
			var ev bson.D
			if stream.Decode(&ev) != nil {
				// Close from another thread between Next and Decode clears the current event
				decodeFailed = true
				return
			}
			var g got
			for _, e := range ev {
				switch e.Key {
				case "_id":
					if id, ok := e.Value.(bson.D); ok && len(id) > 0 {
						g.ts, _ = id[0].Value.(primitive.Timestamp)
					}
				case "operationType":
					g.op, _ = e.Value.(string)
				}
			}
			gots = append(gots, g)
		}
		gatedEnd := false
		spawn("consumer", func() {
			defer func() { consumerDone = true }()
			if sc.consumer == "poll" {
				for i := 0; i < 3; i++ {
					if stream.TryNext(ctx) {
						record()
					}
					x.Yield("poll")
				}
				x.Quiescent("final drain when quiet")
				gatedEnd = true
				for stream.TryNext(ctx) {
					record()
				}
				endErr = stream.Err()
				_ = stream.Close(w.Ctx)
				return
			}
			for stream.Next(ctx) {
				record()
			}
			endErr = stream.Err()
		})
		if sc.consumer != "poll" {
			spawn("ender", func() {
				switch sc.ender {
				case "gated-close":
					x.Quiescent("close the stream when everything is quiet")
					if !consumerDone {
						gatedEnd = true
					}
					_ = stream.Close(w.Ctx)
				case "free-close":
					_ = stream.Close(w.Ctx)
				case "free-cancel":
					cancel()
				case "free-engine-close":
					w.Engine.Close()
				}
			})
		}
		x.Await("join", func() bool { return pending == 0 })
		// ---- oracle
		if stream.Next(ctx) || stream.TryNext(ctx) {
			if sc.ender != "free-cancel" { // a cancelled context does not close the stream
				out.viol = append(out.viol, "next-after-end: Next returned true after the stream had ended")
			}
		}
		cat := w.Engine.VerifCatalog()
		h.refresh(cat)
		if h.bad != "" {
			out.viol = append(out.viol, "oplog-history: "+h.bad)
		}
		// expected sequence over the full history
		var want []got
		invalidated := false
		lostPossible := startP >= 0 && startP < h.first
		for q := startP + 1; q < len(h.H); q++ {
			if !sc.scope.in(h.H[q]) {
				continue
			}
			want = append(want, got{h.H[q].ts, h.H[q].op})
			if sc.scope.invalidates(h.H[q]) {
				want = append(want, got{op: "invalidate"})
				invalidated = true
				break
			}
		}
		for i, g := range gots {
			if i >= len(want) || g.op != want[i].op || (g.op != "invalidate" && g.ts != want[i].ts) {
				out.viol = append(out.viol, fmt.Sprintf("wrong-event: delivered #%d is %s@%v, the scope-filtered change log has %v there (skipped, duplicated or reordered)", i, g.op, g.ts, wantAt(want, i)))
				break
			}
		}
		if decodeFailed && sc.ender != "free-close" {
			out.viol = append(out.viol, "decode-fails: Next returned true but Decode failed although nobody closed the stream")
		}
		lost := errors.Is(endErr, lungo.ErrLostOplogPosition)
		switch {
		case lost && !lostPossible:
			out.viol = append(out.viol, "spurious-lost-position: stream failed with the lost-position error although its position is retained")
		case endErr != nil && !lost && !(sc.ender == "free-cancel" && errors.Is(endErr, context.Canceled)):
			out.viol = append(out.viol, "stream-error: "+endErr.Error())
		}
		complete := len(gots) == len(want)
		if (gatedEnd || invalidated && sc.ender == "gated-close") && !complete && !lost && len(out.viol) == 0 {
			out.viol = append(out.viol, fmt.Sprintf("lost-wakeup: the system went quiet with the consumer waiting although %d matching event(s) were committed and undelivered (delivered %d of %d)", len(want)-len(gots), len(gots), len(want)))
		}
		if !w.Engine.VerifAlive() {
			// closed by the scenario
		} else {
			if n := w.Engine.VerifStreams(); n != 0 && sc.ender != "free-cancel" {
				out.viol = append(out.viol, fmt.Sprintf("stream-leak: %d streams registered after the stream ended", n))
			}
			_ = stream.Close(w.Ctx)
			w.Close()
		}
		lungo.VerifForget(w.Engine)
		out.summary = fmt.Sprintf("delivered=%d/%d lost=%v err=%v", len(gots), len(want), lost, endErr != nil)
	})
	return res, out
}

type got struct {
	ts primitive.Timestamp
	op string
}

func wantAt(w []got, i int) string {
	if i < len(w) {
		return fmt.Sprintf("%s@%v", w[i].op, w[i].ts)
	}
	return "nothing"
}

func init() {
	Register("C09", "model_checking", func(c *Ctx) {
		r := c.R
		if !sched.Available {
			r.Broken("binary built without the scheduler overlay")
			return
		}
		c09AgedImage() // built outside any controlled execution
		// --replay of a violation of the sequential part: the recorded action sequence, fresh and aged database
		if _, _, sched := e3Replay(c); !sched && os.Getenv("VERIF_SHARD") == "" {
			if seq, ok := replaySeq(c, c09Actions); ok {
				for _, aged := range []bool{false, true} {
					rn := &c09Runner{c: c, aged: aged, w: c09NewWorld(aged), sweep: true, stats: &c09Stats{}}
					rn.h.refresh(rn.w.Engine.Catalog())
					for _, a := range seq {
						rn.Step(a)
					}
					rn.Done()
				}
				r.Set("replayed_actions", int64(len(seq)))
				r.Set("exhaustive", false)
				return
			}
		}
		// ---- concurrent part: one worker process per scenario
		scs := c09Scenarios()
		base := 2
		if !c.Quick() {
			base = 3
		}
		outs := e3Shards(c, len(scs), func(i int, col *shardCollector) *shardOut {
			sc := scs[i]
			out := col.out
			out.Name = sc.name
			seen := map[string]bool{}
			ex := &sched.Explorer{Bound: base + sc.bound, MaxExec: 400000,
				Exec: func(prefix, expectN []int) *sched.Result {
					res, o := c09Run(sc, prefix, expectN)
					rep := schedReplay(res)
					rep["scenario"] = sc.name
					rep["part"] = "concurrent"
					if cls, what := e3Problem(res); cls != "" {
						col.Violation("conc:"+cls+":"+strings.Fields(sc.name)[0], sc.name+": "+what+"; schedule "+res.Schedule(), rep)
						return res
					}
					for _, v := range o.viol {
						col.Violation("conc:"+strings.SplitN(v, ":", 2)[0]+":"+strings.Fields(sc.name)[0], sc.name+": "+v+"; schedule "+res.Schedule(), rep)
					}
					seen[o.summary] = true
					return res
				},
				Visit: func(res *sched.Result) bool { return !col.TooMany() },
			}
			if rname, choices, ok := e3Replay(c); ok {
				if rname != sc.name {
					out.Exhaustive = false
					return out // the replay file names another scenario
				}
				ex.Only = choices
			}
			st := ex.Explore()
			out.Executions, out.Transitions, out.MaxPoints, out.Exhaustive = st.Executions, st.Transitions, st.MaxPoints, st.Exhaustive
			out.Extra["owned_select_choices"], out.Extra["racy_selects"] = st.Picks, st.RacySelects
			out.Extra["select_retries"], out.Extra["unreachable_select_branches"], out.Extra["unowned_divergences"] = st.Retries, st.Unreachable, st.Unowned
			for k, v := range st.PerBound {
				out.PerBound[fmt.Sprint(k)] = v
			}
			for o := range seen {
				out.Outcomes = append(out.Outcomes, o)
			}
			sort.Strings(out.Outcomes)
			return out
		})
		e3Merge(c, outs, base)
		concExh := true
		for _, o := range outs {
			concExh = concExh && o.Exhaustive
		}
		// ---- sequential part
		depth := 4
		if !c.Quick() {
			depth = 5
		}
		var total c09Stats
		var paths, steps, pruned int64
		seqExh := true
		for _, aged := range []bool{false, true} {
			for d := 1; d <= depth; d++ {
				statsCh := make(chan *c09Stats, 1024)
				done := make(chan struct{})
				go func() {
					for s := range statsCh {
						total.steps += s.steps
						total.opened += s.opened
						total.swept += s.swept
						total.delivered += s.delivered
						total.invalidates += s.invalidates
						total.lost += s.lost
						total.resumeErrors += s.resumeErrors
					}
					close(done)
				}()
				ps := e1.Paths(len(c09Actions), d, func() e1.Runner {
					rn := &c09Runner{c: c, aged: aged, w: c09NewWorld(aged), sweep: true, stats: &c09Stats{}}
					rn.h.refresh(rn.w.Engine.Catalog())
					return &c09StatRunner{c09Runner: rn, ch: statsCh}
				}, r.TooMany)
				close(statsCh)
				<-done
				paths += ps.Paths
				steps += ps.Steps
				pruned += ps.Pruned
				seqExh = seqExh && ps.Exhaustive
			}
		}
		r.Set("seq_paths", paths)
		r.Set("seq_steps", steps)
		r.Set("seq_pruned_prefixes", pruned)
		r.Set("seq_depth", int64(depth))
		r.Set("seq_streams_opened", total.opened)
		r.Set("seq_start_positions_swept", total.swept)
		r.Set("seq_events_delivered_stepwise", total.delivered)
		r.Set("seq_invalidated_streams", total.invalidates)
		r.Set("seq_lost_position_streams", total.lost)
		r.Set("seq_resume_rejected_discarded", total.resumeErrors)
		r.Add("evaluations", paths)
		r.Add("traces_validated_against_impl", paths)
		r.Add("transitions", steps)
		r.Add("states", paths)
		r.Set("max_depth", int64(depth))
		r.Set("exhaustive", concExh && seqExh && !r.TooMany())
		r.Set("seq_actions", c09Actions)
		r.Set("rule", "concurrent (E3): every interleaving up to the preemption bound of consumer x writers x closer/canceller on the real engine; delivered events must be a prefix of the scope-filtered change log after the start position and complete when the run ended by the quiescence-gated close (a consumer still parked with a matching event committed = lost wake-up); any parked thread with nobody enabled = deadlock. sequential (E1 DFS, no dedup): every sequence <= seq_depth of seq_actions on a plain and on a pre-aged engine (retention discards old events at the next commits); every TryNext is compared with a position model over the complete history; at the end of every sequence every scope x every event x {resumeAfter,startAfter,startAtOperationTime} plus before-first/after-last/foreign token is opened and drained")
		r.Assume("a stream whose own position (last examined event) was discarded may report lost-position even if no undelivered event of its scope was discarded (conservative behaviour accepted)",
			"retention in the pre-aged world depends only on events 10 000 s old; fresh events are never discarded because MaxOplogSize is 1000 and MaxOplogAge 1 h",
			"real timers never fire in virtual time; selects with several ready cases are resolved by the scheduler as explicit choices")
		if paths == 0 {
			r.Broken("sequential part explored nothing")
		}
		if total.lost == 0 || total.invalidates == 0 || total.resumeErrors == 0 {
			r.Broken("vacuity: lost=%d invalidates=%d resumeErrors=%d", total.lost, total.invalidates, total.resumeErrors)
		}
	})
}

type c09StatRunner struct {
	*c09Runner
	ch chan *c09Stats
}

func (s *c09StatRunner) Done() {
	s.c09Runner.Done()
	s.ch <- s.c09Runner.stats
}
