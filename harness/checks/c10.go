package checks

import (
	"fmt"
	"math"
	"sync"
	"sync/atomic"

	"go.mongodb.org/mongo-driver/bson"
	"go.mongodb.org/mongo-driver/bson/primitive"

	"github.com/256dpi/lungo/mongokit"

	"verif/internal/par"
	"verif/internal/refmodel"
)

type c10Leaf struct {
	path    string
	op      string // "" = implicit equality
	operand interface{}
	not     bool // wrapped in $not
	filter  bson.D
}

func (l c10Leaf) key() string {
	n := ""
	if l.not {
		n = "$not:"
	}
	return l.path + "|" + n + l.op + "|" + J(l.operand)
}

func c10Values() []interface{} {
	D := func(e ...bson.E) bson.D { return bson.D(e) }
	E := func(k string, v interface{}) bson.E { return bson.E{Key: k, Value: v} }
	return []interface{}{
		refmodel.Missing, nil, int32(1), int32(2), int64(1), 1.5, math.NaN(), "a", "b", true,
		primitive.DateTime(1000), oid(1), primitive.Binary{Subtype: 0, Data: []byte{5}},
		D(), D(E("b", int32(1))), D(E("b", nil)), D(E("b", bson.A{int32(1), int32(2)})), D(E("b", D(E("x", int32(1))))),
		bson.A{}, bson.A{int32(1)}, bson.A{int32(1), int32(2)}, bson.A{nil}, bson.A{"a", int32(1)}, bson.A{int32(6), 2.0},
		bson.A{D(E("b", int32(1)))}, bson.A{D(E("b", int32(1))), D(E("b", int32(2)))}, bson.A{D(E("b", bson.A{int32(1), int32(2)}))},
		bson.A{D(E("c", int32(1)))}, bson.A{D(E("b", int32(1))), D(E("c", int32(2)))}, bson.A{D(E("b", int32(2))), int32(1)},
		bson.A{bson.A{int32(1)}}, bson.A{bson.A{int32(1), int32(2)}, bson.A{int32(3)}},
		D(E("b", bson.A{})), bson.A{D(E("b", bson.A{}))}, bson.A{D(E("b", nil))}, bson.A{int32(0), int32(10)},
		bson.A{D(E("b", bson.A{int32(0), int32(5)})), D(E("b", bson.A{int32(2)}))}, bson.A{D(E("b", bson.A{int32(0), int32(5)}))},
		// the elements of an $all spread over the arrays of several embedded documents
		bson.A{D(E("b", bson.A{int32(1)})), D(E("b", bson.A{int32(2), int32(7)}))},
		// negative and wide numbers of every numeric type (sign extension in the $bits family, $mod of negatives)
		int32(-1), int32(-6), int64(-5), -3.0, int64(1<<35 | 2), bson.A{int32(-2), D(E("b", int32(-1)))},
		// decimal128 values next to doubles that only look equal (9.99 as a double is not 9.99)
		dec("9.99"), dec("0.1"), dec("1"), bson.A{dec("9.99"), 9.99},
		// the ends of the 64-bit range in both numeric types that can hold them
		int64(math.MinInt64), -9223372036854775808.0, bson.A{int64(math.MaxInt64), 9223372036854775808.0},
		// an embedded empty document next to a non-empty one
		bson.A{D(), D(E("b", D()))},
		// field names that look like indexes, beyond the end of the array that holds their documents
		bson.A{D(E("5", int32(1))), D(E("7", int32(2)), E("b", int32(1)))}, D(E("5", int32(1)), E("b", bson.A{D(E("7", int32(2)))})),
	}
}

func c10Docs() []bson.D {
	var docs []bson.D
	for _, a := range c10Values() {
		for _, c := range []interface{}{refmodel.Missing, int32(1)} {
			d := bson.D{{Key: "_id", Value: int32(7)}}
			if !refmodel.IsMissing(a) {
				d = append(d, bson.E{Key: "a", Value: a})
			}
			if !refmodel.IsMissing(c) {
				d = append(d, bson.E{Key: "c", Value: c})
			}
			docs = append(docs, d)
		}
	}
	return docs
}

func c10Leaves() []c10Leaf {
	D := func(e ...bson.E) bson.D { return bson.D(e) }
	E := func(k string, v interface{}) bson.E { return bson.E{Key: k, Value: v} }
	paths := []string{"a", "a.b", "a.0", "a.b.0", "a.0.b", "c", "a.5", "a.b.7"}
	cmpOperands := []interface{}{nil, int32(1), int32(2), int64(1), 1.5, math.NaN(), "a", "b", true, primitive.DateTime(1000), oid(1),
		D(E("b", int32(1))), bson.A{int32(1), int32(2)}, bson.A{}, bson.D{}, int32(-1), int64(math.MinInt64), -9223372036854775808.0, int64(math.MaxInt64), 9.99, 0.1, dec("9.99"), dec("1")}
	lists := []bson.A{{int32(1)}, {int32(1), "a"}, {nil}, {int32(2), 1.5}, {bson.A{int32(1), int32(2)}}, {D(E("b", int32(1)))}, {}, {"b", true, int32(2)}}
	var out []c10Leaf
	add := func(path, op string, operand interface{}) {
		var cond interface{}
		if op == "" {
			cond = operand
		} else {
			cond = D(E(op, operand))
		}
		out = append(out, c10Leaf{path: path, op: op, operand: operand, filter: D(E(path, cond))})
		if op != "" {
			out = append(out, c10Leaf{path: path, op: op, operand: operand, not: true, filter: D(E(path, D(E("$not", D(E(op, operand))))))})
		}
	}
	for _, p := range paths {
		for _, op := range []string{"", "$eq", "$ne", "$gt", "$gte", "$lt", "$lte"} {
			for _, o := range cmpOperands {
				if op == "" {
					if d, ok := o.(bson.D); ok && len(d) > 0 && d[0].Key[0] == '$' {
						continue
					}
				}
				add(p, op, o)
			}
		}
		for _, op := range []string{"$in", "$nin"} {
			for _, l := range lists {
				add(p, op, l)
			}
		}
		for _, o := range []interface{}{true, false, int32(1), int32(0)} {
			add(p, "$exists", o)
		}
		for _, o := range []interface{}{"number", "string", "array", "object", "null", "int", int32(16), bson.A{"string", "bool"}, "double", "long", "date", "objectId", "binData"} {
			add(p, "$type", o)
		}
		for _, l := range []bson.A{{int32(1)}, {int32(1), int32(2)}, {int32(2), int32(1)}, {"a"}, {}, {nil}, {int32(1), int32(3)}, {bson.A{int32(1), int32(2)}}} {
			add(p, "$all", l)
		}
		for _, o := range []interface{}{int32(0), int32(1), int64(2), 2.0} {
			add(p, "$size", o)
		}
		for _, o := range []interface{}{D(E("$gt", int32(1))), D(E("$gte", int32(1)), E("$lt", int32(2))), D(E("b", int32(1))), D(E("b", D(E("$gt", int32(1))))),
			D(E("$eq", "a")), D(E("b", int32(1)), E("c", int32(2))), D(E("$in", bson.A{int32(2), int32(6)})), D(E("b", D(E("$exists", false)))),
			// conditions that only different elements satisfy, and a negative one
			D(E("$gt", int32(1)), E("$lt", int32(2))), D(E("$gt", int32(1)), E("$lt", int32(5))), D(E("$ne", int32(1)))} {
			add(p, "$elemMatch", o)
		}
		for _, o := range []bson.A{{int32(2), int32(0)}, {int32(2), int32(1)}, {2.5, int32(0)}, {int64(-3), int32(0)}} {
			add(p, "$mod", o)
		}
		for _, op := range []string{"$bitsAllSet", "$bitsAnySet", "$bitsAllClear", "$bitsAnyClear"} {
			for _, o := range []interface{}{int32(1), int32(3), bson.A{int32(1)}, bson.A{int32(0), int32(2)}, primitive.Binary{Data: []byte{4}}, int64(6),
				int64(1 << 35), bson.A{int32(40)}, bson.A{int32(31), int32(32)}, bson.A{int32(63)}, primitive.Binary{Data: []byte{0, 0, 0, 0, 8}},
				// positions beyond the width of a number: numbers are sign-extended (set for negative, clear for positive numbers)
				bson.A{int32(64)}, bson.A{int32(200), int32(0)}, primitive.Binary{Data: []byte{0, 0, 0, 0, 0, 0, 0, 0, 1}}} {
				add(p, op, o)
			}
		}
		// several operators in one condition document (implicit and), plain and under $not
		multi := []bson.D{
			D(E("$gt", int32(1)), E("$lt", int32(5))), D(E("$gte", int32(1)), E("$lte", 1.5)), D(E("$gt", int32(1)), E("$ne", int32(2))),
			D(E("$exists", true), E("$type", "number")), D(E("$in", bson.A{int32(1), int32(2)}), E("$nin", bson.A{int32(2)})),
			D(E("$lt", int32(2)), E("$gt", int32(5))), D(E("$ne", int32(1)), E("$exists", true)), D(E("$size", int32(2)), E("$all", bson.A{int32(1)})),
			D(E("$gte", "a"), E("$lt", "b")), D(E("$mod", bson.A{int32(2), int32(0)}), E("$gt", int32(1)), E("$lt", int32(7))),
		}
		for _, m := range multi {
			out = append(out, c10Leaf{path: p, op: "$multi", operand: m, filter: D(E(p, m))})
			out = append(out, c10Leaf{path: p, op: "$multi", operand: m, not: true, filter: D(E(p, D(E("$not", m))))})
		}
	}
	return out
}

// c10Class is the known-findings signature of a disagreement with the reference matcher.
func c10Class(l c10Leaf, doc bson.D) string {
	n := ""
	if l.not {
		n = "$not:"
	}
	var a interface{} = refmodel.Missing
	for _, e := range doc {
		if e.Key == "a" {
			a = e.Value
		}
	}
	shape := "missing"
	if !refmodel.IsMissing(a) {
		shape = fmt.Sprintf("%T", a)
	}
	if c, _ := refmodel.Lookup(doc, l.path); len(c) == 0 {
		shape = "nocand"
	}
	operand := J(l.operand)
	if len(operand) > 40 {
		operand = operand[:40]
	}
	return fmt.Sprintf("ref:%s%s:%s:%s", n, l.op, operand, shape)
}

func init() {
	Register("C10", "exploration", func(c *Ctx) {
		r := c.R
		docs := c10Docs()
		leaves := c10Leaves()
		r.Set("grammar_sizes", bson.M{"documents": len(docs), "leaf_filters": len(leaves)})
		idx := map[string]int{}
		for i, l := range leaves {
			idx[l.key()] = i
		}
		got := make([][]bool, len(docs))
		var evals, inRef, lawsOnly, lawChecks int64
		trueSeen := make([]int32, len(leaves))
		falseSeen := make([]int32, len(leaves))
		match := func(d bson.D, f bson.D) (bool, error) {
			dd := append(bson.D{}, d...)
			return mongokit.Match(&dd, &f)
		}
		par.For(len(docs), r.TooMany, func(di int) {
			d := docs[di]
			row := make([]bool, len(leaves))
			var ev, in, lo int64
			for li, l := range leaves {
				g, err := match(d, l.filter)
				ev++
				if err != nil {
					r.Violation("error:"+l.op+":"+J(l.operand), fmt.Sprintf("well-formed filter %s on %s returned error %v", J(l.filter), J(d), err), bson.M{"doc": J(d), "filter": J(l.filter)})
					continue
				}
				row[li] = g
				if g {
					atomic.StoreInt32(&trueSeen[li], 1)
				} else {
					atomic.StoreInt32(&falseSeen[li], 1)
				}
				want, rerr := refmodel.Match(d, l.filter)
				if rerr != nil {
					if refmodel.IsOutside(rerr) {
						lo++
						continue
					}
					r.Broken("reference rejected grammar filter %s: %v", J(l.filter), rerr)
					continue
				}
				in++
				if want != g {
					r.Violation(c10Class(l, d), fmt.Sprintf("Match(%s, %s) = %v, reference semantics (DESIGN §8.1) say %v", J(d), J(l.filter), g, want), bson.M{"doc": J(d), "filter": J(l.filter), "got": g, "want": want})
				}
			}
			got[di] = row
			atomic.AddInt64(&evals, ev)
			atomic.AddInt64(&inRef, in)
			atomic.AddInt64(&lawsOnly, lo)
		})
		if r.TooMany() {
			r.Set("exhaustive", false)
			r.Set("evaluations", evals)
			r.Set("distinct_nontrivial", int64(0))
			return
		}
		// leaf laws on the stored results
		law := func(name string, di int, a, b c10Leaf, lhs, rhs bool) {
			atomic.AddInt64(&lawChecks, 1)
			if lhs != rhs {
				r.Violation("law:"+name+":"+a.op+":"+J(a.operand), fmt.Sprintf("law %s broken on %s: %s=%v vs %s -> %v", name, J(docs[di]), J(a.filter), lhs, J(b.filter), rhs),
					bson.M{"doc": J(docs[di]), "f": J(a.filter), "g": J(b.filter)})
			}
		}
		find := func(path, op string, operand interface{}, not bool) (c10Leaf, int, bool) {
			k := c10Leaf{path: path, op: op, operand: operand, not: not}.key()
			i, ok := idx[k]
			if !ok {
				return c10Leaf{}, 0, false
			}
			return leaves[i], i, true
		}
		for di := range docs {
			row := got[di]
			for li, l := range leaves {
				if l.not {
					// $not{op} <=> not {op}
					if p, pi, ok := find(l.path, l.op, l.operand, false); ok {
						law("not", di, l, p, row[li], !row[pi])
					}
					continue
				}
				switch l.op {
				case "":
					if p, pi, ok := find(l.path, "$eq", l.operand, false); ok {
						law("implicit-eq", di, l, p, row[li], row[pi])
					}
				case "$ne":
					if p, pi, ok := find(l.path, "$eq", l.operand, false); ok {
						law("ne", di, l, p, row[li], !row[pi])
					}
				case "$nin":
					if p, pi, ok := find(l.path, "$in", l.operand, false); ok {
						law("nin", di, l, p, row[li], !row[pi])
					}
				case "$gte", "$lte":
					strict := "$gt"
					if l.op == "$lte" {
						strict = "$lt"
					}
					p1, i1, ok1 := find(l.path, strict, l.operand, false)
					_, i2, ok2 := find(l.path, "$eq", l.operand, false)
					if ok1 && ok2 {
						law(l.op[1:], di, l, p1, row[li], row[i1] || row[i2])
					}
				case "$in":
					// $in[x...] <=> OR of $eq x, evaluated directly
					any := false
					for _, x := range l.operand.(bson.A) {
						if d, ok := x.(bson.D); ok && len(d) > 0 && d[0].Key[0] == '$' {
							continue
						}
						g, err := match(docs[di], bson.D{{Key: l.path, Value: bson.D{{Key: "$eq", Value: x}}}})
						atomic.AddInt64(&evals, 1)
						if err == nil && g {
							any = true
						}
					}
					law("in", di, l, l, row[li], any)
				case "$multi":
					all := true
					for _, e := range l.operand.(bson.D) {
						g, err := match(docs[di], bson.D{{Key: l.path, Value: bson.D{e}}})
						atomic.AddInt64(&evals, 1)
						if err != nil || !g {
							all = false
						}
					}
					law("multi-operator-and", di, l, l, row[li], all)
				case "$exists":
					_, it, _ := find(l.path, "$exists", true, false)
					tr := false
					switch x := l.operand.(type) {
					case bool:
						tr = x
					case int32:
						tr = x != 0
					}
					if tr {
						law("exists", di, l, leaves[it], row[li], row[it])
					} else {
						law("exists", di, l, leaves[it], row[li], !row[it])
					}
				}
			}
		}
		// compound filters over a core of leaves that take both truth values
		var core []int
		perOp := map[string]int{}
		for li, l := range leaves {
			if trueSeen[li] == 1 && falseSeen[li] == 1 && !l.not {
				k := l.path + l.op
				if perOp[k] < 1 && (l.path == "a" || l.path == "a.b" || l.path == "c") {
					perOp[k]++
					core = append(core, li)
				}
			}
		}
		coreCap := 60
		if !c.Quick() {
			coreCap = 90
		}
		if len(core) > coreCap {
			core = core[:coreCap]
		}
		r.Set("compound_core", int64(len(core)))
		var mu sync.Mutex
		compoundSamples := 0
		par.For(len(core), r.TooMany, func(ci int) {
			fi := core[ci]
			var ev, lc int64
			for _, gi := range core {
				f, g := leaves[fi].filter, leaves[gi].filter
				for _, op := range []string{"$and", "$or", "$nor"} {
					q := bson.D{{Key: op, Value: bson.A{f, g}}}
					for di, d := range docs {
						res, err := match(d, q)
						ev++
						lc++
						if err != nil {
							r.Violation("error:"+op, fmt.Sprintf("%s on %s: %v", J(q), J(d), err), bson.M{"doc": J(d), "filter": J(q)})
							continue
						}
						var want bool
						switch op {
						case "$and":
							want = got[di][fi] && got[di][gi]
						case "$or":
							want = got[di][fi] || got[di][gi]
						default:
							want = !(got[di][fi] || got[di][gi])
						}
						if res != want {
							r.Violation("law:"+op+":"+leaves[fi].op+":"+leaves[gi].op, fmt.Sprintf("%s on %s = %v, parts say %v", J(q), J(d), res, want), bson.M{"doc": J(d), "filter": J(q)})
						}
					}
				}
				// implicit and: {p: f, q: g} when the paths differ
				if leaves[fi].path != leaves[gi].path {
					q := bson.D{f[0], g[0]}
					for di, d := range docs {
						res, err := match(d, q)
						ev++
						lc++
						if err == nil && res != (got[di][fi] && got[di][gi]) {
							r.Violation("law:implicit-and:"+leaves[fi].op+":"+leaves[gi].op, fmt.Sprintf("%s on %s = %v", J(q), J(d), res), bson.M{"doc": J(d), "filter": J(q)})
						}
					}
				}
				mu.Lock()
				if compoundSamples < 2 && fi != gi {
					compoundSamples++
					r.Sample(bson.M{"compound": J(bson.D{{Key: "$or", Value: bson.A{f, g}}})})
				}
				mu.Unlock()
			}
			atomic.AddInt64(&evals, ev)
			atomic.AddInt64(&lawChecks, lc)
		})
		// second nesting level over a smaller core: $and[$or[f,g], $nor[h]] and $nor[$and[f,g]] (single-branch negation)
		small := core
		if len(small) > 12 {
			small = small[:12]
		}
		par.For(len(small), r.TooMany, func(ci int) {
			fi := small[ci]
			var ev int64
			for _, gi := range small {
				for _, hi := range small {
					f, g, h := leaves[fi].filter, leaves[gi].filter, leaves[hi].filter
					q1 := bson.D{{Key: "$and", Value: bson.A{bson.D{{Key: "$or", Value: bson.A{f, g}}}, bson.D{{Key: "$nor", Value: bson.A{h}}}}}}
					q2 := bson.D{{Key: "$nor", Value: bson.A{bson.D{{Key: "$and", Value: bson.A{f, g}}}, h}}}
					for di, d := range docs {
						a, b, cc := got[di][fi], got[di][gi], got[di][hi]
						r1, e1 := match(d, q1)
						r2, e2 := match(d, q2)
						ev += 2
						if e1 != nil || r1 != ((a || b) && !cc) {
							r.Violation("law:nested:and-or-nor", fmt.Sprintf("%s on %s = %v (err %v)", J(q1), J(d), r1, e1), bson.M{"doc": J(d), "filter": J(q1)})
						}
						if e2 != nil || r2 != !((a && b) || cc) {
							r.Violation("law:nested:nor-and", fmt.Sprintf("%s on %s = %v (err %v)", J(q2), J(d), r2, e2), bson.M{"doc": J(d), "filter": J(q2)})
						}
					}
				}
			}
			atomic.AddInt64(&evals, ev)
			atomic.AddInt64(&lawChecks, ev)
		})
		// non-trivial: leaves inside the reference domain that are true on one document and false on another
		var nt int64
		for li := range leaves {
			if trueSeen[li] == 1 && falseSeen[li] == 1 {
				nt++
			}
		}
		r.Sample(bson.M{"doc": J(docs[40]), "filter": J(leaves[100].filter), "match": got[40][100]})
		r.Sample(bson.M{"doc": J(docs[51]), "filter": J(leaves[700].filter), "match": got[51][700]})
		sEvals, sRef, sLaws := c10Schema(c)
		r.Set("jsonschema_evaluations", sEvals)
		r.Set("jsonschema_in_reference_domain", sRef)
		r.Set("jsonschema_law_checks", sLaws)
		evals += sEvals
		r.Set("evaluations", evals)
		r.Set("in_reference_domain", inRef)
		r.Set("laws_only", lawsOnly)
		r.Set("law_checks", lawChecks)
		r.Set("distinct_nontrivial", nt)
		r.Set("rule", "E2: full product documents x leaf filters (path x operator x operand, plain and under $not), plus all ordered pairs of a both-truth-valued core under $and/$or/$nor/implicit-and and all triples of a 12-leaf core at nesting 2; distinct_nontrivial = leaf filters that are true on some document and false on another")
		r.Set("exhaustive", !r.TooMany())
		r.Assume("reference matcher consulted only on the core domain of DESIGN §8.1; outside it only the logical laws are enforced", "$jsonSchema is checked by its own sub-check", "regular expressions in queries are unsupported by lungo and not generated")
		if nt < 200 || inRef < 10000 {
			r.Broken("vacuous: nontrivial=%d inRef=%d", nt, inRef)
		}
	})
}
