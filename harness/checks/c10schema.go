package checks

import (
	"fmt"
	"math/big"
	"regexp"
	"sync/atomic"
	"unicode/utf8"

	"go.mongodb.org/mongo-driver/bson"
	"go.mongodb.org/mongo-driver/bson/primitive"

	"github.com/256dpi/lungo/mongokit"

	"verif/internal/par"
	"verif/internal/refmodel"
)

// ---------------------------------------------------------------------------
// C10, $jsonSchema part: a small independent validator for the keywords whose
// meaning MongoDB documents unambiguously (draft-4 subset), compared with
// mongokit.Match({$jsonSchema: S}) on every (value, schema) pair, plus the
// logical laws of not/allOf/anyOf/oneOf on every pair without any reference.

type schemaVerdict int

const (
	svFalse schemaVerdict = iota
	svTrue
	svOutside // the reference does not decide (keyword or operand outside its domain)
	svInvalid // the schema itself is malformed: Match must return an error
)

func refJSONType(v interface{}) string {
	switch refmodel.ClassOf(v) {
	case refmodel.CNull:
		return "null"
	case refmodel.CNumber:
		return "number"
	case refmodel.CString:
		return "string"
	case refmodel.CDocument:
		return "object"
	case refmodel.CArray:
		return "array"
	case refmodel.CBool:
		return "boolean"
	}
	return ""
}

func refBSONType(v interface{}) string {
	switch v.(type) {
	case float64:
		return "double"
	case string:
		return "string"
	case bson.D:
		return "object"
	case bson.A:
		return "array"
	case primitive.Binary:
		return "binData"
	case primitive.ObjectID:
		return "objectId"
	case bool:
		return "bool"
	case primitive.DateTime:
		return "date"
	case nil:
		return "null"
	case primitive.Regex:
		return "regex"
	case int32:
		return "int"
	case primitive.Timestamp:
		return "timestamp"
	case int64:
		return "long"
	case primitive.Decimal128:
		return "decimal"
	}
	return "?"
}

func refSchema(v interface{}, s bson.D) schemaVerdict {
	res := svTrue
	and := func(x schemaVerdict) {
		switch {
		case x == svInvalid || res == svInvalid:
			res = svInvalid
		case x == svOutside || res == svOutside:
			if res != svFalse && x != svFalse {
				res = svOutside
			} else {
				res = svFalse
			}
		case x == svFalse:
			res = svFalse
		}
	}
	b := func(ok bool) schemaVerdict {
		if ok {
			return svTrue
		}
		return svFalse
	}
	num := func(x interface{}) (*big.Rat, bool) {
		if refmodel.ClassOf(x) != refmodel.CNumber {
			return nil, false
		}
		r := refmodel.Rat(x)
		return r, r != nil
	}
	has := func(k string) (interface{}, bool) {
		for _, e := range s {
			if e.Key == k {
				return e.Value, true
			}
		}
		return nil, false
	}
	if _, a := has("type"); a {
		if _, c := has("bsonType"); c {
			return svInvalid
		}
	}
	for _, kw := range s {
		switch kw.Key {
		case "type", "bsonType":
			name := refJSONType
			valid := map[string]bool{"null": true, "boolean": true, "number": true, "string": true, "object": true, "array": true}
			if kw.Key == "bsonType" {
				name = refBSONType
				valid = map[string]bool{"double": true, "string": true, "object": true, "array": true, "binData": true, "objectId": true, "bool": true, "date": true, "null": true, "regex": true, "int": true, "timestamp": true, "long": true, "decimal": true, "number": true}
			}
			var names []string
			switch t := kw.Value.(type) {
			case string:
				names = []string{t}
			case bson.A:
				if len(t) == 0 {
					return svInvalid
				}
				for _, x := range t {
					sx, ok := x.(string)
					if !ok {
						return svInvalid
					}
					names = append(names, sx)
				}
			default:
				return svInvalid
			}
			hit := false
			for _, n := range names {
				if !valid[n] {
					return svInvalid
				}
				if n == name(v) || (kw.Key == "bsonType" && n == "number" && refmodel.ClassOf(v) == refmodel.CNumber) {
					hit = true
				}
			}
			and(b(hit))
		case "enum":
			arr, ok := kw.Value.(bson.A)
			if !ok || len(arr) == 0 {
				return svInvalid
			}
			hit := false
			for _, x := range arr {
				if refmodel.Cmp(x, v) == 0 && refmodel.ClassOf(x) == refmodel.ClassOf(v) {
					hit = true
				}
			}
			and(b(hit))
		case "not":
			sub, ok := kw.Value.(bson.D)
			if !ok {
				return svInvalid
			}
			switch refSchema(v, sub) {
			case svTrue:
				and(svFalse)
			case svFalse:
				and(svTrue)
			case svInvalid:
				return svInvalid
			default:
				and(svOutside)
			}
		case "allOf", "anyOf", "oneOf":
			arr, ok := kw.Value.(bson.A)
			if !ok || len(arr) == 0 {
				return svInvalid
			}
			trues, outs := 0, 0
			for _, x := range arr {
				sub, ok := x.(bson.D)
				if !ok {
					return svInvalid
				}
				switch refSchema(v, sub) {
				case svTrue:
					trues++
				case svOutside:
					outs++
				case svInvalid:
					return svInvalid
				}
			}
			if outs > 0 {
				and(svOutside)
				break
			}
			switch kw.Key {
			case "allOf":
				and(b(trues == len(arr)))
			case "anyOf":
				and(b(trues > 0))
			default:
				and(b(trues == 1))
			}
		case "minimum", "maximum":
			lim, ok := num(kw.Value)
			if !ok {
				return svOutside
			}
			x, isNum := num(v)
			if !isNum {
				break // applies to numbers only (NaN and infinities have no exact value: outside)
			}
			if refmodel.ClassOf(v) == refmodel.CNumber && x == nil {
				and(svOutside)
				break
			}
			excl := false
			if e, ok := has(map[string]string{"minimum": "exclusiveMinimum", "maximum": "exclusiveMaximum"}[kw.Key]); ok {
				eb, isB := e.(bool)
				if !isB {
					return svOutside
				}
				excl = eb
			}
			c := x.Cmp(lim)
			if kw.Key == "minimum" {
				and(b(c > 0 || (c == 0 && !excl)))
			} else {
				and(b(c < 0 || (c == 0 && !excl)))
			}
		case "exclusiveMinimum", "exclusiveMaximum":
			if _, ok := kw.Value.(bool); !ok {
				return svOutside
			}
			if _, ok := has(map[string]string{"exclusiveMinimum": "minimum", "exclusiveMaximum": "maximum"}[kw.Key]); !ok {
				return svOutside // MongoDB requires the companion keyword
			}
		case "minLength", "maxLength":
			n, ok := wholeNonNeg(kw.Value)
			if !ok {
				return svOutside
			}
			str, isStr := v.(string)
			if !isStr {
				break
			}
			l := int64(utf8.RuneCountInString(str))
			if kw.Key == "minLength" {
				and(b(l >= n))
			} else {
				and(b(l <= n))
			}
		case "minItems", "maxItems":
			n, ok := wholeNonNeg(kw.Value)
			if !ok {
				return svOutside
			}
			arr, isArr := v.(bson.A)
			if !isArr {
				break
			}
			if kw.Key == "minItems" {
				and(b(int64(len(arr)) >= n))
			} else {
				and(b(int64(len(arr)) <= n))
			}
		case "minProperties", "maxProperties":
			n, ok := wholeNonNeg(kw.Value)
			if !ok {
				return svOutside
			}
			d, isDoc := v.(bson.D)
			if !isDoc {
				break
			}
			if kw.Key == "minProperties" {
				and(b(int64(len(d)) >= n))
			} else {
				and(b(int64(len(d)) <= n))
			}
		case "required":
			arr, ok := kw.Value.(bson.A)
			if !ok || len(arr) == 0 {
				return svOutside
			}
			d, isDoc := v.(bson.D)
			for _, x := range arr {
				name, ok := x.(string)
				if !ok {
					return svOutside
				}
				if isDoc && refmodel.IsMissing(refmodel.GetPath(bson.D{{Key: "w", Value: d}}, "w")) {
					continue
				}
				if isDoc {
					found := false
					for _, e := range d {
						if e.Key == name {
							found = true
						}
					}
					and(b(found))
				}
			}
		case "properties":
			props, ok := kw.Value.(bson.D)
			if !ok {
				return svOutside
			}
			d, isDoc := v.(bson.D)
			for _, p := range props {
				sub, ok := p.Value.(bson.D)
				if !ok {
					return svOutside
				}
				if !isDoc {
					continue
				}
				for _, e := range d {
					if e.Key == p.Key {
						and(refSchema(e.Value, sub))
					}
				}
			}
		case "patternProperties":
			pats, ok := kw.Value.(bson.D)
			if !ok {
				return svOutside
			}
			d, isDoc := v.(bson.D)
			for _, p := range pats {
				sub, ok := p.Value.(bson.D)
				if !ok {
					return svOutside
				}
				re, err := regexp.Compile(p.Key)
				if err != nil {
					return svOutside
				}
				if !isDoc {
					continue
				}
				// every member whose name matches is validated, whether or not it is also declared in properties
				for _, e := range d {
					if re.MatchString(e.Key) {
						and(refSchema(e.Value, sub))
					}
				}
			}
		case "additionalProperties":
			d, isDoc := v.(bson.D)
			var sub bson.D
			switch a := kw.Value.(type) {
			case bool:
				if a {
					continue
				}
				sub = nil
			case bson.D:
				sub = a
			default:
				return svOutside
			}
			if !isDoc {
				break
			}
			declared := map[string]bool{}
			if props, ok := has("properties"); ok {
				if pd, ok := props.(bson.D); ok {
					for _, p := range pd {
						declared[p.Key] = true
					}
				}
			}
			var res []*regexp.Regexp
			if pats, ok := has("patternProperties"); ok {
				if pd, ok := pats.(bson.D); ok {
					for _, p := range pd {
						if re, err := regexp.Compile(p.Key); err == nil {
							res = append(res, re)
						}
					}
				}
			}
			for _, e := range d {
				extra := !declared[e.Key]
				for _, re := range res {
					if re.MatchString(e.Key) {
						extra = false
					}
				}
				if !extra {
					continue
				}
				if sub == nil {
					and(svFalse)
				} else {
					and(refSchema(e.Value, sub))
				}
			}
		case "items":
			sub, ok := kw.Value.(bson.D)
			if !ok {
				return svOutside // positional form
			}
			arr, isArr := v.(bson.A)
			if !isArr {
				break
			}
			for _, el := range arr {
				and(refSchema(el, sub))
			}
		case "uniqueItems":
			u, ok := kw.Value.(bool)
			if !ok {
				return svOutside
			}
			arr, isArr := v.(bson.A)
			if !isArr || !u {
				break
			}
			uniq := true
			for i := range arr {
				for j := i + 1; j < len(arr); j++ {
					if refmodel.Cmp(arr[i], arr[j]) == 0 {
						if refmodel.ClassOf(arr[i]) == refmodel.CNumber && refBSONType(arr[i]) != refBSONType(arr[j]) {
							return svOutside // 1 vs 1.0: not fixed here
						}
						uniq = false
					}
				}
			}
			and(b(uniq))
		case "title", "description":
			if _, ok := kw.Value.(string); !ok {
				return svOutside
			}
		default:
			return svOutside
		}
	}
	return res
}

func wholeNonNeg(v interface{}) (int64, bool) {
	switch x := v.(type) {
	case int32:
		return int64(x), x >= 0
	case int64:
		return x, x >= 0
	}
	return 0, false
}

func c10SchemaValues() []interface{} {
	return []interface{}{
		nil, true, false, int32(0), int32(3), int32(-2), int64(3), int64(1) << 40, 2.5, 3.0, dec128("3"), dec128("2.5"), "", "ab", "äöü", "abcd",
		bson.D{}, bD("x", int32(1)), bD("x", "s", "y", int32(2)), bD("x", bD("z", int32(1)), "y", nil, "w", bson.A{int32(1)}),
		bson.A{}, bson.A{int32(1)}, bson.A{int32(1), int32(2), int32(3)}, bson.A{int32(1), int32(1)}, bson.A{"a", int32(1), nil}, bson.A{bD("x", int32(1)), bD("x", "s")}, bson.A{bson.A{int32(1)}, bson.A{int32(1)}},
		primitive.DateTime(5), oid(2), primitive.Binary{Data: []byte{1}}, primitive.Timestamp{T: 1, I: 1}, primitive.Regex{Pattern: "a"},
	}
}

func dec128(s string) primitive.Decimal128 {
	d, err := primitive.ParseDecimal128(s)
	if err != nil {
		panic(err)
	}
	return d
}

func c10SchemaLeaves() []bson.D {
	var out []bson.D
	add := func(kv ...interface{}) { out = append(out, bD(kv...)) }
	for _, t := range []string{"null", "boolean", "number", "string", "object", "array", "integer", "bogus"} {
		add("type", t)
	}
	add("type", bson.A{"string", "null"})
	add("type", bson.A{"number", "array", "object"})
	add("type", bson.A{})
	add("type", int32(1))
	for _, t := range []string{"double", "string", "object", "array", "binData", "objectId", "bool", "date", "null", "regex", "int", "timestamp", "long", "decimal", "number", "bogus"} {
		add("bsonType", t)
	}
	add("bsonType", bson.A{"int", "long", "string"})
	add("type", "string", "bsonType", "string")
	add("enum", bson.A{int32(3), "ab", nil})
	add("enum", bson.A{bD("x", int32(1)), bson.A{int32(1)}, true})
	add("enum", bson.A{})
	for _, n := range []interface{}{int32(3), 2.5, int64(0), int32(-2)} {
		add("minimum", n)
		add("maximum", n)
		add("minimum", n, "exclusiveMinimum", true)
		add("maximum", n, "exclusiveMaximum", true)
		add("minimum", n, "exclusiveMinimum", false)
	}
	add("minimum", int32(0), "maximum", int32(3))
	for _, n := range []int32{0, 2, 3, 4} {
		add("minLength", n)
		add("maxLength", n)
		add("minItems", n)
		add("maxItems", n)
		add("minProperties", n)
		add("maxProperties", n)
	}
	add("required", bson.A{"x"})
	add("required", bson.A{"x", "y"})
	add("required", bson.A{"nope"})
	add("properties", bD("x", bD("type", "number")))
	add("properties", bD("x", bD("bsonType", "string"), "y", bD("minimum", int32(2))))
	add("properties", bD("x", bD("properties", bD("z", bD("type", "number")), "required", bson.A{"z"})))
	add("patternProperties", bD("^x", bD("type", "number")))
	add("properties", bD("x", bD("type", "number")), "patternProperties", bD("^x", bD("minimum", int32(2))))
	add("properties", bD("x", bson.D{}), "patternProperties", bD("y$", bD("type", "null"), "^w", bD("type", "array")))
	add("properties", bD("x", bson.D{}), "additionalProperties", false)
	add("patternProperties", bD("^(x|y)$", bson.D{}), "additionalProperties", false)
	add("properties", bD("x", bson.D{}), "additionalProperties", bD("type", "number"))
	add("additionalProperties", true)
	add("items", bD("type", "number"))
	add("items", bD("bsonType", "object", "required", bson.A{"x"}))
	add("items", bD("minimum", int32(2)))
	add("uniqueItems", true)
	add("uniqueItems", false)
	add("title", "t", "description", "d")
	add()
	return out
}

// c10Schema runs the $jsonSchema part; returns (evaluations, pairs decided by the reference, law checks).
func c10Schema(c *Ctx) (evals, inRef, laws int64) {
	r := c.R
	vals := c10SchemaValues()
	leaves := c10SchemaLeaves()
	// the schema is applied to the value of field a through properties, and to the whole document {a: value}
	match := func(v interface{}, s bson.D, top bool) (bool, error) {
		doc := bson.D{{Key: "a", Value: v}}
		q := bD("$jsonSchema", bD("properties", bD("a", s)))
		if top {
			d, ok := v.(bson.D)
			if !ok {
				return false, fmt.Errorf("not a document")
			}
			doc = d
			q = bD("$jsonSchema", s)
		}
		return mongokit.Match(&doc, &q)
	}
	check := func(v interface{}, s bson.D, top bool, label string) (got bool, gerr error) {
		got, gerr = match(v, s, top)
		atomic.AddInt64(&evals, 1)
		want := refSchema(v, s)
		rep := map[string]interface{}{"part": "jsonSchema", "value": J(v), "schema": J(s), "top_level": top}
		what := fmt.Sprintf("$jsonSchema %s on %s (%s)", J(s), J(v), label)
		switch want {
		case svOutside:
			return
		case svInvalid:
			atomic.AddInt64(&inRef, 1)
			if gerr == nil {
				r.Violation("jsonSchema:invalid-schema-accepted:"+s[0].Key, what+": the schema is malformed but matching returned "+fmt.Sprint(got), rep)
			}
		default:
			atomic.AddInt64(&inRef, 1)
			if gerr != nil {
				r.Violation("jsonSchema:rejected:"+schemaKey(s), what+": rejected ("+gerr.Error()+"), the reference validates to "+fmt.Sprint(want == svTrue), rep)
			} else if got != (want == svTrue) {
				r.Violation("jsonSchema:"+schemaKey(s), what+": matched="+fmt.Sprint(got)+", the reference says "+fmt.Sprint(want == svTrue), rep)
			}
		}
		return
	}
	par.For(len(vals), r.TooMany, func(vi int) {
		v := vals[vi]
		_, isDoc := v.(bson.D)
		for _, s := range leaves {
			base, berr := check(v, s, false, "leaf under properties.a")
			if isDoc {
				check(v, s, true, "leaf at top level")
			}
			// laws: not / allOf / anyOf / oneOf over every ordered pair of leaves (no reference involved)
			for _, t := range leaves {
				other, oerr := match(v, t, false)
				for _, comb := range []string{"allOf", "anyOf", "oneOf"} {
					got, gerr := match(v, bD(comb, bson.A{s, t}), false)
					atomic.AddInt64(&evals, 1)
					atomic.AddInt64(&laws, 1)
					if berr != nil || oerr != nil {
						continue // a malformed member: lungo evaluates lazily, the statement is about well-formed filters
					}
					want := map[string]bool{"allOf": base && other, "anyOf": base || other, "oneOf": base != other}[comb]
					if gerr != nil || got != want {
						r.Violation("jsonSchema:law:"+comb, fmt.Sprintf("%s[%s, %s] on %s gives %v (err %v) but the members give %v and %v", comb, J(s), J(t), J(v), got, gerr, base, other), map[string]interface{}{"part": "jsonSchema-laws", "value": J(v), "schemas": []string{J(s), J(t)}})
					}
				}
			}
			if berr == nil {
				got, gerr := match(v, bD("not", s), false)
				atomic.AddInt64(&laws, 1)
				if gerr != nil || got == base {
					r.Violation("jsonSchema:law:not", fmt.Sprintf("not %s on %s gives %v (err %v), the schema itself gives %v", J(s), J(v), got, gerr, base), map[string]interface{}{"part": "jsonSchema-laws", "value": J(v), "schema": J(s)})
				}
				// $nor[{$jsonSchema}] is the negation at query level
				doc := bson.D{{Key: "a", Value: v}}
				q := bD("$nor", bson.A{bD("$jsonSchema", bD("properties", bD("a", s)))})
				g2, e2 := mongokit.Match(&doc, &q)
				atomic.AddInt64(&laws, 1)
				if e2 != nil || g2 == base {
					r.Violation("jsonSchema:law:nor", fmt.Sprintf("$nor[$jsonSchema %s] on %s gives %v (err %v), the schema gives %v", J(s), J(v), g2, e2, base), map[string]interface{}{"part": "jsonSchema-laws", "value": J(v), "schema": J(s)})
				}
			}
		}
	})
	return
}

func schemaKey(s bson.D) string {
	k := ""
	for i, e := range s {
		if i > 0 {
			k += "+"
		}
		k += e.Key
	}
	if k == "" {
		return "empty"
	}
	return k
}
