package checks

import (
	"bytes"
	"fmt"
	"github.com/256dpi/lungo"
	"go.mongodb.org/mongo-driver/mongo"
	"go.mongodb.org/mongo-driver/mongo/options"
	"math"
	"sort"
	"strings"
	"sync"
	"sync/atomic"
	"verif/internal/world"

	"go.mongodb.org/mongo-driver/bson"
	"go.mongodb.org/mongo-driver/bson/primitive"

	"github.com/256dpi/lungo/bsonkit"
	"github.com/256dpi/lungo/mongokit"

	"verif/internal/par"
	"verif/internal/refmodel"
)

func bD(kv ...interface{}) bson.D {
	d := bson.D{}
	for i := 0; i+1 < len(kv); i += 2 {
		d = append(d, bson.E{Key: kv[i].(string), Value: kv[i+1]})
	}
	return d
}

type c11Case struct {
	op      string
	path    string
	arg     interface{}
	filters []bson.D
}

func (u c11Case) update() bson.D { return bD(u.op, bD(u.path, u.arg)) }

func c11Docs() []bson.D {
	vals := []interface{}{
		refmodel.Missing, int32(5), int64(5), 2.5, dec("1.5"), "s", nil, true,
		int32(math.MaxInt32), int32(math.MinInt32), int64(math.MaxInt64), int64(math.MinInt64), float64(1 << 53), 1e308, dec("9.999999999999999999999999999999999E+6144"),
		bD("b", int32(1)), bD("b", bD("c", int32(1)), "d", "k"),
		bson.A{int32(1), int32(2), int32(3)}, bson.A{int32(3), int32(1), int32(2), int32(1)}, bson.A{},
		bson.A{bD("x", int32(1), "y", int32(1)), bD("x", int32(2), "y", int32(2))}, bson.A{bD("x", int32(2)), bD("x", int32(1))},
		bson.A{int32(1), "s", nil},
		// 34-digit decimals with an even and an odd last digit
		dec("1000000000000000000000000000000002"), dec("1000000000000000000000000000000001"),
		// arrays directly inside arrays, and documents inside those
		bson.A{bson.A{int32(1), int32(2)}, bson.A{int32(3)}}, bson.A{bson.A{bD("x", int32(1))}, bD("x", bson.A{int32(4), int32(5)})},
	}
	var docs []bson.D
	for _, a := range vals {
		d := bD("_id", int32(1), "p", "before")
		if !refmodel.IsMissing(a) {
			d = append(d, bson.E{Key: "a", Value: a})
		}
		d = append(d, bson.E{Key: "q", Value: int32(7)})
		docs = append(docs, d)
	}
	return docs
}

func c11Cases() []c11Case {
	paths := []string{"a", "a.b", "a.b.c", "a.0", "a.1", "a.5", "a.0.x", "a.$[]", "a.$[].x", "a.$[i]", "a.$[i].x", "n", "a.+1", "a.0.1", "a.$[].$[]"} // "+1" is a field name, not an index
	filterSets := [][]bson.D{nil, {bD("i", bD("$gte", int32(2)))}, {bD("i.x", int32(1))}, {bD("i", int32(1)), bD("j", int32(2))}}
	var out []c11Case
	add := func(op, path string, arg interface{}) {
		if strings.Contains(path, "$[i]") {
			for _, f := range filterSets {
				out = append(out, c11Case{op, path, arg, f})
			}
			return
		}
		out = append(out, c11Case{op, path, arg, nil})
		if strings.Contains(path, "$[]") {
			out = append(out, c11Case{op, path, arg, filterSets[1]})
		}
	}
	nums := []interface{}{int32(1), int32(0), int32(-1), int32(math.MaxInt32), int32(math.MinInt32), int64(1), int64(math.MaxInt64), int64(math.MinInt64),
		0.5, math.NaN(), math.Inf(1), float64(1 << 53), dec("1.5"), dec("1234567890123456789012345678901234"), dec("NaN"), "x",
		// exact ties at the 35th significant digit of a decimal128 result (round half to even)
		dec("0.5"), dec("2.5")}
	for _, p := range paths {
		for _, v := range []interface{}{int32(1), "v", nil, bD("z", int32(1)), bson.A{int32(9)}, 2.5} {
			add("$set", p, v)
			add("$setOnInsert", p, v)
		}
		add("$unset", p, "")
		for _, t := range []string{"r", "q", p, p + ".z", "p.z", "a", "a.b"} {
			add("$rename", p, t)
		}
		add("$rename", p, int32(5))
		for _, n := range nums {
			add("$inc", p, n)
			add("$mul", p, n)
		}
		for _, v := range []interface{}{int32(5), int64(5), 5.0, int32(4), int32(6), "s", nil, bson.A{int32(0)}} {
			add("$min", p, v)
			add("$max", p, v)
		}
		for _, v := range []interface{}{true, bD("$type", "date"), bD("$type", "timestamp"), bD("$type", "x"), int32(5)} {
			add("$currentDate", p, v)
		}
		add("$push", p, int32(9))
		add("$push", p, bD("z", int32(1)))
		add("$push", p, bD("$each", int32(1)))
		add("$push", p, bD("$each", bson.A{}, "$bogus", int32(1)))
		for _, each := range []bson.A{{int32(7), int32(0)}, {}, {bD("x", int32(0))}} {
			for _, pos := range []interface{}{refmodel.Missing, int32(0), int32(1), int32(-1), int32(99), int32(-99), "x"} {
				for _, sl := range []interface{}{refmodel.Missing, int32(0), int32(2), int32(-2)} {
					for _, so := range []interface{}{refmodel.Missing, int32(1), int32(-1), bD("x", int32(-1)), int32(2)} {
						arg := bD("$each", each)
						if !refmodel.IsMissing(pos) {
							arg = append(arg, bson.E{Key: "$position", Value: pos})
						}
						if !refmodel.IsMissing(sl) {
							arg = append(arg, bson.E{Key: "$slice", Value: sl})
						}
						if !refmodel.IsMissing(so) {
							arg = append(arg, bson.E{Key: "$sort", Value: so})
						}
						add("$push", p, arg)
					}
				}
			}
		}
		for _, v := range []interface{}{int32(1), int32(-1), 1.0, int32(2), "x"} {
			add("$pop", p, v)
		}
		for _, v := range []interface{}{int32(1), bD("$gte", int32(2)), bD("x", int32(1)), bD("x", bD("$gt", int32(1))), "zz", int64(2)} {
			add("$pull", p, v)
		}
		for _, v := range []interface{}{bson.A{int32(1)}, bson.A{int32(1), int64(2)}, bson.A{}, "x"} {
			add("$pullAll", p, v)
		}
		for _, v := range []interface{}{int32(1), int32(9), bD("$each", bson.A{int32(1), int32(9), int32(9)}), int64(1), bD("x", int32(1), "y", int32(1)), bD("$each", int32(1))} {
			add("$addToSet", p, v)
		}
		for _, v := range []interface{}{bD("and", int32(6)), bD("or", int64(1)), bD("xor", int32(-1)), bD("and", 1.5), bD("nor", int32(1)), int32(3)} {
			add("$bit", p, v)
		}
	}
	return out
}

// c11Equal compares lungo's result with the reference result.
func c11Equal(got, want interface{}, orderFree bool) bool {
	switch w := want.(type) {
	case refmodel.ExactDecimal:
		g, ok := got.(primitive.Decimal128)
		if !ok {
			return false
		}
		rounded, overflow := refmodel.RoundDecimal128(w.R)
		if overflow > 0 {
			return refmodel.NumKind(g) == "+inf"
		} else if overflow < 0 {
			return refmodel.NumKind(g) == "-inf"
		}
		return refmodel.NumKind(g) == "finite" && refmodel.Rat(g).Cmp(rounded) == 0
	case bson.D:
		g, ok := got.(bson.D)
		if !ok || len(g) != len(w) {
			return false
		}
		if orderFree {
			g = append(bson.D{}, g...)
			w = append(bson.D{}, w...)
			sort.SliceStable(g, func(i, j int) bool { return g[i].Key < g[j].Key })
			sort.SliceStable(w, func(i, j int) bool { return w[i].Key < w[j].Key })
		}
		for i := range w {
			if g[i].Key != w[i].Key || !c11Equal(g[i].Value, w[i].Value, orderFree) {
				return false
			}
		}
		return true
	case bson.A:
		g, ok := got.(bson.A)
		if !ok || len(g) != len(w) {
			return false
		}
		for i := range w {
			if !c11Equal(g[i], w[i], orderFree) {
				return false
			}
		}
		return true
	case float64:
		g, ok := got.(float64)
		return ok && (g == w || (math.IsNaN(g) && math.IsNaN(w))) && math.Signbit(g) == math.Signbit(w)
	}
	if got == nil || want == nil {
		return got == nil && want == nil
	}
	return fmt.Sprintf("%T", got) == fmt.Sprintf("%T", want) && refmodel.Cmp(got, want) == 0
}

func rawBytes(d bson.D) []byte {
	b, err := bson.Marshal(d)
	if err != nil {
		return []byte(err.Error())
	}
	return b
}

func c11Lungo(doc, upd bson.D, filters []bson.D, upsert bool) (res bson.D, ch *mongokit.Changes, err error, panicked interface{}) {
	d := refmodel.CopyDoc(doc)
	u := refmodel.CopyDoc(upd)
	var list bsonkit.List
	for _, f := range filters {
		ff := refmodel.CopyDoc(f)
		list = append(list, &ff)
	}
	defer func() {
		if p := recover(); p != nil {
			panicked = p
		}
	}()
	q := bson.D{}
	ch, err = mongokit.Apply(&d, &q, &u, upsert, list)
	return d, ch, err, nil
}

func c11ArgShape(v interface{}) string {
	switch x := v.(type) {
	case bson.D:
		if len(x) > 0 && strings.HasPrefix(x[0].Key, "$") {
			keys := []string{}
			for _, e := range x {
				keys = append(keys, e.Key)
			}
			return "{" + strings.Join(keys, ",") + "}"
		}
		return "doc"
	case bson.A:
		return "array"
	case float64:
		if math.IsNaN(x) || math.IsInf(x, 0) {
			return "double-nonfinite"
		}
		return "double"
	}
	return fmt.Sprintf("%T", v)
}

func c11DocShape(doc bson.D, path string) string {
	v := refmodel.GetPath(doc, strings.Split(path, ".")[0])
	if refmodel.IsMissing(v) {
		return "missing"
	}
	return c11ArgShape(v)
}

func init() {
	Register("C11", "exploration", func(c *Ctx) {
		r := c.R
		docs := c11Docs()
		cases := c11Cases()
		r.Set("grammar_sizes", bson.M{"documents": len(docs), "single_operator_updates": len(cases)})
		var evals, inRef, lawsOnly, rejected, changedCases, idem int64
		var mu sync.Mutex
		distinct := map[string]bool{}
		idempotent := map[string]bool{"$set": true, "$unset": true, "$min": true, "$max": true, "$addToSet": true, "$pull": true, "$pullAll": true}
		checkOne := func(doc bson.D, upd bson.D, filters []bson.D, label string, opname, path string, arg interface{}) {
			before := rawBytes(doc)
			got, _, err, pan := c11Lungo(doc, upd, filters, false)
			atomic.AddInt64(&evals, 1)
			rep := bson.M{"doc": J(doc), "update": J(upd), "arrayFilters": J(filters)}
			cls := fmt.Sprintf("%s:%s:%s:%s", opname, strings.NewReplacer("a.", "", "a", "A").Replace(path), c11ArgShape(arg), c11DocShape(doc, path))
			if pan != nil {
				r.Violation("panic:"+cls, fmt.Sprintf("Apply(%s, %s) panicked: %v", J(doc), J(upd), pan), rep)
				return
			}
			if !bytes.Equal(before, rawBytes(doc)) {
				r.Violation("harness:input-mutated", "input aliasing in harness", rep)
			}
			want, rerr := refmodel.Apply(doc, upd, false, filters)
			switch {
			case rerr != nil && refmodel.IsOutside(rerr):
				atomic.AddInt64(&lawsOnly, 1)
			case rerr != nil:
				atomic.AddInt64(&inRef, 1)
				atomic.AddInt64(&rejected, 1)
				if err == nil {
					r.Violation("accepts-invalid:"+cls, fmt.Sprintf("Apply(%s, %s, filters %s) succeeded with %s; reference rejects: %v", J(doc), J(upd), J(filters), J(got), rerr), rep)
				}
			default:
				atomic.AddInt64(&inRef, 1)
				if err != nil {
					r.Violation("rejects-valid:"+cls, fmt.Sprintf("Apply(%s, %s, filters %s) failed: %v; reference result %s", J(doc), J(upd), J(filters), err, c11J(want.Doc)), rep)
					return
				}
				// $currentDate: compare by type only
				g := got
				if len(want.CurrentDate) > 0 {
					g = refmodel.CopyDoc(got)
					for p, typ := range want.CurrentDate {
						v := refmodel.GetPath(g, p)
						switch v.(type) {
						case primitive.DateTime:
							if typ != "date" {
								r.Violation("currentDate-type:"+cls, "wrong $currentDate type", rep)
							}
							g = c11Set(g, p, primitive.DateTime(0))
						case primitive.Timestamp:
							if typ != "timestamp" {
								r.Violation("currentDate-type:"+cls, "wrong $currentDate type", rep)
							}
							g = c11Set(g, p, primitive.Timestamp{})
						default:
							r.Violation("currentDate-type:"+cls, "wrong $currentDate type", rep)
						}
					}
				}
				if !c11Equal(g, want.Doc, want.FieldOrderFree) {
					r.Violation("result:"+cls, fmt.Sprintf("Apply(%s, %s, filters %s) = %s; reference (DESIGN §8.2) says %s", J(doc), J(upd), J(filters), J(got), c11J(want.Doc)), rep)
				}
				if !bytes.Equal(rawBytes(got), before) {
					atomic.AddInt64(&changedCases, 1)
					mu.Lock()
					distinct[opname+"|"+path] = true
					mu.Unlock()
				}
			}
			// law (ii): idempotence of the idempotent operators, everywhere (no reference needed)
			if err == nil && idempotent[opname] {
				again, _, err2, pan2 := c11Lungo(got, upd, filters, false)
				atomic.AddInt64(&evals, 1)
				atomic.AddInt64(&idem, 1)
				if pan2 != nil || err2 != nil {
					// a second application may legitimately fail only if paths no longer resolve; none of the idempotent cases do
					r.Violation("idempotence-error:"+cls, fmt.Sprintf("second application of %s on %s failed: %v %v", J(upd), J(got), err2, pan2), rep)
				} else if !bytes.Equal(rawBytes(again), rawBytes(got)) {
					r.Violation("idempotence:"+cls, fmt.Sprintf("applying %s twice to %s: first %s then %s", J(upd), J(doc), J(got), J(again)), rep)
				}
			}
			_ = label
		}
		par.For(len(docs), r.TooMany, func(di int) {
			for _, u := range cases {
				checkOne(docs[di], u.update(), u.filters, "single", u.op, u.path, u.arg)
			}
		})
		// ordered pairs of operator invocations over a reduced core (conflict detection, multi-operator order)
		core := []c11Case{
			{"$set", "a", int32(1), nil}, {"$set", "a.b", int32(2), nil}, {"$set", "n", "v", nil}, {"$set", "a.0", int32(8), nil}, {"$unset", "a", "", nil}, {"$unset", "a.b", "", nil}, {"$unset", "n", "", nil},
			{"$inc", "a", int32(1), nil}, {"$inc", "n", int32(1), nil}, {"$inc", "a.b", int64(1), nil}, {"$mul", "a", int32(2), nil}, {"$min", "a", int32(4), nil}, {"$max", "q", int32(9), nil},
			{"$push", "a", int32(9), nil}, {"$push", "n", int32(9), nil}, {"$pop", "a", int32(1), nil}, {"$pull", "a", int32(1), nil}, {"$addToSet", "a", int32(1), nil}, {"$addToSet", "n", int32(1), nil},
			{"$rename", "a", "r", nil}, {"$rename", "q", "a", nil}, {"$rename", "n", "m", nil}, {"$rename", "a.b", "a.z", nil}, {"$bit", "q", bD("and", int32(3)), nil}, {"$set", "a.$[].x", int32(0), nil}, {"$currentDate", "n", true, nil},
			{"$set", "a.b.c", int32(3), nil}, {"$unset", "a.0", "", nil},
			// positional expansion meeting an explicit element path of the same array
			{"$inc", "a.$[].x", int32(1), nil}, {"$set", "a.0.x", int32(5), nil}, {"$set", "a.1.x", int32(6), nil}, {"$unset", "a.$[]", "", nil}, {"$mul", "a.$[]", int32(2), nil}, {"$set", "a.1", int32(7), nil},
		}
		r.Set("pair_core", int64(len(core)))
		par.For(len(core), r.TooMany, func(i int) {
			for j := range core {
				x, y := core[i], core[j]
				var upd bson.D
				if x.op == y.op {
					if x.path == y.path {
						continue // duplicate key inside one operator document is not expressible as distinct invocations
					}
					upd = bD(x.op, bD(x.path, x.arg, y.path, y.arg))
				} else {
					upd = bD(x.op, bD(x.path, x.arg), y.op, bD(y.path, y.arg))
				}
				for _, d := range docs {
					cls := x.op + "+" + y.op
					checkOne(d, upd, nil, "pair", cls, x.path+"+"+y.path, nil)
				}
			}
		})
		// two identifiers whose filters select the same element and write the same field: a conflict that only exists after expansion
		for _, d := range docs {
			for _, x := range []struct {
				upd     bson.D
				filters []bson.D
			}{
				{bD("$set", bD("a.$[i].x", int32(1), "a.$[j].x", int32(2))), []bson.D{bD("i.x", bD("$gte", int32(1))), bD("j.x", bD("$gte", int32(2)))}},
				{bD("$set", bD("a.$[i].x", int32(1)), "$inc", bD("a.$[j].x", int32(2))), []bson.D{bD("i.y", int32(2)), bD("j.x", int32(2))}},
				{bD("$set", bD("a.$[i]", int32(1)), "$unset", bD("a.$[j]", "")), []bson.D{bD("i", bD("$gte", int32(2))), bD("j", bD("$lte", int32(2)))}},
				{bD("$set", bD("a.$[i].x", int32(1), "a.$[j].y", int32(2))), []bson.D{bD("i.x", bD("$gte", int32(1))), bD("j.x", bD("$gte", int32(2)))}},
				// the first of the two overlapping writes changes nothing
				{bD("$unset", bD("a.$[i].zz", ""), "$set", bD("a.$[j].zz", int32(1))), []bson.D{bD("i.x", bD("$gte", int32(1))), bD("j.x", bD("$gte", int32(1)))}},
				{bD("$max", bD("a.$[i].x", int32(-5)), "$set", bD("a.$[j].x", int32(1))), []bson.D{bD("i.x", bD("$gte", int32(1))), bD("j.x", bD("$gte", int32(2)))}},
				{bD("$pull", bD("a.$[i].l", int32(9)), "$push", bD("a.$[j].l", int32(1))), []bson.D{bD("i.x", bD("$gte", int32(1))), bD("j.x", bD("$lte", int32(1)))}},
			} {
				checkOne(d, x.upd, x.filters, "identifier-overlap", "identifiers", "a.$[i]+a.$[j]", nil)
			}
		}
		// one identifier used by two operators (the first changes what the filter looks at), and identifiers whose filters
		// hold vacuously for a value that lacks the other identifier's name ($ne, $exists:false, null): every identifier is
		// resolved against the original document and with its own filters only
		for _, d := range docs {
			for _, x := range []struct {
				upd     bson.D
				filters []bson.D
			}{
				{bD("$set", bD("a.$[i].x", int32(5)), "$inc", bD("a.$[i].y", int32(10))), []bson.D{bD("i.x", int32(1))}},
				{bD("$inc", bD("a.$[i].x", int32(1)), "$set", bD("a.$[i].y", int32(0))), []bson.D{bD("i.x", bD("$lte", int32(1)))}},
				{bD("$unset", bD("a.$[i].x", ""), "$set", bD("a.$[i].z", true)), []bson.D{bD("i.x", bD("$exists", true))}},
				{bD("$mul", bD("a.$[i]", int32(2)), "$inc", bD("a.$[j]", int32(1))), []bson.D{bD("i", bD("$lte", int32(1))), bD("j", bD("$gte", int32(2)))}},
				// one operator, two paths: the first rewrites what the filter of the second looks at
				{bD("$set", bD("a.$[].x", int32(10), "a.$[i].y", true)), []bson.D{bD("i.x", bD("$lt", int32(5)))}},
				{bD("$inc", bD("a.$[i].x", int32(5), "a.$[i].y", int32(1))), []bson.D{bD("i.x", bD("$lte", int32(1)))}},
				{bD("$set", bD("a.$[i].v", int32(1), "a.$[j].w", int32(1))), []bson.D{bD("i.x", int32(1)), bD("j.x", bD("$ne", int32(1)))}},
				{bD("$set", bD("a.$[i].v", int32(1), "a.$[j].w", int32(1))), []bson.D{bD("i.x", int32(2)), bD("j.q", bD("$exists", false))}},
				{bD("$set", bD("a.$[i].v", int32(1)), "$inc", bD("a.$[j].y", int32(1))), []bson.D{bD("i.x", int32(2)), bD("j.zz", nil)}},
				{bD("$set", bD("a.$[i]", int32(0), "a.$[j]", int32(9))), []bson.D{bD("i", int32(1)), bD("j", bD("$nin", bson.A{int32(1), int32(2)}))}},
			} {
				checkOne(d, x.upd, x.filters, "identifier-reuse", "identifiers-reuse", "a.$[i]+a.$[j]", nil)
			}
		}
		// long arrays: positional paths whose index has more digits than the operator has characters
		{
			var long bson.A
			for k := 0; k < 1203; k++ {
				long = append(long, bD("n", int32(k), "qty", int32(10)))
			}
			d := bD("_id", int32(1), "p", "before", "a", long, "q", int32(7))
			checkOne(d, bD("$inc", bD("a.$[].qty", int32(1))), nil, "long-array", "long-array", "a.$[]", nil)
			checkOne(d, bD("$set", bD("a.$[i].flag", true)), []bson.D{bD("i.n", bD("$gte", int32(998)))}, "long-array", "long-array", "a.$[i]", nil)
			checkOne(d, bD("$unset", bD("a.$[].qty", "")), nil, "long-array", "long-array", "a.$[]", nil)
		}
		// through the collection: the stored document after UpdateOne is the document Apply produces, ModifiedCount is 1
		// exactly when its bytes changed (a change of the numeric type alone is a change), and exactly then one update event is logged
		var collChecks, typeOnly, collSecond int64
		par.For(len(docs), r.TooMany, func(di int) {
			doc := append(bson.D{{Key: "_id", Value: int32(1)}}, docs[di]...)
			for _, u := range cases {
				upd := u.update()
				want, _, err, pan := c11Lungo(doc, upd, u.filters, false)
				if err != nil || pan != nil {
					continue
				}
				w := world.New()
				coll := w.C("d", "c")
				if _, ierr := coll.InsertOne(w.Ctx, doc); ierr != nil {
					w.Close()
					continue
				}
				opt := options.Update()
				if len(u.filters) > 0 {
					var fs []interface{}
					for _, f := range u.filters {
						fs = append(fs, f)
					}
					opt.SetArrayFilters(options.ArrayFilters{Filters: fs})
				}
				evBefore := len(w.Engine.Catalog().Namespaces[lungo.Oplog].Documents.List)
				res, uerr := coll.UpdateOne(w.Ctx, bD("_id", int32(1)), upd, opt)
				atomic.AddInt64(&collChecks, 1)
				atomic.AddInt64(&evals, 1)
				rep := bson.M{"doc": J(doc), "update": J(upd), "arrayFilters": J(u.filters), "part": "collection"}
				cls := fmt.Sprintf("%s:%s:%s", u.op, c11ArgShape(u.arg), c11DocShape(docs[di], u.path))
				if uerr != nil {
					if !(u.path == "_id" || strings.HasPrefix(u.path, "_id.")) {
						r.Violation("collection:update-fails:"+cls, fmt.Sprintf("UpdateOne(%s) on %s failed (%v) although Apply accepts it", J(upd), J(doc), uerr), rep)
					}
					w.Close()
					continue
				}
				var stored bson.D
				_ = coll.FindOne(w.Ctx, bD("_id", int32(1))).Decode(&stored)
				changed := !bytes.Equal(rawBytes(want), rawBytes(doc))
				if changed && refmodel.Cmp(want, doc) == 0 {
					atomic.AddInt64(&typeOnly, 1)
				}
				hasDate := u.op == "$currentDate"
				if !hasDate && !bytes.Equal(rawBytes(stored), rawBytes(want)) {
					r.Violation("collection:stored-differs:"+cls, fmt.Sprintf("UpdateOne(%s) on %s stored %s, Apply produces %s", J(upd), J(doc), J(stored), J(want)), rep)
				}
				evAfter := len(w.Engine.Catalog().Namespaces[lungo.Oplog].Documents.List)
				wantMod := int64(0)
				if changed {
					wantMod = 1
				}
				if !hasDate && (res.ModifiedCount != wantMod || int64(evAfter-evBefore) != wantMod || res.MatchedCount != 1) {
					r.Violation("collection:modified-count:"+cls, fmt.Sprintf("UpdateOne(%s) on %s: matched=%d modified=%d events=%d, the document %s", J(upd), J(doc), res.MatchedCount, res.ModifiedCount, evAfter-evBefore, map[bool]string{true: "changed to " + J(want), false: "did not change"}[changed]), rep)
				}
				// the same update once more, this time with the upsert option and through the other entry points: the filter
				// still matches, so nothing may be inserted; counts and events follow from whether the second application
				// changes the document
				if !hasDate && bytes.Equal(rawBytes(stored), rawBytes(want)) {
					want2, _, err2, pan2 := c11Lungo(want, upd, u.filters, false)
					if err2 == nil && pan2 == nil {
						opt2 := options.Update().SetUpsert(true)
						if opt.ArrayFilters != nil {
							opt2.SetArrayFilters(*opt.ArrayFilters)
						}
						var res2 *mongo.UpdateResult
						var uerr2 error
						kind := ""
						switch atomic.AddInt64(&collSecond, 1) % 3 {
						case 0:
							kind = "UpdateOne"
							res2, uerr2 = coll.UpdateOne(w.Ctx, bD("_id", int32(1)), upd, opt2)
						case 1:
							kind = "UpdateMany"
							res2, uerr2 = coll.UpdateMany(w.Ctx, bD("_id", bD("$gte", int32(1))), upd, opt2)
						default:
							kind = "UpdateByID"
							res2, uerr2 = coll.UpdateByID(w.Ctx, int32(1), upd, opt2)
						}
						changed2 := !bytes.Equal(rawBytes(want2), rawBytes(want))
						wantMod2 := int64(0)
						if changed2 {
							wantMod2 = 1
						}
						n, _ := coll.CountDocuments(w.Ctx, bD())
						evAfter2 := len(w.Engine.Catalog().Namespaces[lungo.Oplog].Documents.List)
						if uerr2 != nil {
							r.Violation("collection:second-update-fails:"+cls, fmt.Sprintf("%s(%s, upsert) applied a second time to %s failed: %v", kind, J(upd), J(want), uerr2), rep)
						} else if res2.MatchedCount != 1 || res2.UpsertedCount != 0 || res2.ModifiedCount != wantMod2 || n != 1 || int64(evAfter2-evAfter) != wantMod2 {
							r.Violation("collection:second-update:"+cls, fmt.Sprintf("%s(%s, upsert) applied a second time to the matching document %s: matched=%d modified=%d upserted=%d events=%d documents=%d; expected matched=1 modified=%d upserted=0 and one document", kind, J(upd), J(want), res2.MatchedCount, res2.ModifiedCount, res2.UpsertedCount, evAfter2-evAfter, n, wantMod2), rep)
						}
					}
				}
				w.Close()
			}
		})
		r.Set("collection_level_second_applications", collSecond)
		r.Set("collection_level_updates", collChecks)
		r.Set("collection_level_type_only_changes", typeOnly)
		r.Sample(bson.M{"doc": J(docs[17]), "update": J(cases[900].update())})
		r.Sample(bson.M{"doc": J(docs[20]), "update": J(cases[4000].update()), "arrayFilters": J(cases[4000].filters)})
		r.Set("evaluations", evals)
		r.Set("in_reference_domain", inRef)
		r.Set("reference_rejects", rejected)
		r.Set("laws_only", lawsOnly)
		r.Set("idempotence_checks", idem)
		r.Set("changed_results", changedCases)
		r.Set("distinct_nontrivial", int64(len(distinct)))
		r.Set("rule", "E2: full product documents x (operator x path x operand x array-filter list) plus all ordered pairs of a 28-invocation core; distinct_nontrivial = distinct (operator, path) combinations for which some in-domain case changed the document and agreed with the reference")
		r.Set("exhaustive", !r.TooMany())
		r.Assume("reference applier consulted only on the domain of DESIGN §8.2", "$currentDate compared by type only", "decimal128 results compared by exact value, not by representation (trailing zeros)")
		if len(distinct) < 60 || inRef < 50000 {
			r.Broken("vacuous: distinct=%d inRef=%d", len(distinct), inRef)
		}
	})
}

func c11Set(d bson.D, path string, v interface{}) bson.D {
	dd := d
	if _, err := bsonkit.Put(&dd, path, v, false); err != nil {
		return d
	}
	return dd
}

// c11J renders a reference result (which may contain ExactDecimal placeholders).
func c11J(v interface{}) string {
	var conv func(v interface{}) interface{}
	conv = func(v interface{}) interface{} {
		switch x := v.(type) {
		case refmodel.ExactDecimal:
			return "decimal128(" + x.R.RatString() + ")"
		case bson.D:
			o := bson.D{}
			for _, e := range x {
				o = append(o, bson.E{Key: e.Key, Value: conv(e.Value)})
			}
			return o
		case bson.A:
			o := bson.A{}
			for _, e := range x {
				o = append(o, conv(e))
			}
			return o
		}
		return v
	}
	return J(conv(v))
}
