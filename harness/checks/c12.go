package checks

import (
	"fmt"
	"go.mongodb.org/mongo-driver/mongo/options"
	"math"
	"sync/atomic"
	"verif/internal/world"

	"go.mongodb.org/mongo-driver/bson"
	"go.mongodb.org/mongo-driver/bson/primitive"

	"github.com/256dpi/lungo/bsonkit"

	"verif/internal/par"
	"verif/internal/refmodel"
)

func dec(s string) primitive.Decimal128 {
	d, err := primitive.ParseDecimal128(s)
	if err != nil {
		panic(err)
	}
	return d
}

func oid(b byte) primitive.ObjectID {
	var o primitive.ObjectID
	for i := range o {
		o[i] = b
	}
	return o
}

// c12Pool is the value pool of DESIGN §7.12.
func c12Pool() []interface{} {
	return []interface{}{
		nil,
		// numbers: zeros
		int32(0), int64(0), float64(0), math.Copysign(0, -1), dec("0"), dec("-0"), dec("0E+10"),
		// small
		int32(1), int64(1), float64(1), dec("1"), dec("1.0"), int32(-1), int64(-1), float64(-1), dec("-1"),
		float64(1.5), dec("1.5"), int32(2), float64(0.1), dec("0.1"), dec("0.1000000000000000055511151231257827"),
		dec("0.10000000000000000555"),
		// int32 boundary
		int32(math.MaxInt32), int64(math.MaxInt32), int64(math.MaxInt32 + 1), float64(math.MaxInt32 + 1), dec("2147483648"),
		int32(math.MinInt32), int64(math.MinInt32 - 1),
		// 2^53 neighbourhood
		int64(1<<53 - 1), int64(1 << 53), int64(1<<53 + 1), float64(1 << 53), float64(1<<53 + 2), dec("9007199254740993"), dec("9007199254740992"),
		int64(-(1 << 53) - 1), float64(-(1 << 53)),
		// 2^62 neighbourhood (shortest float rendering differs from exact value)
		float64(1 << 62), int64(1<<62 + 16), dec("4611686018427387950"), int64(1<<62 + 56),
		// 2^63 neighbourhood
		int64(math.MaxInt64), int64(math.MaxInt64 - 1), float64(1 << 63), dec("9223372036854775807"), dec("9223372036854775808"), dec("9223372036854775900"),
		int64(math.MinInt64), -float64(1 << 63), dec("-9223372036854775808"), dec("-9223372036854775809"),
		// extremes
		1e308, -1e308, 5e-324, dec("9.999999999999999999999999999999999E+6144"), dec("1E-6176"), dec("-9.999999999999999999999999999999999E+6144"),
		1e23, dec("1E+23"), dec("99999999999999995000000"),
		// non-finite
		math.NaN(), math.Inf(1), math.Inf(-1), dec("NaN"), dec("Infinity"), dec("-Infinity"),
		// strings
		"", "a", "aa", "ab", "b", "B", "ä",
		// documents
		bson.D{}, bson.D{{Key: "a", Value: int32(1)}}, bson.D{{Key: "a", Value: int64(1)}}, bson.D{{Key: "a", Value: int32(1)}, {Key: "b", Value: int32(1)}},
		bson.D{{Key: "a", Value: int32(2)}}, bson.D{{Key: "b", Value: int32(0)}}, bson.D{{Key: "a", Value: nil}}, bson.D{{Key: "a", Value: bson.A{int32(1)}}},
		bson.D{{Key: "a", Value: bson.D{{Key: "x", Value: int32(1)}}}, {Key: "z", Value: "late"}}, bson.D{{Key: "a", Value: bson.D{{Key: "x", Value: int32(1)}}}, {Key: "z", Value: "latf"}},
		// arrays
		bson.A{}, bson.A{nil}, bson.A{int32(1)}, bson.A{float64(1)}, bson.A{int32(1), int32(2)}, bson.A{int32(1), int32(3)}, bson.A{int32(2)}, bson.A{bson.A{}}, bson.A{"a"},
		bson.A{int32(1), int32(2), int32(3), "x"}, bson.A{int32(1), int32(2), int32(3), "y"},
		// binaries
		primitive.Binary{Subtype: 0, Data: []byte{}}, primitive.Binary{Subtype: 0, Data: []byte{1}}, primitive.Binary{Subtype: 0, Data: []byte{2}},
		primitive.Binary{Subtype: 4, Data: []byte{0}}, primitive.Binary{Subtype: 0x80, Data: []byte{0}}, primitive.Binary{Subtype: 0, Data: []byte{0, 0}},
		// object ids
		oid(0), oid(1), oid(0xff),
		// booleans
		false, true,
		// dates
		primitive.DateTime(math.MinInt64), primitive.DateTime(-1), primitive.DateTime(0), primitive.DateTime(1), primitive.DateTime(math.MaxInt64),
		// timestamps
		primitive.Timestamp{T: 0, I: 0}, primitive.Timestamp{T: 0, I: 1}, primitive.Timestamp{T: 1, I: 0}, primitive.Timestamp{T: math.MaxUint32, I: math.MaxUint32},
		// regexes
		primitive.Regex{Pattern: "", Options: ""}, primitive.Regex{Pattern: "a", Options: ""}, primitive.Regex{Pattern: "a", Options: "i"}, primitive.Regex{Pattern: "b", Options: ""},
	}
}

// c12Class classifies a failing tuple for the known-findings file.
func c12Class(kind string, vals ...interface{}) string {
	nfDec, nfDbl, dbl, dcm := false, false, false, false
	var walk func(v interface{})
	walk = func(v interface{}) {
		switch x := v.(type) {
		case primitive.Decimal128:
			dcm = true
			if refmodel.NumKind(x) != "finite" {
				nfDec = true
			}
		case float64:
			dbl = true
			if refmodel.NumKind(x) != "finite" {
				nfDbl = true
			}
		case bson.D:
			for _, e := range x {
				walk(e.Value)
			}
		case bson.A:
			for _, e := range x {
				walk(e)
			}
		}
	}
	for _, v := range vals {
		walk(v)
	}
	switch {
	case nfDec:
		return kind + ":nonfinite-decimal128"
	case nfDbl && dcm:
		return kind + ":nonfinite-double-with-decimal128"
	case dbl && dcm:
		return kind + ":double-with-decimal128"
	}
	s := kind
	for _, v := range vals {
		s += ":" + J(v)
	}
	return s
}

func init() {
	Register("C12", "exploration", func(c *Ctx) {
		r := c.R
		pool := c12Pool()
		n := len(pool)
		r.Set("pool_size", int64(n))
		r.Set("rule", "E2: all ordered pairs and all ordered triples of the value pool (full Cartesian product, fixed order); a pair is non-trivial when the two values are different pool entries of the same comparison class; a triple when all three are in one class and pairwise distinct entries")
		// pairs
		sg := func(i int) int {
			if i < 0 {
				return -1
			} else if i > 0 {
				return 1
			}
			return 0
		}
		cmp := make([][]int, n)
		var evals, nontrivial int64
		outcomes := map[int]int64{}
		for i := 0; i < n; i++ {
			cmp[i] = make([]int, n)
			for j := 0; j < n; j++ {
				x, y := pool[i], pool[j]
				got := bsonkit.Compare(x, y)
				cmp[i][j] = sg(got)
				evals++
				outcomes[sg(got)]++
				if i != j && refmodel.ClassOf(x) == refmodel.ClassOf(y) {
					nontrivial++
				}
				if got < -1 || got > 1 {
					// allowed: only the sign matters
				}
				want := refmodel.Cmp(x, y)
				if i == j && got != 0 {
					r.Violation(c12Class("reflexive", x), fmt.Sprintf("Compare(x,x)=%d for x=%s", got, J(x)), bson.M{"x": J(x)})
				}
				if sg(got) != want {
					kind := "order"
					if refmodel.ClassOf(x) != refmodel.ClassOf(y) {
						kind = "class-order"
					}
					r.Violation(c12Class(kind, x, y), fmt.Sprintf("Compare(%s, %s) = %d, exact order says %d", J(x), J(y), got, want), bson.M{"x": J(x), "y": J(y), "got": got, "want": want})
				}
			}
		}
		for i := 0; i < n; i++ {
			for j := 0; j < n; j++ {
				if cmp[i][j] != -cmp[j][i] {
					r.Violation(c12Class("antisymmetry", pool[i], pool[j]), fmt.Sprintf("Compare(%s,%s)=%d but Compare(y,x)=%d", J(pool[i]), J(pool[j]), cmp[i][j], cmp[j][i]), bson.M{"x": J(pool[i]), "y": J(pool[j])})
				}
			}
		}
		r.Sample(bson.M{"pair": []string{J(pool[8]), J(pool[9])}, "compare": cmp[8][9]})
		r.Sample(bson.M{"pair": []string{J(pool[34]), J(pool[36])}, "compare": cmp[34][36]})
		// triples (recomputed through Compare, not from the matrix, so every triple is 3 real calls)
		var triples, ntTriples int64
		par.For(n, r.TooMany, func(i int) {
			var t, nt int64
			for j := 0; j < n; j++ {
				for k := 0; k < n; k++ {
					x, y, z := pool[i], pool[j], pool[k]
					xy, yz, xz := sg(bsonkit.Compare(x, y)), sg(bsonkit.Compare(y, z)), sg(bsonkit.Compare(x, z))
					t++
					if i != j && j != k && i != k && refmodel.ClassOf(x) == refmodel.ClassOf(y) && refmodel.ClassOf(y) == refmodel.ClassOf(z) {
						nt++
					}
					bad := ""
					switch {
					case xy <= 0 && yz <= 0 && xz > 0:
						bad = "transitivity"
					case xy < 0 && yz <= 0 && xz >= 0, xy <= 0 && yz < 0 && xz >= 0:
						bad = "transitivity"
					case xy == 0 && yz != xz:
						bad = "congruence"
					}
					if bad != "" {
						r.Violation(c12Class(bad, x, y, z), fmt.Sprintf("x=%s y=%s z=%s: Compare(x,y)=%d Compare(y,z)=%d Compare(x,z)=%d", J(x), J(y), J(z), xy, yz, xz), bson.M{"x": J(x), "y": J(y), "z": J(z)})
					}
				}
			}
			atomic.AddInt64(&triples, t)
			atomic.AddInt64(&ntTriples, nt)
		})
		r.Sample(bson.M{"triple": []string{J(pool[40]), J(pool[41]), J(pool[42])}})
		// values that share memory: a prefix of an array or document (same backing array, other length) and the same value
		// reached twice compare exactly like independent copies of them, alone and nested in containers
		var aliasChecks int64
		for _, v := range pool {
			var views [][2]interface{} // (view sharing memory with v, independent copy of the view)
			switch x := v.(type) {
			case bson.A:
				for n := 0; n < len(x); n++ {
					views = append(views, [2]interface{}{x[:n], refmodel.Copy(x[:n])})
				}
			case bson.D:
				for n := 0; n < len(x); n++ {
					views = append(views, [2]interface{}{x[:n], refmodel.Copy(x[:n])})
				}
			default:
				continue
			}
			views = append(views, [2]interface{}{v, refmodel.Copy(v)})
			for _, vw := range views {
				for _, wrap := range []func(interface{}) interface{}{
					func(z interface{}) interface{} { return z },
					func(z interface{}) interface{} { return bson.A{int32(1), z} },
					func(z interface{}) interface{} { return bson.D{{Key: "k", Value: int32(1)}, {Key: "z", Value: z}} },
				} {
					aliasChecks++
					a, b, bc := wrap(v), wrap(vw[0]), wrap(vw[1])
					if got, want := bsonkit.Compare(a, b), bsonkit.Compare(a, bc); got != want {
						r.Violation(c12Class("shared-memory", a, bc), fmt.Sprintf("Compare(%s, %s) = %d when the second value shares memory with the first, %d when it is an independent copy", J(a), J(bc), got, want), bson.M{"x": J(a), "y": J(bc)})
					}
					if got, want := bsonkit.Compare(b, a), bsonkit.Compare(bc, a); got != want {
						r.Violation(c12Class("shared-memory", bc, a), fmt.Sprintf("Compare(%s, %s) = %d when the first value shares memory with the second, %d when it is an independent copy", J(bc), J(a), got, want), bson.M{"x": J(bc), "y": J(a)})
					}
				}
			}
		}
		r.Set("shared_memory_comparisons", aliasChecks)
		// through the API: a sorted Find and Distinct over a collection holding every pool value agree with the reference order
		var apiChecks int64
		{
			w := world.New()
			coll := w.C("d", "c")
			var docs []bson.D
			for i, v := range pool {
				d := bson.D{{Key: "_id", Value: int32(i)}, {Key: "v", Value: v}}
				docs = append(docs, d)
				if _, err := coll.InsertOne(w.Ctx, d); err != nil {
					r.Broken("insert of pool value %s: %v", J(v), err)
				}
			}
			for _, dir := range []int32{1, -1} {
				spec := bson.D{{Key: "v", Value: dir}}
				want, _ := refmodel.Order(docs, spec)
				cur, err := coll.Find(w.Ctx, bson.D{}, options.Find().SetSort(spec).SetProjection(bson.D{{Key: "_id", Value: int32(1)}}))
				var got []bson.D
				if err == nil {
					err = cur.All(w.Ctx, &got)
				}
				apiChecks++
				if err != nil || len(got) != len(want) {
					r.Violation("api:sorted-find", fmt.Sprintf("Find().sort({v:%d}) over the pool: %d results, err %v", dir, len(got), err), bson.M{"dir": dir})
					continue
				}
				for i := range want {
					if refmodel.Cmp(got[i][0].Value, want[i][0].Value) != 0 {
						gi, wi := int(got[i][0].Value.(int32)), int(want[i][0].Value.(int32))
						r.Violation(c12Class("api:sorted-find", pool[gi], pool[wi]), fmt.Sprintf("Find().sort({v:%d}) over the pool: position %d holds %s, the reference order has %s there", dir, i, J(pool[gi]), J(pool[wi])), bson.M{"dir": dir, "position": i})
						break
					}
				}
			}
			vals, err := coll.Distinct(w.Ctx, "v", bson.D{})
			wantD := refmodel.Distinct(docs, "v")
			apiChecks++
			if err != nil || len(vals) != len(wantD) {
				r.Violation("api:distinct", fmt.Sprintf("Distinct(v) over the pool returned %d values (err %v), the reference has %d", len(vals), err, len(wantD)), bson.M{})
			} else {
				for i := range wantD {
					if refmodel.Cmp(vals[i], wantD[i]) != 0 {
						r.Violation(c12Class("api:distinct", vals[i], wantD[i]), fmt.Sprintf("Distinct(v) over the pool: position %d holds %s, the reference has %s", i, J(vals[i]), J(wantD[i])), bson.M{"position": i})
						break
					}
				}
			}
			w.Close()
		}
		r.Set("api_order_checks", apiChecks)
		r.Set("pairs", evals)
		r.Set("triples", triples)
		r.Set("evaluations", evals+triples+apiChecks)
		r.Set("distinct_nontrivial", nontrivial+ntTriples)
		r.Set("distinct_outcomes", int64(len(outcomes)))
		r.Set("exhaustive", !r.TooMany())
		r.Assume("values outside the printed pool are not covered (DESIGN §11)", "binary order length<subtype<bytes follows MongoDB; the property statement does not fix it")
		if len(outcomes) < 3 || nontrivial < 500 {
			r.Broken("vacuous: outcomes=%d nontrivial=%d", len(outcomes), nontrivial)
		}
	})
}
