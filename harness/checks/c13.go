package checks

import (
	"fmt"
	"strings"
	"sync/atomic"

	"go.mongodb.org/mongo-driver/bson"
	"go.mongodb.org/mongo-driver/mongo"
	"go.mongodb.org/mongo-driver/mongo/options"

	"verif/internal/par"
	"verif/internal/refmodel"
	"verif/internal/world"
)

// ---------------------------------------------------------------------------
// C13 — sort, skip, limit and distinct.

func c13Pool() []bson.D {
	return []bson.D{
		bD("a", int32(1), "b", int32(1)),
		bD("a", int32(2), "b", int32(1)),
		bD("a", int64(1), "b", int32(2)),
		bD("a", bson.A{int32(3), int32(1)}, "b", nil),
		bD("a", bson.A{int32(2)}),
		bD("a", bson.A{}, "b", "s"),
		bD("a", nil, "b", bson.A{int32(2), int32(0)}),
		bD("b", int32(1)),
		bD("a", "s", "b", bson.A{}),
	}
}

func c13Specs() (valid []bson.D, invalid []bson.D) {
	keys := []string{"a", "b", "_id"}
	dirs := []int32{1, -1}
	var rec func(cur bson.D, used map[string]bool)
	rec = func(cur bson.D, used map[string]bool) {
		if len(cur) > 0 {
			valid = append(valid, append(bson.D{}, cur...))
		}
		if len(cur) == 3 {
			return
		}
		for _, k := range keys {
			if used[k] {
				continue
			}
			for _, d := range dirs {
				used[k] = true
				rec(append(cur, bson.E{Key: k, Value: d}), used)
				used[k] = false
			}
		}
	}
	rec(nil, map[string]bool{})
	invalid = []bson.D{bD("a", int32(0)), bD("a", int32(2)), bD("a", "x"), bD("a", int32(1), "b", int32(-2))}
	return
}

func idsOf(docs []bson.D) string {
	var s []string
	for _, d := range docs {
		s = append(s, fmt.Sprint(refmodel.GetPath(d, "_id")))
	}
	return strings.Join(s, ",")
}

func init() {
	Register("C13", "exploration", func(c *Ctx) {
		r := c.R
		pool := c13Pool()
		maxDocs := 3
		if !c.Quick() {
			maxDocs = 4
		}
		// all sequences of <= maxDocs pool documents (insertion order matters, repetitions allowed)
		var colls [][]int
		var gen func(cur []int)
		gen = func(cur []int) {
			colls = append(colls, append([]int{}, cur...))
			if len(cur) == maxDocs {
				return
			}
			for k := range pool {
				gen(append(cur, k))
			}
		}
		gen(nil)
		filters := []bson.D{bD(), bD("a", bD("$gte", int32(1))), bD("b", int32(1))}
		specs, invalid := c13Specs()
		var finds, windows, oneDocWrites, distincts, ties, arraysSorted int64
		par.For(len(colls), r.TooMany, func(ci int) {
			var docs []bson.D
			for pos, k := range colls[ci] {
				docs = append(docs, append(bson.D{{Key: "_id", Value: int32(pos)}}, pool[k]...))
			}
			w := world.New()
			defer w.Close()
			coll := w.C("d", "c")
			for _, d := range docs {
				if _, err := coll.InsertOne(w.Ctx, d); err != nil {
					r.Broken("insert: %v", err)
					return
				}
			}
			n := len(docs)
			viol := func(class, what string, rep map[string]interface{}) {
				rep["collection"] = J(docs)
				r.Violation(class, what+"; collection "+J(docs), rep)
			}
			for _, f := range filters {
				var matching []bson.D
				for _, d := range docs {
					if ok, err := refmodel.Match(d, f); err == nil && ok {
						matching = append(matching, d)
					}
				}
				// distinct
				for _, path := range []string{"a", "b", "_id"} {
					vals, err := coll.Distinct(w.Ctx, path, f)
					want := refmodel.Distinct(matching, path)
					atomic.AddInt64(&distincts, 1)
					if err != nil || J(bson.A(vals)) != J(bson.A(append([]interface{}{}, want...))) {
						viol("distinct", fmt.Sprintf("Distinct(%q,%s) = %s (err %v), expected %s", path, J(f), J(bson.A(vals)), err, J(bson.A(append([]interface{}{}, want...)))), map[string]interface{}{"filter": J(f), "path": path})
					}
				}
				for _, spec := range specs {
					full, err := refmodel.Order(matching, spec)
					if err != nil {
						r.Broken("reference order: %v", err)
						return
					}
					// vacuity counters: ties and array-valued keys
					for i := 1; i < len(full); i++ {
						tie := true
						for _, s := range spec {
							if refmodel.Cmp(refmodel.SortKey(full[i-1], s.Key, s.Value.(int32) < 0), refmodel.SortKey(full[i], s.Key, s.Value.(int32) < 0)) != 0 {
								tie = false
							}
							if _, ok := refmodel.GetPath(full[i], s.Key).(bson.A); ok {
								atomic.AddInt64(&arraysSorted, 1)
							}
						}
						if tie {
							atomic.AddInt64(&ties, 1)
						}
					}
					for skip := 0; skip <= n+1; skip++ {
						// (a negative limit asks for that many documents in a single batch: the window is the same)
						for limit := -2; limit <= n+1; limit++ {
							if limit < 0 && skip > 1 {
								continue
							}
							cur, err := coll.Find(w.Ctx, f, options.Find().SetSort(spec).SetSkip(int64(skip)).SetLimit(int64(limit)))
							var got []bson.D
							if err == nil {
								err = cur.All(w.Ctx, &got)
							}
							atomic.AddInt64(&windows, 1)
							lo := skip
							if lo > len(full) {
								lo = len(full)
							}
							hi := len(full)
							if k := absInt(limit); k > 0 && lo+k < hi {
								hi = lo + k
							}
							want := full[lo:hi]
							if err != nil || idsOf(got) != idsOf(want) {
								cls := "window"
								if skip == 0 && limit == 0 {
									cls = "order"
								}
								viol(cls, fmt.Sprintf("Find(%s).sort(%s).skip(%d).limit(%d) returned _ids [%s] (err %v), expected [%s] (full order [%s])", J(f), J(spec), skip, limit, idsOf(got), err, idsOf(want), idsOf(full)),
									map[string]interface{}{"filter": J(f), "sort": J(spec), "skip": skip, "limit": limit})
							} else {
								for i := range got {
									if J(got[i]) != J(want[i]) {
										viol("document-altered", fmt.Sprintf("Find(%s).sort(%s) returned %s for stored %s", J(f), J(spec), J(got[i]), J(want[i])), map[string]interface{}{"filter": J(f), "sort": J(spec)})
										break
									}
								}
							}
						}
					}
					atomic.AddInt64(&finds, 1)
					// FindOne with skip acts on the skip-th element
					for skip := 0; skip <= n; skip++ {
						var got bson.D
						err := coll.FindOne(w.Ctx, f, options.FindOne().SetSort(spec).SetSkip(int64(skip))).Decode(&got)
						if skip < len(full) {
							if err != nil || J(got) != J(full[skip]) {
								viol("findone", fmt.Sprintf("FindOne(%s).sort(%s).skip(%d) returned %s (err %v), expected %s", J(f), J(spec), skip, J(got), err, J(full[skip])), map[string]interface{}{"filter": J(f), "sort": J(spec), "skip": skip})
							}
						} else if err == nil {
							viol("findone", fmt.Sprintf("FindOne(%s).sort(%s).skip(%d) returned %s, expected no document", J(f), J(spec), skip, J(got)), map[string]interface{}{"filter": J(f), "sort": J(spec), "skip": skip})
						}
					}
					// sorted one-document writes act on the first element (specs of one or two keys)
					if len(spec) <= 2 && len(full) > 0 {
						first := refmodel.GetPath(full[0], "_id")
						w2 := world.New()
						c2 := w2.C("d", "c")
						for _, d := range docs {
							_, _ = c2.InsertOne(w2.Ctx, d)
						}
						var del bson.D
						err := c2.FindOneAndDelete(w2.Ctx, f, options.FindOneAndDelete().SetSort(spec)).Decode(&del)
						left, _ := findAll(w2.Ctx, c2)
						if err != nil || refmodel.Cmp(refmodel.GetPath(del, "_id"), first) != 0 || len(left) != n-1 || strings.Contains(strings.Join(left, "|"), J(full[0])) {
							viol("one-document-write", fmt.Sprintf("FindOneAndDelete(%s).sort(%s) removed %s (err %v), the first of the ordering is _id %v", J(f), J(spec), J(del), err, first), map[string]interface{}{"filter": J(f), "sort": J(spec)})
						}
						w2.Close()
						w3 := world.New()
						c3 := w3.C("d", "c")
						for _, d := range docs {
							_, _ = c3.InsertOne(w3.Ctx, d)
						}
						var upd bson.D
						err = c3.FindOneAndUpdate(w3.Ctx, f, bD("$set", bD("hit", true)), options.FindOneAndUpdate().SetSort(spec)).Decode(&upd)
						var marked []bson.D
						if cur, e := c3.Find(w3.Ctx, bD("hit", true)); e == nil {
							_ = cur.All(w3.Ctx, &marked)
						}
						if err != nil || len(marked) != 1 || refmodel.Cmp(refmodel.GetPath(marked[0], "_id"), first) != 0 {
							viol("one-document-write", fmt.Sprintf("FindOneAndUpdate(%s).sort(%s) modified _ids [%s] (err %v), the first of the ordering is _id %v", J(f), J(spec), idsOf(marked), err, first), map[string]interface{}{"filter": J(f), "sort": J(spec)})
						}
						w3.Close()
						w4 := world.New()
						c4 := w4.C("d", "c")
						for _, d := range docs {
							_, _ = c4.InsertOne(w4.Ctx, d)
						}
						var prev bson.D
						err = c4.FindOneAndReplace(w4.Ctx, f, bD("replaced", true), options.FindOneAndReplace().SetSort(spec)).Decode(&prev)
						var hit []bson.D
						if cur, e := c4.Find(w4.Ctx, bD("replaced", true)); e == nil {
							_ = cur.All(w4.Ctx, &hit)
						}
						if err != nil || len(hit) != 1 || refmodel.Cmp(refmodel.GetPath(hit[0], "_id"), first) != 0 || refmodel.Cmp(refmodel.GetPath(prev, "_id"), first) != 0 {
							viol("one-document-write", fmt.Sprintf("FindOneAndReplace(%s).sort(%s) replaced _ids [%s] and returned %s (err %v), the first of the ordering is _id %v", J(f), J(spec), idsOf(hit), J(prev), err, first), map[string]interface{}{"filter": J(f), "sort": J(spec)})
						}
						w4.Close()
						atomic.AddInt64(&oneDocWrites, 3)
					}
				}
				for _, spec := range invalid {
					if _, err := coll.Find(w.Ctx, f, options.Find().SetSort(spec)); err == nil && n > 0 {
						viol("invalid-direction-accepted", fmt.Sprintf("Find with sort %s succeeded", J(spec)), map[string]interface{}{"sort": J(spec)})
					}
				}
			}
		})
		// larger collections (runs of ties longer than any small-slice shortcut of the sort routine) and
		// collections whose natural order has been through deletions: full order and a few windows
		var bigChecks int64
		type big struct {
			name string
			seq  []int
			del  []int // positions deleted after all inserts
			// indexed: a partial unique, a plain and a compound index exist whose keys equal sort specifications (results must
			// not depend on which indexes exist); reload: the collection went through the store's encoder and decoder;
			// descID: the _id values descend in insertion order (natural order is not _id order)
			indexed, reload, descID bool
		}
		var bigs []big
		for _, n := range []int{13, 20, 40} {
			for _, stride := range []int{1, 4, 7} {
				var seq []int
				for i := 0; i < n; i++ {
					seq = append(seq, (i*stride)%len(pool))
				}
				bigs = append(bigs, big{name: fmt.Sprintf("n=%d stride=%d", n, stride), seq: seq})
				bigs = append(bigs, big{name: fmt.Sprintf("n=%d stride=%d after deleting positions 0,3,%d", n, stride, n-2), seq: seq, del: []int{0, 3, n - 2}})
				bigs = append(bigs, big{name: fmt.Sprintf("n=%d stride=%d with indexes", n, stride), seq: seq, indexed: true})
				bigs = append(bigs, big{name: fmt.Sprintf("n=%d stride=%d descending _id, reloaded", n, stride), seq: seq, reload: true, descID: true})
				bigs = append(bigs, big{name: fmt.Sprintf("n=%d stride=%d descending _id, with indexes, after deleting 0,3,%d, reloaded", n, stride, n-2), seq: seq, del: []int{0, 3, n - 2}, indexed: true, reload: true, descID: true})
			}
		}
		for ci := range colls {
			if len(colls[ci]) >= 2 {
				bigs = append(bigs, big{name: "small after deleting position 0", seq: append([]int{0}, colls[ci]...), del: []int{0}})
				bigs = append(bigs, big{name: "small after deleting position 1", seq: append(append([]int{colls[ci][0]}, 0), colls[ci][1:]...), del: []int{1}})
				bigs = append(bigs, big{name: "small descending _id, with indexes, reloaded", seq: colls[ci], indexed: true, reload: true, descID: true})
			}
		}
		par.For(len(bigs), r.TooMany, func(bi int) {
			b := bigs[bi]
			w := world.New()
			defer w.Close()
			coll := w.C("d", "c")
			var docs []bson.D
			idOf := func(pos int) int32 {
				if b.descID {
					return int32(len(b.seq) - pos)
				}
				return int32(pos)
			}
			if b.indexed {
				// only the document inserted first falls under the unique index
				first := bD("_id", idOf(0))
				for _, m := range []mongo.IndexModel{
					{Keys: bD("a", int32(1)), Options: options.Index().SetUnique(true).SetPartialFilterExpression(first)},
					{Keys: bD("b", int32(1))},
					{Keys: bD("a", int32(1), "b", int32(-1))},
					{Keys: bD("b", int32(-1), "_id", int32(1)), Options: options.Index().SetUnique(true)},
				} {
					if _, err := coll.Indexes().CreateOne(w.Ctx, m); err != nil {
						r.Broken("index: %v", err)
						return
					}
				}
			}
			for pos, k := range b.seq {
				d := append(bson.D{{Key: "_id", Value: idOf(pos)}}, pool[k]...)
				docs = append(docs, d)
				if _, err := coll.InsertOne(w.Ctx, d); err != nil {
					r.Broken("insert: %v", err)
					return
				}
			}
			gone := map[int]bool{}
			for _, p := range b.del {
				gone[p] = true
				if res, err := coll.DeleteOne(w.Ctx, bD("_id", idOf(p))); err != nil || res.DeletedCount != 1 {
					r.Broken("delete: %v", err)
					return
				}
			}
			if b.reload {
				if err := w.Reload(); err != nil {
					r.Broken("reload: %v", err)
					return
				}
				coll = w.C("d", "c")
			}
			var live []bson.D
			for pos, d := range docs {
				if !gone[pos] {
					live = append(live, d)
				}
			}
			small := strings.HasPrefix(b.name, "small")
			for _, spec := range specs {
				if small && len(spec) > 1 {
					continue
				}
				full, _ := refmodel.Order(live, spec)
				for _, win := range [][2]int{{0, 0}, {1, 5}, {7, 0}} {
					if small && win[0] != 0 {
						continue
					}
					cur, err := coll.Find(w.Ctx, bD(), options.Find().SetSort(spec).SetSkip(int64(win[0])).SetLimit(int64(win[1])))
					var got []bson.D
					if err == nil {
						err = cur.All(w.Ctx, &got)
					}
					lo := win[0]
					if lo > len(full) {
						lo = len(full)
					}
					hi := len(full)
					if win[1] > 0 && lo+win[1] < hi {
						hi = lo + win[1]
					}
					atomic.AddInt64(&bigChecks, 1)
					if err != nil || idsOf(got) != idsOf(full[lo:hi]) {
						r.Violation("order:larger-or-deleted-from", fmt.Sprintf("collection (%s): Find({}).sort(%s).skip(%d).limit(%d) returned _ids [%s] (err %v), expected [%s]", b.name, J(spec), win[0], win[1], idsOf(got), err, idsOf(full[lo:hi])),
							map[string]interface{}{"collection_sequence": b.seq, "deleted_positions": b.del, "indexed": b.indexed, "reloaded": b.reload, "descending_id": b.descID, "sort": J(spec), "skip": win[0], "limit": win[1]})
					}
				}
			}
			// distinct over _id (unique values, inserted in descending order in some variants) is ascending all the same
			if vals, err := coll.Distinct(w.Ctx, "_id", bD()); err != nil || J(bson.A(vals)) != J(bson.A(refmodel.Distinct(live, "_id"))) {
				r.Violation("distinct:larger-or-deleted-from", fmt.Sprintf("collection (%s): Distinct(_id) = %s (err %v), expected %s", b.name, J(bson.A(vals)), err, J(bson.A(refmodel.Distinct(live, "_id")))), map[string]interface{}{"collection_sequence": b.seq, "deleted_positions": b.del, "descending_id": b.descID})
			}
			// natural order after deletions
			all, _ := findAll(w.Ctx, coll)
			var want []string
			for _, d := range live {
				want = append(want, world.NewNormalizer().JSON(d))
			}
			if strings.Join(all, "|") != strings.Join(want, "|") {
				r.Violation("natural-order-after-delete", fmt.Sprintf("collection (%s): Find({}) returns %v, insertion order of the remaining documents is %v", b.name, all, want), map[string]interface{}{"collection_sequence": b.seq, "deleted_positions": b.del})
			}
		})
		// dotted sort paths: embedded documents, and arrays whose elements have nothing at the rest of the path (no value
		// there: the document ranks as null, like one without the field)
		var dottedChecks int64
		dpool := []bson.D{
			bD("p", bD("q", int32(1))), bD("p", bD("q", int32(2)), "z", int32(1)), bD("p", bD("q", nil)), bD("p", bD()), bD("p", nil), bD(),
			bD("p", bson.A{bD("c", int32(1))}), bD("p", bson.A{int32(7), int32(8)}), bD("p", bson.A{}), bD("p", bD("q", "s")), bD("p", bD("q", bson.A{int32(3), int32(0)})),
			bD("p", bD("q", bD("r", int32(1)))),
		}
		dspecs := []bson.D{bD("p.q", int32(1)), bD("p.q", int32(-1)), bD("p.q", int32(1), "_id", int32(-1)), bD("p.q", int32(-1), "z", int32(1)), bD("p.q.r", int32(1)), bD("z", int32(-1), "p.q", int32(1))}
		var dcolls [][]int
		var dgen func(cur []int)
		dgen = func(cur []int) {
			if len(cur) >= 2 {
				dcolls = append(dcolls, append([]int{}, cur...))
			}
			if len(cur) == 3 {
				return
			}
			for k := range dpool {
				dgen(append(cur, k))
			}
		}
		dgen(nil)
		par.For(len(dcolls), r.TooMany, func(ci int) {
			w := world.New()
			defer w.Close()
			coll := w.C("d", "c")
			var docs []bson.D
			for pos, k := range dcolls[ci] {
				d := append(bson.D{{Key: "_id", Value: int32(pos)}}, dpool[k]...)
				docs = append(docs, d)
				if _, err := coll.InsertOne(w.Ctx, d); err != nil {
					r.Broken("insert: %v", err)
					return
				}
			}
			for _, spec := range dspecs {
				full, err := refmodel.Order(docs, spec)
				if err != nil {
					r.Broken("reference order: %v", err)
					return
				}
				cur, err := coll.Find(w.Ctx, bD(), options.Find().SetSort(spec))
				var got []bson.D
				if err == nil {
					err = cur.All(w.Ctx, &got)
				}
				atomic.AddInt64(&dottedChecks, 1)
				if err != nil || idsOf(got) != idsOf(full) {
					r.Violation("order:dotted-path", fmt.Sprintf("Find({}).sort(%s) returned _ids [%s] (err %v), expected [%s]; collection %s", J(spec), idsOf(got), err, idsOf(full), J(docs)), map[string]interface{}{"collection": J(docs), "sort": J(spec)})
				}
				var one bson.D
				err = coll.FindOne(w.Ctx, bD(), options.FindOne().SetSort(spec).SetSkip(1)).Decode(&one)
				if err != nil || J(one) != J(full[1]) {
					r.Violation("findone:dotted-path", fmt.Sprintf("FindOne({}).sort(%s).skip(1) returned %s (err %v), expected %s; collection %s", J(spec), J(one), err, J(full[1]), J(docs)), map[string]interface{}{"collection": J(docs), "sort": J(spec)})
				}
			}
		})
		r.Set("dotted_path_orders_checked", dottedChecks)
		r.Set("larger_and_deleted_from_collections", int64(len(bigs)))
		r.Set("larger_and_deleted_from_checks", bigChecks)
		r.Set("evaluations", windows+oneDocWrites+distincts+bigChecks+dottedChecks)
		r.Set("collections", int64(len(colls)))
		r.Set("sort_specs", int64(len(specs)))
		r.Set("filters", int64(len(filters)))
		r.Set("windows_checked", windows)
		r.Set("sorted_one_document_writes", oneDocWrites)
		r.Set("distinct_calls", distincts)
		r.Set("distinct_nontrivial", ties)
		r.Set("adjacent_ties_in_reference_orders", ties)
		r.Set("array_valued_keys_ranked", arraysSorted)
		r.Set("grammar_sizes", map[string]interface{}{"pool_documents": len(pool), "max_documents": maxDocs, "collections": len(colls), "filters": len(filters), "sort_specs": len(specs), "invalid_sort_specs": len(invalid)})
		r.Set("exhaustive", !r.TooMany())
		r.Set("samples", []interface{}{map[string]interface{}{"pool": J(pool)}, map[string]interface{}{"example_specs": []string{J(specs[0]), J(specs[len(specs)/2]), J(specs[len(specs)-1])}}})
		r.Set("rule", "every sequence of <= max_documents documents of the pool (equal numbers of different types, arrays at both ends, empty arrays, null vs missing, strings) in every insertion order x 3 filters x every sort specification of 1-3 distinct keys over {a,b,_id} with both directions x every skip in 0..n+1 x every limit in 0..n+1 through Collection.Find: the returned documents must be exactly the window of the reference ordering (stable sort by per-direction array element, missing as null), unchanged; FindOne with skip, FindOneAndDelete and FindOneAndUpdate with sort act on the first element; Distinct on a, b, _id equals the ascending deduplicated reference list; invalid directions are rejected; every sequence of 2-3 documents of a second pool (embedded documents, arrays whose elements have nothing at the rest of the path, empty arrays, null, missing) x 6 specifications over dotted paths: full order and FindOne with skip")
		r.Assume("an empty array used as a sort key ranks as an array (lungo's documented choice; the property statement does not fix it)")
		if windows < 100000 || ties < 1000 {
			r.Broken("vacuity: windows=%d ties=%d", windows, ties)
		}
	})
}

func absInt(i int) int {
	if i < 0 {
		return -i
	}
	return i
}
