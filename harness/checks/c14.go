package checks

import (
	"fmt"
	"strings"
	"sync/atomic"

	"go.mongodb.org/mongo-driver/bson"
	"go.mongodb.org/mongo-driver/mongo"
	"go.mongodb.org/mongo-driver/mongo/options"

	"github.com/256dpi/lungo"

	"verif/internal/par"
	"verif/internal/refmodel"
	"verif/internal/world"
)

// ---------------------------------------------------------------------------
// C14 — projections.

type c14Entry struct {
	path string
	flag interface{}
}

func (e c14Entry) kind() string {
	if d, ok := e.flag.(bson.D); ok && len(d) == 1 {
		return d[0].Key
	}
	return "flag"
}

func c14Docs() []bson.D {
	i := func(v int) int32 { return int32(v) }
	full := bD("_id", i(1),
		"a", bD("b", bD("c", i(1), "d", i(2)), "bb", i(5), "e", bson.A{i(1), i(2), i(3), i(4)}, "f", "x"),
		"t", bson.A{i(5), i(6), i(7)},
		"tt", bson.A{i(8), i(9)},
		"r", bson.A{bD("x", i(1), "y", i(1)), bD("x", i(2), "y", i(2)), bD("x", i(2), "y", i(3))},
		"z", nil)
	return []bson.D{
		full,
		bD("_id", i(2)),
		bD("_id", i(3), "a", i(5), "t", bson.A{}, "r", bson.A{}),
		bD("_id", i(4), "a", bD("b", i(7), "e", bson.A{i(9)}), "t", i(1), "r", bson.A{bD("x", i(5))}),
		bD("_id", i(5), "a", bD("b", bD("c", bD("deep", true))), "t", bson.A{bson.A{i(1), i(2)}, bson.A{i(3)}}, "r", bson.A{i(1), i(2), i(3)}),
		bD("_id", bD("k", i(1), "tags", bson.A{i(1), i(2), i(3)}), "a", bD("e", bson.A{i(1), i(2)}), "r", bson.A{bD("x", i(2)), bD("x", i(2), "y", i(9))}),
		bD("_id", i(7), "zz", i(1), "a", bD("zz", i(2), "b", bD("d", i(1)))),
		// an array that mixes scalars and documents: $elemMatch conditions on fields only look at the documents
		bD("_id", i(9), "r", bson.A{i(5), bD("x", nil), bD("y", i(1)), bD("x", i(2))}, "t", bson.A{i(7), bD("q", i(1))}),
		// the _id is not the first field
		bD("a", bD("b", i(3), "e", bson.A{i(4), i(5)}), "_id", i(8), "t", bson.A{i(1), i(2)}),
	}
}

func c14Paths() []string {
	return []string{"_id", "a", "a.b", "a.bb", "a.b.c", "a.e", "a.zz", "t", "tt", "r", "zz", "_id.tags", "_id.k", "t.0", "r.0.x"}
}

func c14Flags(level int) []interface{} {
	sl := func(v interface{}) bson.D { return bD("$slice", v) }
	i := func(v int) int32 { return int32(v) }
	switch level {
	case 3: // triples
		return []interface{}{i(1), i(0), sl(i(1)), bD("$elemMatch", bD("x", i(2)))}
	case 2: // pairs
		return []interface{}{i(1), i(0), true, sl(i(2)), sl(i(-1)), sl(bson.A{i(1), i(2)}), bD("$elemMatch", bD("x", i(2))), i(2)}
	}
	fs := []interface{}{i(1), i(0), true, false, int64(1), 1.0, 0.0, i(2), "x"}
	for _, n := range []int{0, 1, 2, 9, -1, -2, -9} {
		fs = append(fs, sl(i(n)))
	}
	for _, s := range []int{0, 1, -1, 9, -9, -2} {
		for _, l := range []int{0, 1, 2, 9, -1} {
			fs = append(fs, sl(bson.A{i(s), i(l)}))
		}
	}
	fs = append(fs, bD("$elemMatch", bD("x", i(2))), bD("$elemMatch", bD("$gt", i(5))), bD("$elemMatch", bD()), bD("$elemMatch", bD("x", i(2), "y", bD("$gte", i(3)))))
	fs = append(fs, bD("$elemMatch", bD("x", nil)), bD("$elemMatch", bD("x", bD("$exists", false))), bD("$elemMatch", bD("y", bD("$ne", i(1)))))
	return fs
}

// c14Within checks the sub-document relation: every value in res is the stored value at that path, except arrays under
// a $slice/$elemMatch entry which must be contiguous windows / single elements of the stored array.
func c14Within(res, stored interface{}, path string, windowed map[string]bool) string {
	switch x := res.(type) {
	case bson.D:
		sd, ok := stored.(bson.D)
		if !ok {
			return fmt.Sprintf("%q is a document in the result but %s in the stored document", path, J(stored))
		}
		for _, e := range x {
			p := e.Key
			if path != "" {
				p = path + "." + e.Key
			}
			sv := refmodel.GetPath(sd, e.Key)
			if refmodel.IsMissing(sv) {
				return fmt.Sprintf("%q is in the result but not in the stored document", p)
			}
			if msg := c14Within(e.Value, sv, p, windowed); msg != "" {
				return msg
			}
		}
		return ""
	case bson.A:
		sa, ok := stored.(bson.A)
		if !ok {
			return fmt.Sprintf("%q is an array in the result but %s in the stored document", path, J(stored))
		}
		if windowed[path] {
			// a contiguous run (or, for $elemMatch, one element) of the stored array
			for start := 0; start+len(x) <= len(sa); start++ {
				if J(bson.A(sa[start:start+len(x)])) == J(x) {
					return ""
				}
			}
			return fmt.Sprintf("%q = %s is not a window of the stored array %s", path, J(x), J(sa))
		}
		if J(x) != J(sa) {
			return fmt.Sprintf("%q = %s differs from the stored %s", path, J(x), J(sa))
		}
		return ""
	}
	if J(res) != J(stored) {
		return fmt.Sprintf("%q = %s differs from the stored %s", path, J(res), J(stored))
	}
	return ""
}

func init() {
	Register("C14", "exploration", func(c *Ctx) {
		r := c.R
		docs := c14Docs()
		paths := c14Paths()
		// projections: all singles over the full flag pool, all ordered pairs and triples (distinct paths) over reduced pools
		var projs [][]c14Entry
		for _, p := range paths {
			for _, f := range c14Flags(1) {
				projs = append(projs, []c14Entry{{p, f}})
			}
		}
		singles := len(projs)
		var e2, e3 []c14Entry
		for _, p := range paths {
			for _, f := range c14Flags(2) {
				if p != "_id" || !isOp(f) {
					e2 = append(e2, c14Entry{p, f})
				}
			}
			for _, f := range c14Flags(3) {
				if p != "_id" || !isOp(f) {
					e3 = append(e3, c14Entry{p, f})
				}
			}
		}
		for _, a := range e2 {
			for _, b := range e2 {
				if a.path != b.path {
					projs = append(projs, []c14Entry{a, b})
				}
			}
		}
		pairs := len(projs) - singles
		if !c.Quick() {
			for _, a := range e3 {
				for _, b := range e3 {
					for _, cc := range e3 {
						if a.path != b.path && a.path != cc.path && b.path != cc.path {
							projs = append(projs, []c14Entry{a, b, cc})
						}
					}
				}
			}
		} else {
			// quick: triples over a further reduced path set
			for _, a := range e3 {
				for _, b := range e3 {
					for _, cc := range e3 {
						ok := func(p string) bool {
							return p == "_id" || p == "a" || p == "a.b" || p == "a.bb" || p == "a.e" || p == "r"
						}
						if a.path != b.path && a.path != cc.path && b.path != cc.path && ok(a.path) && ok(b.path) && ok(cc.path) {
							projs = append(projs, []c14Entry{a, b, cc})
						}
					}
				}
			}
		}
		triples := len(projs) - singles - pairs
		var evals, inDomain, errorsBoth, overlapping, mutationChecks, listFinds, writeProjections, emptyResultChecks int64
		outcomes := map[string]bool{}
		par.For(len(projs), r.TooMany, func(pi int) {
			ents := projs[pi]
			proj := bson.D{}
			windowed := map[string]bool{}
			overlap := false
			for i, e := range ents {
				proj = append(proj, bson.E{Key: e.path, Value: e.flag})
				if e.kind() != "flag" {
					windowed[e.path] = true
				}
				for j, o := range ents {
					if i != j && strings.HasPrefix(o.path, e.path+".") {
						overlap = true
					}
				}
			}
			// paths with a numeric segment (a position in an array, or a field named like one): what such a path selects
			// is not fixed by the statement; only "projecting never alters the stored document or later results" is checked
			numeric := false
			for _, e := range ents {
				for _, seg := range strings.Split(e.path, ".") {
					if seg != "" && seg[0] >= '0' && seg[0] <= '9' {
						numeric = true
					}
				}
			}
			reps := 1
			if len(ents) > 1 {
				reps = 8 // Project merges its entries through a map: several runs cover the iteration orders
			}
			singles := make([]string, len(docs)) // per-document result of this projection ("" = rejected)
			for di, doc := range docs {
				w := world.New()
				coll := w.C("d", "c")
				if _, err := coll.InsertOne(w.Ctx, doc); err != nil {
					w.Close()
					r.Broken("insert: %v", err)
					return
				}
				before := w.DumpAll()
				want, werr := refmodel.Project(doc, proj)
				outsideRef := werr != nil && refmodel.IsOutside(werr)
				// a projection that the reference rejects whatever the document is an error also when nothing matches
				if di == 0 && werr != nil && !outsideRef && !numeric && !overlap {
					_, ferr := coll.Find(w.Ctx, bD("_id", "matches nothing"), options.Find().SetProjection(proj))
					oerr := coll.FindOne(w.Ctx, bD("_id", "matches nothing"), options.FindOne().SetProjection(proj)).Err()
					atomic.AddInt64(&emptyResultChecks, 1)
					if ferr == nil || oerr == nil || oerr == mongo.ErrNoDocuments {
						r.Violation("accepted-on-empty-result:"+c14Shape(ents), fmt.Sprintf("projection %s must be rejected (%v) but Find / FindOne with a filter that matches nothing return (%v, %v)", J(proj), werr, ferr, oerr), map[string]interface{}{"projection": J(proj)})
					}
					// ... and the find-one-and-modify calls, on this collection and on one that was never created
					for _, cl := range []lungo.ICollection{coll, w.C("d", "never-created")} {
						nothing := bD("_id", "matches nothing")
						errs := []error{
							cl.FindOneAndDelete(w.Ctx, nothing, options.FindOneAndDelete().SetProjection(proj)).Err(),
							cl.FindOneAndUpdate(w.Ctx, nothing, bD("$set", bD("q", int32(1))), options.FindOneAndUpdate().SetProjection(proj)).Err(),
							cl.FindOneAndReplace(w.Ctx, nothing, bD("q", int32(1)), options.FindOneAndReplace().SetProjection(proj)).Err(),
						}
						for k, e := range errs {
							if e == nil || e == mongo.ErrNoDocuments {
								r.Violation("accepted-on-empty-result:find-and-modify:"+c14Shape(ents), fmt.Sprintf("projection %s must be rejected (%v) but %s on %s with a filter that matches nothing returns %v", J(proj), werr, []string{"FindOneAndDelete", "FindOneAndUpdate", "FindOneAndReplace"}[k], cl.Name(), e), map[string]interface{}{"projection": J(proj)})
							}
						}
					}
				}
				for _, e := range ents {
					if e.kind() != "flag" {
						if v := refmodel.GetPath(doc, e.path); !refmodel.IsMissing(v) {
							if _, isArr := v.(bson.A); !isArr {
								outsideRef = true // $slice / $elemMatch on a value that is not an array: not fixed by the statement
							}
						}
					}
				}
				for rep := 0; rep < reps; rep++ {
					var got bson.D
					err := coll.FindOne(w.Ctx, bD(), options.FindOne().SetProjection(proj)).Decode(&got)
					atomic.AddInt64(&evals, 1)
					rp := map[string]interface{}{"document": J(doc), "projection": J(proj)}
					label := fmt.Sprintf("projection %s on %s", J(proj), short(J(doc), 260))
					// (iv) never alters the stored document
					atomic.AddInt64(&mutationChecks, 1)
					if after := w.DumpAll(); after != before {
						var now bson.D
						_ = coll.FindOne(w.Ctx, bD()).Decode(&now)
						r.Violation("stored-document-altered:"+c14Shape(ents), label+": the stored document is now "+J(now), rp)
						before = after
					}
					if err == nil && rep == 0 {
						singles[di] = J(canonSorted(got)) // overlays are merged in map order: compared up to field order
					}
					if numeric {
						atomic.AddInt64(&overlapping, 1)
						continue
					}
					if err != nil {
						if werr == nil && !overlap && !outsideRef {
							r.Violation("rejected:"+c14Shape(ents), label+": rejected ("+err.Error()+") but the reference accepts it and returns "+J(want), rp)
						} else {
							atomic.AddInt64(&errorsBoth, 1)
						}
						continue
					}
					// (i) mixing is an error, as are malformed flags
					if werr != nil && !overlap && !outsideRef {
						r.Violation("accepted:"+c14Shape(ents), label+": accepted and returned "+J(got)+" but must be rejected ("+werr.Error()+")", rp)
						continue
					}
					// no field appears twice, at any level
					if dup := c14DupKey(got); dup != "" {
						r.Violation("duplicate-field:"+c14Shape(ents), label+": returned "+J(got)+": field "+dup+" appears twice", rp)
						continue
					}
					// (ii) everything returned is a stored value
					if msg := c14Within(got, doc, "", windowed); msg != "" {
						r.Violation("not-stored-value:"+c14Shape(ents), label+": returned "+J(got)+": "+msg, rp)
						continue
					}
					// (iii) exact result inside the reference domain
					if overlap || outsideRef {
						atomic.AddInt64(&overlapping, 1)
						continue
					}
					atomic.AddInt64(&inDomain, 1)
					// parents that become empty documents because nothing below them was selected may be kept or dropped
					// (the statement does not fix the field order of the result: compared up to field order)
					if J(canonSorted(c14DropEmpty(got))) != J(canonSorted(c14DropEmpty(want))) {
						r.Violation("result:"+c14Shape(ents), label+": returned "+J(got)+", expected "+J(want), rp)
					}
					if di == 0 && rep == 0 {
						_ = outcomes
					}
				}
				// (vi) the same projection on the result of a find-one-and-modify call: what comes back is the projection of the
				// version asked for, and the projecting never reaches the stored document - observed where the write itself does
				// not hide it: in a session transaction that is aborted afterwards, and through a cursor opened before the call
				if singles[di] != "" && len(ents) <= 2 {
					early, eerr := coll.Find(w.Ctx, bD())
					marked := append(append(bson.D{}, doc...), bson.E{Key: "zz", Value: int32(1)})
					rp := map[string]interface{}{"document": J(doc), "projection": J(proj), "part": "find-one-and-modify"}
					for _, kind := range []string{"FindOneAndDelete", "FindOneAndUpdate:before", "FindOneAndUpdate:after", "FindOneAndReplace:before"} {
						sess, serr := w.Client.StartSession()
						if serr != nil || sess.StartTransaction() != nil {
							r.Broken("session: %v", serr)
							break
						}
						var got bson.D
						var err error
						_ = lungo.WithSession(w.Ctx, sess, func(sc lungo.ISessionContext) error {
							switch kind {
							case "FindOneAndDelete":
								err = coll.FindOneAndDelete(sc, bD(), options.FindOneAndDelete().SetProjection(proj)).Decode(&got)
							case "FindOneAndUpdate:before":
								err = coll.FindOneAndUpdate(sc, bD(), bD("$set", bD("zz", int32(1))), options.FindOneAndUpdate().SetProjection(proj)).Decode(&got)
							case "FindOneAndUpdate:after":
								err = coll.FindOneAndUpdate(sc, bD(), bD("$set", bD("zz", int32(1))), options.FindOneAndUpdate().SetProjection(proj).SetReturnDocument(options.After)).Decode(&got)
							default:
								err = coll.FindOneAndReplace(sc, bD(), marked[1:], options.FindOneAndReplace().SetProjection(proj)).Decode(&got)
							}
							return nil
						})
						_ = sess.AbortTransaction(w.Ctx)
						sess.EndSession(w.Ctx)
						atomic.AddInt64(&writeProjections, 1)
						label := fmt.Sprintf("%s with projection %s on %s", kind, J(proj), short(J(doc), 260))
						if err != nil {
							r.Violation("write-projection-rejected:"+kind+":"+c14Shape(ents), label+": failed ("+err.Error()+") although FindOne accepts the projection", rp)
						} else if numeric {
							// (laws of non-mutation only)
						} else if kind == "FindOneAndUpdate:after" {
							if msg := c14Within(got, marked, "", windowed); msg != "" {
								r.Violation("write-projection-result:"+kind+":"+c14Shape(ents), label+": returned "+J(got)+": "+msg, rp)
							}
						} else if J(canonSorted(got)) != singles[di] {
							r.Violation("write-projection-result:"+kind+":"+c14Shape(ents), label+": returned "+J(got)+", FindOne with the same projection returns "+singles[di], rp)
						}
						if after := w.DumpAll(); after != before {
							var now bson.D
							_ = coll.FindOne(w.Ctx, bD()).Decode(&now)
							r.Violation("stored-document-altered:"+kind+":"+c14Shape(ents), label+" inside a transaction that was aborted: the stored document is now "+J(now), rp)
							before = after
						}
					}
					// an upserting call that matches nothing returns the new document through the same projection
					{
						var got, plain bson.D
						uerr := coll.FindOneAndUpdate(w.Ctx, bD("_id", "upserted"), bD("$set", bD("a", refmodel.GetPath(doc, "a"), "t", refmodel.GetPath(doc, "t"), "r", refmodel.GetPath(doc, "r"))),
							options.FindOneAndUpdate().SetUpsert(true).SetReturnDocument(options.After).SetProjection(proj)).Decode(&got)
						perr := coll.FindOne(w.Ctx, bD("_id", "upserted"), options.FindOne().SetProjection(proj)).Decode(&plain)
						atomic.AddInt64(&writeProjections, 1)
						if !numeric && (uerr != nil) != (perr != nil) || (uerr == nil && !numeric && J(canonSorted(got)) != J(canonSorted(plain))) {
							r.Violation("write-projection-result:upsert-after:"+c14Shape(ents), fmt.Sprintf("FindOneAndUpdate(upsert, after) with projection %s returned %s (err %v); FindOne with the same projection returns %s (err %v) for the upserted document", J(proj), J(got), uerr, J(plain), perr), rp)
						}
						_, _ = coll.DeleteOne(w.Ctx, bD("_id", "upserted"))
					}
					if eerr == nil {
						var seen []bson.D
						if err := early.All(w.Ctx, &seen); err != nil || len(seen) != 1 || J(seen[0]) != J(doc) {
							r.Violation("earlier-cursor-altered:"+c14Shape(ents), fmt.Sprintf("a cursor opened before find-one-and-modify calls with projection %s returns %s (err %v), the document was %s", J(proj), J(seen), err, J(doc)), rp)
						}
					}
				}
				w.Close()
			}
			// the same projection over all documents in one Find: every result equals the single-document result
			// (nothing carries over from one document to the next)
			all := true
			for _, sres := range singles {
				if sres == "" {
					all = false
				}
			}
			if all {
				w := world.New()
				coll := w.C("d", "c")
				for _, doc := range docs {
					_, _ = coll.InsertOne(w.Ctx, doc)
				}
				listBefore := w.DumpAll()
				for rep := 0; rep < reps; rep++ {
					cur, err := coll.Find(w.Ctx, bD(), options.Find().SetProjection(proj))
					var got []bson.D
					if err == nil {
						err = cur.All(w.Ctx, &got)
					}
					atomic.AddInt64(&listFinds, 1)
					if err != nil || len(got) != len(docs) {
						r.Violation("list:"+c14Shape(ents), fmt.Sprintf("Find({}) with projection %s over all documents: %d results, err %v, although every single document projects fine", J(proj), len(got), err), map[string]interface{}{"projection": J(proj)})
						break
					}
					bad := false
					for i := range got {
						if numeric {
							break
						}
						if J(canonSorted(got[i])) != singles[i] {
							r.Violation("list:"+c14Shape(ents), fmt.Sprintf("Find({}) with projection %s: document %d of the list comes back as %s, projected on its own it is %s", J(proj), i, J(got[i]), singles[i]), map[string]interface{}{"projection": J(proj), "position": i})
							bad = true
							break
						}
					}
					if bad {
						break
					}
					if after := w.DumpAll(); after != listBefore {
						r.Violation("stored-document-altered:list:"+c14Shape(ents), fmt.Sprintf("Find({}) with projection %s over all documents changed the stored documents:\n%s", J(proj), firstDiff(listBefore, after)), map[string]interface{}{"projection": J(proj)})
						break
					}
				}
				w.Close()
			}
		})
		r.Set("evaluations", evals)
		r.Set("grammar_sizes", map[string]interface{}{"documents": len(docs), "paths": len(paths), "single_entry_projections": singles, "pair_projections": pairs, "triple_projections": triples})
		r.Set("projections", int64(len(projs)))
		r.Set("in_reference_domain", inDomain)
		r.Set("overlapping_paths_laws_only", overlapping)
		r.Set("rejected_by_both", errorsBoth)
		r.Set("stored_document_checks", mutationChecks)
		r.Set("multi_document_finds", listFinds)
		r.Set("rejected_projections_on_empty_results", emptyResultChecks)
		r.Set("find_one_and_modify_projections", writeProjections)
		r.Set("distinct_nontrivial", inDomain)
		r.Set("exhaustive", !r.TooMany())
		r.Set("samples", []interface{}{map[string]interface{}{"documents": J(docs)}, map[string]interface{}{"paths": paths}, map[string]interface{}{"flags": J(bson.A(c14Flags(1)))}})
		r.Set("rule", "every projection of 1 entry (9 paths x 50 flags: numeric/boolean/invalid flags, $slice counts and [skip,limit] pairs incl. negative and out-of-range, $elemMatch conditions), every ordered pair of entries with distinct paths over an 8-flag core and every ordered triple over a 4-flag core (incl. overlapping paths such as a with a.b) on each of 7 documents through FindOne with SetProjection: (i) mixing inclusion and exclusion or a malformed flag is rejected, (ii) every value in the result is the stored value at its path (arrays under $slice/$elemMatch must be windows of the stored array), (iii) the result equals the reference projection when no path is a prefix of another, (iv) the byte dump of the whole database is unchanged after every call, (v) one Find over all documents returns for each document what its single-document projection returns; projections of several entries are executed 8 times each; (vi) for projections of one or two entries: FindOneAndDelete, FindOneAndUpdate (both versions) and FindOneAndReplace with the projection inside a session transaction that is aborted return the projection FindOne returns, leave the byte dump unchanged, and a cursor opened before them still returns the original document")
		r.Assume("lungo merges projection entries through a Go map: 8 repetitions per multi-entry projection is repetition, not enumeration, of that one dimension", "overlapping paths (a path that is a prefix of another) are accepted by lungo and rejected by MongoDB; they are checked by (ii) and (iv) only")
		if inDomain < 5000 {
			r.Broken("vacuity: only %d results compared with the reference", inDomain)
		}
	})
}

func isOp(f interface{}) bool { _, ok := f.(bson.D); return ok }

func short(s string, n int) string {
	if len(s) > n {
		return s[:n] + "..."
	}
	return s
}

// c14DropEmpty removes fields whose (projected) value is an empty document.
func c14DropEmpty(v interface{}) interface{} {
	switch x := v.(type) {
	case bson.D:
		out := bson.D{}
		for _, e := range x {
			nv := c14DropEmpty(e.Value)
			if d, ok := nv.(bson.D); ok && len(d) == 0 {
				continue
			}
			out = append(out, bson.E{Key: e.Key, Value: nv})
		}
		return out
	}
	return v
}

// c14Shape names the shape of a projection for violation classes (operator kinds and whether paths overlap).
func c14Shape(ents []c14Entry) string {
	var ks []string
	overlap := false
	for i, e := range ents {
		k := e.kind()
		if k == "flag" {
			k = fmt.Sprint(e.flag)
		}
		if k == "$slice" {
			if _, ok := e.flag.(bson.D)[0].Value.(bson.A); ok {
				k = "$slice[s,l]"
			}
		}
		ks = append(ks, k)
		for j, o := range ents {
			if i != j && strings.HasPrefix(o.path, e.path+".") {
				overlap = true
			}
		}
	}
	s := strings.Join(ks, "+")
	if overlap {
		s += "(overlapping)"
	}
	return s
}

var _ = world.New

// c14DupKey returns the path of a field that occurs twice in one (embedded) document of v, or "".
func c14DupKey(v interface{}) string {
	switch x := v.(type) {
	case bson.D:
		seen := map[string]bool{}
		for _, e := range x {
			if seen[e.Key] {
				return e.Key
			}
			seen[e.Key] = true
			if d := c14DupKey(e.Value); d != "" {
				return e.Key + "." + d
			}
		}
	case bson.A:
		for _, el := range x {
			if d := c14DupKey(el); d != "" {
				return d
			}
		}
	}
	return ""
}
