package checks

import (
	"fmt"
	"strings"
	"sync"
	"time"

	"go.mongodb.org/mongo-driver/bson"
	"go.mongodb.org/mongo-driver/mongo/options"

	"github.com/256dpi/lungo"
	"github.com/256dpi/lungo/mongokit"

	"verif/internal/e1"
	"verif/internal/refmodel"
	"verif/internal/world"
)

// idxRequest describes what a CreateIndex call of the alphabet asks for.
type idxRequest struct {
	name    string
	key     bson.D
	unique  bool
	partial bson.D
	expiry  time.Duration
}

func defaultIndexName(key bson.D) string {
	var parts []string
	for _, e := range key {
		parts = append(parts, e.Key, fmt.Sprint(e.Value))
	}
	return strings.Join(parts, "_")
}

// parseIdxRequest recovers the request from the call label produced by cCreateIndex (kept in one place with it).
func c15Requests() map[string]idxRequest {
	mk := func(key bson.D, o idxOpt) (string, idxRequest) {
		c := cCreateIndex("d", "c", key, o)
		name := o.name
		if name == "" {
			name = defaultIndexName(key)
		}
		var exp time.Duration
		if o.expire != nil {
			exp = time.Duration(*o.expire) * time.Second
		}
		return c.Name, idxRequest{name, key, o.unique, o.partial, exp}
	}
	out := map[string]idxRequest{}
	for _, x := range []struct {
		k bson.D
		o idxOpt
	}{
		{bD("a", int32(1)), idxOpt{unique: true}},
		{bD("a", int32(1), "b", int32(1)), idxOpt{unique: true}},
		{bD("a", int32(1)), idxOpt{unique: true, partial: bD("b", bD("$gt", int32(0))), name: "part"}},
		{bD("a", int32(1)), idxOpt{}},
		{bD("a", int32(1)), idxOpt{unique: true, name: "other"}},
		{bD("b", int32(1)), idxOpt{name: "a_1"}},
		{bD("b", int32(-1)), idxOpt{}},
		{bD("a", int32(1)), idxOpt{unique: true, name: "part"}},
		{bD("a", int32(1)), idxOpt{unique: true, partial: bD("b", bD("$gt", int32(0)))}},
		{bD("a", int32(1)), idxOpt{unique: true, partial: bD("b", bD("$gt", int32(1))), name: "part"}},
		{bD("t", int32(1)), idxOpt{expire: i32(3600)}},
	} {
		n, r := mk(x.k, x.o)
		out[n] = r
	}
	return out
}

func (q idxRequest) sameAs(name string, c mongokit.IndexConfig) bool {
	if name != q.name || refmodel.Cmp(*c.Key, q.key) != 0 || c.Unique != q.unique || c.Expiry != q.expiry {
		return false
	}
	if (c.Partial == nil) != (q.partial == nil) {
		return false
	}
	return c.Partial == nil || refmodel.Cmp(*c.Partial, q.partial) == 0
}

func init() {
	Register("C15", "model_checking", func(c *Ctx) {
		r := c.R
		calls, _ := idxAlphabet(true)
		reqs := c15Requests()
		depth := 3
		if !c.Quick() {
			depth = 4
		}
		type pre struct {
			dump    string
			indexes map[string]mongokit.IndexConfig
			hasNS   bool
		}
		var mu sync.Mutex
		var noops, conflicts, idDrops, failing, readBatteries int64
		cfg := e1.Config{ReplayNames: c.ReplayCalls(), Alphabet: calls, Depth: depth, Stop: r.TooMany,
			Before: func(w *world.World, path []int) interface{} {
				p := &pre{dump: w.DumpAll(), indexes: map[string]mongokit.IndexConfig{}}
				if ns := w.Engine.Catalog().Namespaces[lungo.Handle{"d", "c"}]; ns != nil {
					p.hasNS = true
					for n, i := range ns.Indexes {
						p.indexes[n] = i.Config()
					}
				}
				return p
			},
			After: func(w *world.World, path []int, prev interface{}, obs string) {
				p := prev.(*pre)
				names := e1.Names(calls, path)
				last := names[len(names)-1]
				hist := strings.Join(names, " ; ")
				rep := bson.M{"calls": names}
				for _, pr := range coherenceProblems(w.Engine.Catalog()) {
					r.Violation(pr.class+":"+callKind(last), pr.what+" after "+hist, rep)
				}
				if strings.HasPrefix(obs, "reload-error") {
					r.Violation("reload-fails", "persisted image does not load: "+obs+" after "+hist, rep)
				}
				if !strings.HasPrefix(obs, "ok") && !strings.HasPrefix(obs, "reload") && callKind(last) != "BulkWrite" && callKind(last) != "InsertMany" {
					mu.Lock()
					failing++
					mu.Unlock()
				}
				// index management rules
				if q, ok := reqs[last]; ok {
					same, conflict := false, ""
					for n, cfg := range p.indexes {
						if q.sameAs(n, cfg) {
							same = true
						} else if n == q.name {
							conflict = "an index named " + n + " exists with another definition"
						} else if refmodel.Cmp(*cfg.Key, q.key) == 0 {
							conflict = "index " + n + " already has the same key"
						}
					}
					switch {
					case same:
						mu.Lock()
						noops++
						mu.Unlock()
						if !strings.HasPrefix(obs, "ok name="+q.name) {
							r.Violation("create-existing-not-noop:"+q.name, fmt.Sprintf("re-creating identical index %s returned %q; history: %s", q.name, obs, hist), rep)
						} else if w.DumpAll() != p.dump {
							r.Violation("create-existing-changes-state:"+q.name, "re-creating identical index changed the database; history: "+hist, rep)
						}
					case conflict != "":
						mu.Lock()
						conflicts++
						mu.Unlock()
						if strings.HasPrefix(obs, "ok") {
							r.Violation("create-conflicting-accepted:"+q.name+":"+strings.Fields(conflict)[0]+"-"+strings.Fields(conflict)[1], fmt.Sprintf("%s succeeded (%s) although %s; history: %s", last, obs, conflict, hist), rep)
						} else if w.DumpAll() != p.dump {
							r.Violation("create-conflicting-changes-state:"+q.name, "failed index creation changed the database; history: "+hist, rep)
						}
					}
				}
				// writes to documents never touch the definitions of the indexes, and a delete never fails
				switch kind := callKind(last); kind {
				case "InsertOne", "InsertMany", "UpdateOne", "UpdateMany", "ReplaceOne", "DeleteOne", "DeleteMany", "BulkWrite", "FindOneAndUpdate", "Reload":
					if ns := w.Engine.Catalog().Namespaces[lungo.Handle{"d", "c"}]; ns != nil && p.hasNS {
						for n, before := range p.indexes {
							ix := ns.Indexes[n]
							if ix == nil {
								r.Violation("index-definition-lost:"+kind, fmt.Sprintf("index %s is gone after %s; history: %s", n, last, hist), rep)
								continue
							}
							now := ix.Config()
							if !(idxRequest{n, *before.Key, before.Unique, partialOf(before), before.Expiry}).sameAs(n, now) {
								r.Violation("index-definition-changed:"+kind, fmt.Sprintf("the definition of index %s changed from %+v to %+v by %s; history: %s", n, cfgString(before), cfgString(now), last, hist), rep)
							}
						}
					}
					if (kind == "DeleteOne" || kind == "DeleteMany") && !strings.HasPrefix(obs, "ok") {
						r.Violation("delete-fails:"+kind, fmt.Sprintf("%s returned %s; history: %s", last, obs, hist), rep)
					}
				}
				// reads never disturb the indexes: projections that cut arrays below included documents, sorted and
				// filtered reads, distinct values; then the same coherence check once more
				if cur, err := w.C("d", "c").Find(w.Ctx, bD(), options.Find().SetProjection(bD("n", int32(1), "n.t", bD("$slice", int32(1)))).SetSort(bD("a", int32(-1)))); err == nil {
					var out []bson.D
					_ = cur.All(w.Ctx, &out)
				}
				if cur, err := w.C("d", "c").Find(w.Ctx, bD("a", bD("$gte", int32(1))), options.Find().SetProjection(bD("a", bD("$slice", int32(-1)), "items", bD("$elemMatch", bD("k", bD("$gte", int32(2))))))); err == nil {
					var out []bson.D
					_ = cur.All(w.Ctx, &out)
				}
				_ = w.C("d", "c").FindOne(w.Ctx, bD(), options.FindOne().SetProjection(bD("items", int32(1), "items.k", int32(1), "a", bD("$slice", bson.A{int32(1), int32(1)})))).Err()
				_, _ = w.C("d", "c").Distinct(w.Ctx, "n.t", bD())
				mu.Lock()
				readBatteries++
				mu.Unlock()
				for _, pr := range coherenceProblems(w.Engine.Catalog()) {
					r.Violation("after-reads:"+pr.class+":"+callKind(last), pr.what+" after "+hist+" and a battery of projecting reads", rep)
				}
				if p.hasNS && (strings.Contains(last, `DropIndex("_id_")`) || strings.Contains(last, `DropIndex("*")`) || strings.Contains(last, `DropOneWithKey({"_id"`)) {
					mu.Lock()
					idDrops++
					mu.Unlock()
					// the _id-missing coherence problem above reports removal; additionally a duplicate _id must still be rejected
					probe := w.C("d", "c")
					docs, _ := w.FindAll("d", "c", world.NewNormalizer())
					if len(docs) > 0 {
						ns := w.Engine.Catalog().Namespaces[lungo.Handle{"d", "c"}]
						id := refmodel.GetPath(*ns.Documents.List[0], "_id")
						_, err := probe.InsertOne(w.Ctx, bD("_id", id, "probe", true))
						if world.ErrClass(err) != "dup" {
							r.Violation("id-uniqueness-lost:"+callKind(last), fmt.Sprintf("after %s a second document with _id %s is accepted (%v); history: %s", last, J(id), err, hist), rep)
						}
					}
				}
			},
		}
		st := e1.BFS(cfg)
		// the same search from states in which a document with keys below array elements and a unique index exist
		for _, seed := range [][]string{
			{`d.c.InsertOne({"_id":{"$numberInt":"4"}`, `d.c.CreateIndex({"items.k"`},
			{`d.c.InsertOne({"_id":{"$numberInt":"4"}`, `d.c.CreateIndex({"a":{"$numberInt":"1"}},unique=true,partial=null,name=""`},
		} {
			ss := bfsSeeded(cfg, depth-1, seed...)
			st.States += ss.States
			st.Transitions += ss.Transitions
			st.ReplayCalls += ss.ReplayCalls
			st.Exhaustive = st.Exhaustive && ss.Exhaustive
		}
		// the same search, one level less deep, on a database whose change log holds aged events and is trimmed at every
		// commit (the change log is a collection like the others: whatever indexes it has stay coherent too)
		aged := cfg
		aged.Depth = depth - 1
		aged.New = func() *world.World { return c09NewWorld(true) }
		if len(cfg.ReplayNames) == 0 {
			sa := e1.BFS(aged)
			st.States += sa.States
			st.Transitions += sa.Transitions
			st.ReplayCalls += sa.ReplayCalls
			st.Exhaustive = st.Exhaustive && sa.Exhaustive
			r.Set("states_with_trimming_retention", sa.States)
		}
		r.Set("states", st.States)
		r.Set("transitions", st.Transitions)
		r.Set("traces_validated_against_impl", st.Transitions)
		r.Set("replay_calls", st.ReplayCalls)
		r.Set("max_depth", int64(st.MaxDepth))
		r.Set("frontier_left", int64(st.Frontier))
		r.Set("distinct_outcomes", st.Outcomes)
		r.Set("distinct_nontrivial", st.Nontrivial)
		r.Set("evaluations", st.Transitions)
		r.Set("identical_recreations", noops)
		r.Set("conflicting_creations", conflicts)
		r.Set("id_index_drop_attempts", idDrops)
		r.Set("failing_calls_checked", failing)
		r.Set("read_batteries_followed_by_coherence_check", readBatteries)
		r.Set("alphabet", e1.Names(calls, seq(len(calls))))
		r.Set("exhaustive", st.Exhaustive)
		r.Set("samples", append(append([]interface{}{}, toIface(st.Shortest)...), toIface(st.Longest)...))
		r.Set("rule", "E1 BFS with state deduplication; after every transition (successful or failing) every index of every collection is compared with the collection's documents, with key order and with a freshly rebuilt index; distinct_nontrivial = states with >= 2 distinct successor states")
		r.Assume("ties among equal non-unique keys are ordered by pointer value; only non-decreasing key order is demanded", "index coherence inside open transactions and after aborts is checked by C03's explorer")
		if st.States < 200 || noops < 5 || conflicts < 5 || idDrops < 5 {
			r.Broken("vacuous: states=%d noops=%d conflicts=%d idDrops=%d", st.States, noops, conflicts, idDrops)
		}
	})
}

func partialOf(c mongokit.IndexConfig) bson.D {
	if c.Partial == nil {
		return nil
	}
	return *c.Partial
}

func cfgString(c mongokit.IndexConfig) string {
	return fmt.Sprintf("{key %s unique %v partial %s expiry %v}", J(*c.Key), c.Unique, J(partialOf(c)), c.Expiry)
}
