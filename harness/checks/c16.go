package checks

import (
	"context"
	"errors"
	"fmt"
	"sort"
	"strings"

	"go.mongodb.org/mongo-driver/bson"
	"go.mongodb.org/mongo-driver/bson/primitive"
	"go.mongodb.org/mongo-driver/mongo"
	"go.mongodb.org/mongo-driver/mongo/options"

	"github.com/256dpi/lungo"
	"github.com/256dpi/lungo/bsonkit"

	"verif/internal/sched"
	"verif/internal/world"
)

// c16Env is shared by the actors of one execution.
type c16Env struct {
	x       *sched.Exec
	w       *world.World
	pending int              // actor threads still running
	obs     []string         // observations (actor: result)
	bad     []string         // protocol violations noticed by actors
	closing bool             // a Close actor is part of the scenario
	closed  bool             // Close has returned
	held    int              // write transactions handed out by Begin(true) and not yet finished (engine-level actors)
	failing bool             // a store-failure actor is part of the scenario
	reuse   []lungo.ISession // sessions whose transaction start may have been abandoned: used again at the end
}

func (e *c16Env) spawn(name string, fn func()) {
	e.pending++
	e.x.Go(name, func() {
		defer func() { e.pending-- }()
		fn()
	})
}

func (e *c16Env) note(actor string, err error, allowed ...error) {
	s := "ok"
	if err != nil {
		s = err.Error()
		if i := strings.Index(s, "\n"); i >= 0 {
			s = s[:i]
		}
	}
	e.obs = append(e.obs, actor+":"+s)
	if err == nil {
		return
	}
	if e.closing && errors.Is(err, lungo.ErrEngineClosed) {
		return
	}
	if e.failing && errors.Is(err, world.ErrInjected) {
		return // the injected store failure strikes whichever commit comes next
	}
	for _, a := range allowed {
		if errors.Is(err, a) || err.Error() == a.Error() {
			return
		}
	}
	e.bad = append(e.bad, fmt.Sprintf("unexpected-error:%s: %v", actor, err))
}

type c16Actor struct {
	name string
	run  func(e *c16Env, k int)
}

var errBoom = errors.New("boom")

func c16Actors() []c16Actor {
	coll := func(e *c16Env) lungo.ICollection { return e.w.C("d", "c") }
	return []c16Actor{
		{"D driver InsertOne", func(e *c16Env, k int) {
			e.spawn(fmt.Sprintf("D%d", k), func() {
				_, err := coll(e).InsertOne(e.w.Ctx, bD("_id", fmt.Sprintf("D%d", k)))
				e.note("D", err)
			})
		}},
		{"W Begin+Insert+Commit", func(e *c16Env, k int) {
			e.spawn(fmt.Sprintf("W%d", k), func() {
				txn, err := e.w.Engine.Begin(nil, true)
				e.note("W.begin", err)
				if err != nil {
					return
				}
				e.held++
				if e.held > 1 {
					e.bad = append(e.bad, "two-write-transactions: Begin(true) handed out a second write transaction")
				}
				e.x.Yield("W holds the slot")
				d := bD("_id", fmt.Sprintf("W%d", k))
				_, err = txn.Insert(lungo.Handle{"d", "c"}, bsonkit.List{&d}, true)
				e.note("W.insert", err)
				e.held--
				e.note("W.commit", e.w.Engine.Commit(txn))
				e.w.Engine.Abort(txn) // the documented "always call Abort" idiom
			})
		}},
		{"A Begin+Abort", func(e *c16Env, k int) {
			e.spawn(fmt.Sprintf("A%d", k), func() {
				txn, err := e.w.Engine.Begin(nil, true)
				e.note("A.begin", err)
				if err != nil {
					return
				}
				e.held++
				if e.held > 1 {
					e.bad = append(e.bad, "two-write-transactions: Begin(true) handed out a second write transaction")
				}
				e.x.Yield("A holds the slot")
				e.held--
				e.w.Engine.Abort(txn)
				e.w.Engine.Abort(txn) // double abort must be harmless
			})
		}},
		{"S session transaction commit", func(e *c16Env, k int) {
			e.spawn(fmt.Sprintf("S%d", k), func() {
				sess, _ := e.w.Client.StartSession()
				err := sess.StartTransaction()
				e.note("S.start", err)
				if err == nil {
					_ = lungo.WithSession(e.w.Ctx, sess, func(sc lungo.ISessionContext) error {
						_, err := coll(e).InsertOne(sc, bD("_id", fmt.Sprintf("S%d", k)))
						e.note("S.insert", err)
						// a call that needs a write transaction of its own is refused at once while the session has one
						// (it must not wait for the slot its own session holds)
						if derr := e.w.C("d", fmt.Sprintf("s%d", k)).Drop(sc); derr == nil {
							e.note("S.nested-drop-accepted", fmt.Errorf("Drop with the context of a session whose transaction is open succeeded"))
						}
						return nil
					})
					e.note("S.commit", sess.CommitTransaction(e.w.Ctx))
				}
				sess.EndSession(e.w.Ctx)
			})
		}},
		{"E session start raced by EndSession from another thread", func(e *c16Env, k int) {
			sess, _ := e.w.Client.StartSession()
			e.spawn(fmt.Sprintf("E%d.start", k), func() {
				err := sess.StartTransaction()
				e.note("E.start", err, lungo.ErrSessionEnded)
				if err == nil {
					e.x.Yield("E holds the slot")
					e.note("E.abort", sess.AbortTransaction(e.w.Ctx), lungo.ErrSessionEnded)
				}
			})
			e.spawn(fmt.Sprintf("E%d.end", k), func() {
				sess.EndSession(e.w.Ctx)
			})
		}},
		{"P WithTransaction callback panics", func(e *c16Env, k int) {
			e.spawn(fmt.Sprintf("P%d", k), func() {
				sess, _ := e.w.Client.StartSession()
				func() {
					defer func() {
						if p := recover(); p != nil && p != errBoom {
							panic(p)
						}
					}()
					_, err := sess.WithTransaction(e.w.Ctx, func(sc lungo.ISessionContext) (interface{}, error) {
						_, err := coll(e).InsertOne(sc, bD("_id", fmt.Sprintf("P%d", k)))
						e.note("P.insert", err)
						panic(errBoom)
					})
					e.note("P.with", err)
				}()
				// the panic has been recovered by the caller: the writer slot must be free again before (and whether or
				// not) the session is ended
				_, err := coll(e).InsertOne(e.w.Ctx, bD("_id", fmt.Sprintf("P%d-after", k)))
				e.note("P.after", err)
				sess.EndSession(e.w.Ctx)
			})
		}},
		{"Q driver call panics inside its transaction callback", func(e *c16Env, k int) {
			e.spawn(fmt.Sprintf("Q%d", k), func() {
				func() {
					defer func() { _ = recover() }()
					// a delete model without filter makes the bulk callback panic (nil filter): the deferred Abort must free the slot
					_, err := coll(e).BulkWrite(e.w.Ctx, []mongo.WriteModel{mongo.NewInsertOneModel().SetDocument(bD("_id", fmt.Sprintf("Q%d", k))), mongo.NewDeleteOneModel()})
					e.note("Q.bulk", err)
				}()
			})
		}},
		{"X write with a context cancelled by another thread", func(e *c16Env, k int) {
			ctx, cancel := context.WithCancel(context.Background())
			e.spawn(fmt.Sprintf("X%d", k), func() {
				_, err := coll(e).InsertOne(ctx, bD("_id", fmt.Sprintf("X%d", k)))
				e.note("X", err, context.Canceled)
			})
			e.spawn(fmt.Sprintf("X%d.cancel", k), func() { cancel() })
		}},
		{"Y WithTransaction with a context cancelled by another thread", func(e *c16Env, k int) {
			ctx, cancel := context.WithCancel(context.Background())
			e.spawn(fmt.Sprintf("Y%d", k), func() {
				sess, _ := e.w.Client.StartSession()
				_, err := sess.WithTransaction(ctx, func(sc lungo.ISessionContext) (interface{}, error) {
					// (an empty transaction: the slot is taken by the begin and given back by commit or abort all the same)
					return nil, nil
				})
				e.note("Y.with", err, context.Canceled)
				e.reuse = append(e.reuse, sess)
				// whatever the cancellation hit, the transaction is over when WithTransaction returns: the session stays open (a
				// long-lived session), so the end-of-execution check sees a writer slot that was not given back
			})
			e.spawn(fmt.Sprintf("Y%d.cancel", k), func() { cancel() })
		}},
		{"F write while the store rejects the commit", func(e *c16Env, k int) {
			e.spawn(fmt.Sprintf("F%d", k), func() {
				e.w.Store.FailNext++
				_, err := coll(e).InsertOne(e.w.Ctx, bD("_id", fmt.Sprintf("F%d", k)))
				e.note("F", err, world.ErrInjected)
			})
		}},
		{"T tick of the real expiry loop", func(e *c16Env, k int) {
			e.spawn(fmt.Sprintf("T%d", k), func() { lungo.VerifGrantTick(e.w.Engine) })
		}},
		{"V watch, blocked Next, closed at quiescence", func(e *c16Env, k int) {
			stream, err := coll(e).Watch(e.w.Ctx, bson.A{})
			e.note("V.watch", err)
			sched.NoteStream(stream)
			if err != nil {
				return
			}
			e.spawn(fmt.Sprintf("V%d.next", k), func() {
				for stream.Next(e.w.Ctx) {
				}
				if err := stream.Err(); err != nil {
					e.note("V.err", err)
				}
			})
			e.spawn(fmt.Sprintf("V%d.close", k), func() {
				e.x.Quiescent("close stream when quiet")
				e.note("V.close", stream.Close(e.w.Ctx))
			})
		}},
		{"Z session transaction committed by one thread while another uses the session's context for a collection drop", func(e *c16Env, k int) {
			sess, _ := e.w.Client.StartSession()
			started := false
			e.spawn(fmt.Sprintf("Z%d.txn", k), func() {
				err := sess.StartTransaction()
				e.note("Z.start", err)
				if err == nil {
					started = true
					e.note("Z.commit", sess.CommitTransaction(e.w.Ctx), lungo.ErrSessionEnded)
				}
			})
			e.spawn(fmt.Sprintf("Z%d.ddl", k), func() {
				_ = lungo.WithSession(e.w.Ctx, sess, func(sc lungo.ISessionContext) error {
					err := e.w.C("d", fmt.Sprintf("z%d", k)).Drop(sc)
					if err != nil && !strings.Contains(err.Error(), "nested transaction") {
						e.note("Z.drop", err)
					}
					return nil
				})
				_ = started
			})
		}},
		{"U UseSession whose callback starts a transaction and gives up with an error", func(e *c16Env, k int) {
			e.spawn(fmt.Sprintf("U%d", k), func() {
				err := e.w.Client.UseSession(e.w.Ctx, func(sc lungo.ISessionContext) error {
					if err := sc.StartTransaction(); err != nil {
						e.note("U.start", err)
						return err
					}
					return errBoom
				})
				if err != errBoom {
					e.note("U.use", err)
				}
			})
		}},
		{"C engine Close", func(e *c16Env, k int) {
			e.spawn(fmt.Sprintf("C%d", k), func() {
				e.w.Engine.Close()
				e.closed = true
			})
		}},
	}
}

var c16Runs int64

// c16Run runs one scenario (a multiset of actors) under the scheduler.
func c16Run(actors []c16Actor, prefix, expectN []int) (*sched.Result, *c16Env, []string) {
	var env *c16Env
	var end []string
	res := sched.Run(prefix, expectN, sched.Config{}, func(x *sched.Exec) {
		w := e3World(x)
		// a document that the expiry loop will delete, so that its pass commits
		if _, err := w.C("d", "c").Indexes().CreateOne(w.Ctx, mongo.IndexModel{Keys: bD("t", int32(1)), Options: options.Index().SetExpireAfterSeconds(3600)}); err != nil {
			panic(err)
		}
		if _, err := w.C("d", "c").InsertOne(w.Ctx, bD("_id", "old", "t", primitive.DateTime(1000))); err != nil {
			panic(err)
		}
		env = &c16Env{x: x, w: w}
		for _, a := range actors {
			if strings.HasPrefix(a.name, "C ") {
				env.closing = true
			}
			if strings.HasPrefix(a.name, "F ") {
				env.failing = true
			}
		}
		// protocol invariants at every scheduling point
		x.OnPoint = func(x *sched.Exec, kind string) {
			eng := w.Engine
			if eng.VerifTxn() != nil && eng.VerifTokenFree() {
				env.bad = append(env.bad, "txn-without-token: engine has a current write transaction while the writer slot is free (at "+kind+")")
			}
		}
		for k, a := range actors {
			a.run(env, k+1)
		}
		x.Await("join", func() bool { return env.pending == 0 })
		x.Quiescent("settle")
		x.OnPoint = nil
		// end-of-execution checks
		eng := w.Engine
		closedByActor := env.closed
		// a session whose WithTransaction was cancelled (possibly while it waited for the writer slot) is as good as new
		for _, sess := range env.reuse {
			err := sess.StartTransaction()
			if err != nil && !errors.Is(err, lungo.ErrEngineClosed) {
				end = append(end, fmt.Sprintf("session-unusable-after-abandoned-start: StartTransaction on a session whose cancelled WithTransaction had returned fails: %v", err))
			}
			if err == nil {
				if aerr := sess.AbortTransaction(w.Ctx); aerr != nil && !errors.Is(aerr, lungo.ErrEngineClosed) {
					end = append(end, fmt.Sprintf("session-unusable-after-abandoned-start: AbortTransaction returned %v", aerr))
				}
			}
			sess.EndSession(w.Ctx)
		}
		if !env.closed {
			if !eng.VerifTokenFree() || eng.VerifTxn() != nil {
				end = append(end, fmt.Sprintf("slot-not-free: after all actors finished the writer slot is free=%v, current transaction set=%v", eng.VerifTokenFree(), eng.VerifTxn() != nil))
			} else {
				// calls that are rejected inside their write transaction give the slot back as well: an index build on the
				// read-only local database, a second insert of the same _id
				if _, err := w.Client.Database("local").Collection("x").Indexes().CreateOne(w.Ctx, mongo.IndexModel{Keys: bD("k", int32(1))}); err == nil {
					end = append(end, "index build on local.x was accepted")
				}
				// a subsequent write proceeds immediately (it would park forever otherwise, reported as deadlock)
				if _, err := w.C("d", "c").InsertOne(w.Ctx, bD("_id", "probe")); err != nil {
					end = append(end, "probe-write-fails: "+err.Error())
				}
			}
			if eng.VerifStreams() != 0 {
				end = append(end, fmt.Sprintf("stream-leak: %d streams still registered", eng.VerifStreams()))
			}
			// a session transaction that is open when the engine shuts down: its calls are calls after shutdown too
			var lateSess lungo.ISession
			if len(end) == 0 {
				if sess, err := w.Client.StartSession(); err == nil && sess.StartTransaction() == nil {
					_ = lungo.WithSession(w.Ctx, sess, func(sc lungo.ISessionContext) error {
						_, err := w.C("d", "c").InsertOne(sc, bD("_id", "in-open-transaction"))
						if err != nil {
							end = append(end, "probe-write-fails: inside a fresh session transaction: "+err.Error())
						}
						return nil
					})
					lateSess = sess
				}
			}
			w.Close()
			if lateSess != nil {
				_ = lungo.WithSession(w.Ctx, lateSess, func(sc lungo.ISessionContext) error {
					if _, err := w.C("d", "c").InsertOne(sc, bD("_id", "late-in-transaction")); !errors.Is(err, lungo.ErrEngineClosed) {
						end = append(end, fmt.Sprintf("after-close:InsertOne inside the session transaction that was open at shutdown returned %v", err))
					}
					if _, err := w.C("d", "c").CountDocuments(sc, bD()); !errors.Is(err, lungo.ErrEngineClosed) {
						end = append(end, fmt.Sprintf("after-close:CountDocuments inside the session transaction that was open at shutdown returned %v", err))
					}
					return nil
				})
				if err := lateSess.CommitTransaction(w.Ctx); !errors.Is(err, lungo.ErrEngineClosed) {
					end = append(end, fmt.Sprintf("after-close:CommitTransaction of the session transaction that was open at shutdown returned %v", err))
				}
				lateSess.EndSession(w.Ctx)
			}
		}
		// after shutdown every call returns the closed error without blocking
		if _, err := eng.Begin(nil, true); !errors.Is(err, lungo.ErrEngineClosed) {
			end = append(end, fmt.Sprintf("after-close:Begin returned %v", err))
		}
		if _, err := eng.Begin(nil, false); !errors.Is(err, lungo.ErrEngineClosed) {
			end = append(end, fmt.Sprintf("after-close:Begin(read) returned %v", err))
		}
		if err := eng.Commit(lungo.NewTransaction(eng.VerifCatalog())); !errors.Is(err, lungo.ErrEngineClosed) {
			end = append(end, fmt.Sprintf("after-close:Commit returned %v", err))
		}
		if _, err := w.C("d", "c").InsertOne(w.Ctx, bD("_id", "late")); !errors.Is(err, lungo.ErrEngineClosed) {
			end = append(end, fmt.Sprintf("after-close:InsertOne returned %v", err))
		}
		if _, err := w.C("d", "c").Watch(w.Ctx, bson.A{}); !errors.Is(err, lungo.ErrEngineClosed) {
			end = append(end, fmt.Sprintf("after-close:Watch returned %v", err))
		}
		// ... through every kind of driver call, reads included (in every execution in which the engine was closed by an
		// actor, and in every 32nd of the others: there the shutdown happens after the actors and does not depend on them)
		if c16Runs++; closedByActor || c16Runs%32 == 0 {
			cl := w.C("d", "c")
			after := map[string]error{}
			_, after["Find"] = cl.Find(w.Ctx, bD())
			after["FindOne"] = cl.FindOne(w.Ctx, bD()).Err()
			_, after["CountDocuments"] = cl.CountDocuments(w.Ctx, bD())
			_, after["EstimatedDocumentCount"] = cl.EstimatedDocumentCount(w.Ctx)
			_, after["Distinct"] = cl.Distinct(w.Ctx, "_id", bD())
			_, after["UpdateOne"] = cl.UpdateOne(w.Ctx, bD(), bD("$set", bD("z", int32(1))))
			_, after["DeleteMany"] = cl.DeleteMany(w.Ctx, bD())
			after["FindOneAndDelete"] = cl.FindOneAndDelete(w.Ctx, bD()).Err()
			_, after["Indexes.List"] = cl.Indexes().List(w.Ctx)
			_, after["Indexes.CreateOne"] = cl.Indexes().CreateOne(w.Ctx, mongo.IndexModel{Keys: bD("z", int32(1))})
			after["Drop"] = cl.Drop(w.Ctx)
			_, after["ListCollectionNames"] = w.Client.Database("d").ListCollectionNames(w.Ctx, bD())
			_, after["ListDatabaseNames"] = w.Client.ListDatabaseNames(w.Ctx, bD())
			if sess, err := w.Client.StartSession(); err == nil {
				after["StartTransaction"] = sess.StartTransaction()
				sess.EndSession(w.Ctx)
			}
			var names []string
			for n := range after {
				names = append(names, n)
			}
			sort.Strings(names)
			for _, n := range names {
				if !errors.Is(after[n], lungo.ErrEngineClosed) {
					end = append(end, fmt.Sprintf("after-close:%s returned %v", n, after[n]))
				}
			}
		}
		eng.Close() // closing twice is harmless
		lungo.VerifForget(eng)
	})
	return res, env, end
}

func init() {
	Register("C16", "model_checking", func(c *Ctx) {
		r := c.R
		if !sched.Available {
			r.Broken("binary built without the scheduler overlay")
			return
		}
		actors := c16Actors()
		// scenarios: all multisets of 2 actors (quick) / plus all multisets of 3 at a lower bound (thorough)
		type scen struct {
			idx   []int
			bound int
		}
		var scs []scen
		// Z (two threads on one session) is not part of the multiset product: it gets scenarios of its own below
		zi, ui := -1, -1
		for i, a := range actors {
			if a.name[0] == 'Z' {
				zi = i
			}
			if a.name[0] == 'U' {
				ui = i
			}
		}
		inProduct := func(i int) bool { return i != zi && i != ui }
		for i := range actors {
			for j := i; j < len(actors); j++ {
				if inProduct(i) && inProduct(j) {
					scs = append(scs, scen{[]int{i, j}, 2})
				}
			}
		}
		if !c.Quick() {
			for i := range scs {
				scs[i].bound = 3
			}
			for i := range actors {
				for j := i; j < len(actors); j++ {
					for k := j; k < len(actors); k++ {
						if inProduct(i) && inProduct(j) && inProduct(k) {
							scs = append(scs, scen{[]int{i, j, k}, 1})
						}
					}
				}
			}
		} else {
			// a few three-actor scenarios around shutdown and cancellation at bound 1
			name := func(p string) int {
				for i, a := range actors {
					if strings.HasPrefix(a.name, p) {
						return i
					}
				}
				panic(p)
			}
			for _, t := range [][]string{{"D", "X", "C"}, {"S", "E", "C"}, {"W", "V", "C"}, {"F", "T", "D"}, {"P", "X", "D"}, {"Q", "S", "T"}, {"Y", "D", "C"}} {
				scs = append(scs, scen{[]int{name(t[0] + " "), name(t[1] + " "), name(t[2] + " ")}, 1})
			}
		}
		// Z alone and next to a plain writer, a committing session, a closing engine
		for _, other := range []string{"", "D ", "S ", "C "} {
			idx := []int{zi}
			for i, a := range actors {
				if other != "" && strings.HasPrefix(a.name, other) {
					idx = append(idx, i)
				}
			}
			b := 2
			if !c.Quick() {
				b = 3
			}
			scs = append(scs, scen{idx, b})
		}
		// U alone and next to a plain writer
		for _, other := range []string{"", "D "} {
			idx := []int{ui}
			for i, a := range actors {
				if other != "" && strings.HasPrefix(a.name, other) {
					idx = append(idx, i)
				}
			}
			scs = append(scs, scen{idx, 2})
		}
		// scenarios with four or more actor threads (two of the two-thread actors E, X, V) get one preemption less
		for i := range scs {
			threads := 0
			for _, k := range scs[i].idx {
				threads++
				switch actors[k].name[0] {
				case 'E', 'X', 'V', 'Y', 'Z':
					threads++
				}
			}
			if threads >= 4 && len(scs[i].idx) == 2 {
				scs[i].bound--
			}
		}
		outs := e3Shards(c, len(scs), func(i int, col *shardCollector) *shardOut {
			sc := scs[i]
			var as []c16Actor
			var names []string
			for _, k := range sc.idx {
				as = append(as, actors[k])
				names = append(names, strings.Fields(actors[k].name)[0])
			}
			out := col.out
			out.Name = strings.Join(names, "+")
			scOut := map[string]bool{}
			ex := &sched.Explorer{Bound: sc.bound, MaxExec: 300000,
				Exec: func(prefix, expectN []int) *sched.Result {
					res, env, end := c16Run(as, prefix, expectN)
					rep := schedReplay(res)
					rep["scenario"] = out.Name
					if cls, what := e3Problem(res); cls != "" {
						col.Violation(cls+":"+out.Name, out.Name+": "+what+"; schedule "+res.Schedule()+"; observations "+fmt.Sprint(envObs(env)), rep)
						return res
					}
					for _, b := range append(append([]string{}, env.bad...), end...) {
						col.Violation(strings.SplitN(b, ":", 2)[0]+":"+out.Name, out.Name+": "+b+"; schedule "+res.Schedule()+"; observations "+fmt.Sprint(env.obs), rep)
					}
					o := append([]string{}, env.obs...)
					sort.Strings(o)
					scOut[strings.Join(o, ",")] = true
					return res
				},
				Visit: func(res *sched.Result) bool { return !col.TooMany() },
			}
			if rname, choices, ok := e3Replay(c); ok {
				if rname != out.Name {
					out.Exhaustive = false
					return out // the replay file names another scenario
				}
				ex.Only = choices
			}
			st := ex.Explore()
			out.Executions, out.Transitions, out.MaxPoints, out.Exhaustive = st.Executions, st.Transitions, st.MaxPoints, st.Exhaustive
			out.Extra["racy_selects"], out.Extra["racy_diverged"], out.Extra["owned_select_choices"] = st.RacySelects, st.RacyDiverged, st.Picks
			out.Extra["select_retries"], out.Extra["unreachable_select_branches"], out.Extra["unowned_divergences"] = st.Retries, st.Unreachable, st.Unowned
			for k, v := range st.PerBound {
				out.PerBound[fmt.Sprint(k)] = v
			}
			for o := range scOut {
				out.Outcomes = append(out.Outcomes, o)
			}
			sort.Strings(out.Outcomes)
			return out
		})
		e3Merge(c, outs, 2)
		r.Set("scenarios", int64(len(scs)))
		r.Set("actors", func() []string {
			var n []string
			for _, a := range actors {
				n = append(n, a.name)
			}
			return n
		}())
		r.Set("rule", "E3: for every multiset of 2 actors (and selected/all multisets of 3) every interleaving up to the preemption bound; protocol invariants at every scheduling point, probe write and closed-engine behaviour at the end of every execution; states = distinct (scenario, observation multiset) pairs; deadlock = some thread parked with nobody enabled")
		r.Assume("'promptly' and 'immediately' are decided in scheduling points, not seconds: a call that would block parks its thread and is reported as deadlock", "the 1 minute token timeout never fires in virtual time", "the expiry loop is the real goroutine, adopted by the scheduler through the verif thread hooks and driven by granted ticks")
		if r.Get("evaluations") == 0 {
			r.Broken("no executions")
		}
	})
}

func envObs(e *c16Env) []string {
	if e == nil {
		return nil
	}
	return e.obs
}
