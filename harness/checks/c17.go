package checks

import (
	"bytes"
	"fmt"
	"reflect"
	"strings"

	"go.mongodb.org/mongo-driver/bson"
	"go.mongodb.org/mongo-driver/bson/primitive"
	"go.mongodb.org/mongo-driver/mongo"
	"go.mongodb.org/mongo-driver/mongo/options"

	"github.com/256dpi/lungo"

	"verif/internal/par"
	"verif/internal/refmodel"
	"verif/internal/world"
)

// ---------------------------------------------------------------------------
// C17 — caller-owned values and database state never alias each other.

// c17Slot is one mutable place inside a caller-owned value.
type c17Slot struct {
	path   string
	mutate func()
}

// c17Slots enumerates every mutable slot reachable from v: slice elements, map entries, bytes, bson.E keys and values, struct fields behind pointers.
func c17Slots(v interface{}, path string) []c17Slot {
	var out []c17Slot
	seen := map[uintptr]bool{}
	var walk func(rv reflect.Value, path string)
	sentinel := func(t reflect.Type) (reflect.Value, bool) {
		switch t.Kind() {
		case reflect.Interface:
			return reflect.ValueOf("MUTATED-BY-CALLER"), true
		case reflect.String:
			return reflect.ValueOf("MUTATED-BY-CALLER").Convert(t), true
		case reflect.Uint8:
			return reflect.ValueOf(uint8(0xEE)).Convert(t), true
		case reflect.Int, reflect.Int32, reflect.Int64:
			return reflect.ValueOf(int64(-77777)).Convert(t), true
		case reflect.Float64:
			return reflect.ValueOf(float64(-7.5)).Convert(t), true
		case reflect.Bool:
			return reflect.ValueOf(true).Convert(t), true
		}
		return reflect.Value{}, false
	}
	walk = func(rv reflect.Value, path string) {
		if !rv.IsValid() {
			return
		}
		switch rv.Kind() {
		case reflect.Interface:
			if !rv.IsNil() {
				walk(rv.Elem(), path)
			}
		case reflect.Ptr:
			if !rv.IsNil() {
				if seen[rv.Pointer()] {
					return
				}
				seen[rv.Pointer()] = true
				walk(rv.Elem(), path)
			}
		case reflect.Slice:
			if rv.IsNil() || rv.Len() == 0 {
				return
			}
			for i := 0; i < rv.Len(); i++ {
				el := rv.Index(i)
				p := fmt.Sprintf("%s[%d]", path, i)
				if rv.Type().Elem().Kind() == reflect.Uint8 && i > 0 {
					continue // one byte per byte slice is enough
				}
				if s, ok := sentinel(el.Type()); ok && el.CanSet() {
					el := el
					// for interface elements holding a bool the sentinel must differ in any case
					out = append(out, c17Slot{p, func() {
						if el.Kind() == reflect.Uint8 {
							el.SetUint(uint64(^uint8(el.Uint())))
							return
						}
						el.Set(s)
					}})
				}
				walk(el, p)
			}
		case reflect.Map:
			for _, k := range rv.MapKeys() {
				k := k
				p := fmt.Sprintf("%s[%v]", path, k.Interface())
				if s, ok := sentinel(rv.Type().Elem()); ok {
					m := rv
					out = append(out, c17Slot{p, func() { m.SetMapIndex(k, s) }})
				}
				walk(rv.MapIndex(k), p)
			}
			m := rv
			if s, ok := sentinel(rv.Type().Elem()); ok && rv.Type().Key().Kind() == reflect.String {
				out = append(out, c17Slot{path + "[+new key]", func() { m.SetMapIndex(reflect.ValueOf("added-by-caller").Convert(m.Type().Key()), s) }})
			}
		case reflect.Struct:
			for i := 0; i < rv.NumField(); i++ {
				f := rv.Field(i)
				if !f.CanSet() {
					// a struct held by value inside an interface: its own fields are copies, but slices, maps and
					// pointers inside it still share memory with whoever handed it out
					if rv.Type().Field(i).IsExported() {
						walk(f, path+"."+rv.Type().Field(i).Name)
					}
					continue
				}
				p := path + "." + rv.Type().Field(i).Name
				if s, ok := sentinel(f.Type()); ok && f.Kind() != reflect.Interface {
					f := f
					out = append(out, c17Slot{p, func() { f.Set(s) }})
				} else if ok {
					f := f
					out = append(out, c17Slot{p, func() { f.Set(s) }})
				}
				walk(f, p)
			}
		}
	}
	rv := reflect.ValueOf(v)
	if rv.Kind() != reflect.Ptr && rv.Kind() != reflect.Map && rv.Kind() != reflect.Slice {
		// make it addressable
		pv := reflect.New(rv.Type())
		pv.Elem().Set(rv)
		rv = pv
	}
	walk(rv, path)
	return out
}

// c17Values drops the re-observation handles from a result list (they are not caller-owned values).
func c17Values(res []interface{}) []interface{} {
	var out []interface{}
	for _, x := range res {
		if _, ok := x.(c17Again); !ok {
			out = append(out, x)
		}
	}
	return out
}

// c17Render renders values with their Go types (deep), to detect any change.
func c17Render(vs []interface{}) string {
	var sb strings.Builder
	for _, v := range vs {
		fmt.Fprintf(&sb, "%#v\n", v)
	}
	return sb.String()
}

type c17Profile struct {
	ID   int32             `bson:"_id"`
	Tags []string          `bson:"tags"`
	Meta map[string]string `bson:"meta"`
	Blob []byte            `bson:"blob"`
}

// c17Again is a re-observation through a handle the call returned (the same SingleResult, cursor or stream used
// once more): it is evaluated before and after the caller's mutation like every other observation.
type c17Again func() string

type c17Call struct {
	name string
	args func() []interface{}
	// do performs the call and returns the caller-visible results (containers that the caller may modify)
	do func(w *world.World, a []interface{}) []interface{}
}

func c17Setup(w *world.World) {
	c := w.C("d", "c")
	docs := []interface{}{
		bD("_id", int32(1), "a", bD("b", bson.A{int32(1), int32(2)}), "tags", bson.A{"x", "y"}, "blob", primitive.Binary{Data: []byte{1, 2, 3}}, "n", int32(1)),
		bD("_id", bD("k", int32(1), "l", bson.A{int32(7)}), "a", bD("b", bson.A{int32(3)}), "tags", bson.A{"y"}, "n", int32(2)),
		bD("_id", primitive.Binary{Data: []byte{9, 9}}, "a", bD("b", bson.A{}), "tags", bson.A{bD("t", bson.A{int32(1)})}, "n", int32(3)),
		// arrays directly inside arrays
		bD("_id", int32(4), "grid", bson.A{bson.A{int32(1), int32(2)}, bson.A{int32(3), bson.A{int32(4)}}}, "n", int32(4), "unsorted", bson.A{"c", "a", "b", "a"}),
	}
	if _, err := c.InsertMany(w.Ctx, docs); err != nil {
		panic(err)
	}
	if _, err := c.Indexes().CreateOne(w.Ctx, mongo.IndexModel{Keys: bD("tags", int32(1))}); err != nil {
		panic(err)
	}
	if _, err := c.Indexes().CreateOne(w.Ctx, mongo.IndexModel{Keys: bD("blob", int32(1)), Options: options.Index().SetName("blob_idx").SetPartialFilterExpression(bD("n", bD("$gte", int32(0))))}); err != nil {
		panic(err)
	}
}

// c17Observe is the re-observation: byte dump of everything plus the results of a fixed battery of reads.
func c17Observe(w *world.World) string {
	var sb strings.Builder
	sb.WriteString(w.DumpAll())
	c := w.C("d", "c")
	for _, q := range []bson.D{bD(), bD("tags", "y"), bD("a.b", int32(1)), bD("blob", primitive.Binary{Data: []byte{1, 2, 3}}), bD("_id", bD("k", int32(1), "l", bson.A{int32(7)})), bD("_id", primitive.Binary{Data: []byte{9, 9}}), bD("tags", "new")} {
		docs, err := findAllQ(w, c, q)
		fmt.Fprintf(&sb, "find %s -> %v %v\n", J(q), docs, err)
	}
	for _, f := range []string{"tags", "a.b", "_id", "blob"} {
		vals, err := c.Distinct(w.Ctx, f, bD())
		fmt.Fprintf(&sb, "distinct %s -> %s %v\n", f, J(bson.A(vals)), err)
	}
	if cur, err := c.Indexes().List(w.Ctx); err == nil {
		var specs []bson.D
		_ = cur.All(w.Ctx, &specs)
		fmt.Fprintf(&sb, "indexes -> %s\n", J(specs))
	}
	for _, p := range append(coherenceProblems(w.Engine.Catalog()), uniqueProblems(w.Engine.Catalog())...) {
		fmt.Fprintf(&sb, "index problem: %s %s\n", p.class, p.what)
	}
	return sb.String()
}

func findAllQ(w *world.World, c lungo.ICollection, q bson.D) ([]string, error) {
	cur, err := c.Find(w.Ctx, q, options.Find().SetSort(bD("n", int32(1))))
	if err != nil {
		return nil, err
	}
	var docs []bson.D
	if err := cur.All(w.Ctx, &docs); err != nil {
		return nil, err
	}
	var out []string
	for _, d := range docs {
		out = append(out, J(d))
	}
	return out, nil
}

func c17Calls() []c17Call {
	i := func(v int) int32 { return int32(v) }
	docID := func() bson.D { return bD("k", i(1), "l", bson.A{i(7)}) }
	binID := func() primitive.Binary { return primitive.Binary{Data: []byte{9, 9}} }
	nested := func(id interface{}) bson.D {
		return bD("_id", id, "a", bD("b", bson.A{i(5), bD("deep", bson.A{"z"})}), "tags", bson.A{"new", "y"}, "blob", primitive.Binary{Data: []byte{4, 5}}, "raw", []interface{}{"p", bson.M{"m": []interface{}{i(1)}}})
	}
	coll := func(w *world.World) lungo.ICollection { return w.C("d", "c") }
	var cs []c17Call
	add := func(name string, args func() []interface{}, do func(w *world.World, a []interface{}) []interface{}) {
		cs = append(cs, c17Call{name, args, do})
	}
	// ---- writes: arguments may be reused / modified afterwards; returned ids may be modified
	add("InsertOne(bson.D with nested containers, document _id)", func() []interface{} { return []interface{}{nested(bD("k", i(2), "l", bson.A{i(8)}))} }, func(w *world.World, a []interface{}) []interface{} {
		res, err := coll(w).InsertOne(w.Ctx, a[0])
		if err != nil {
			panic(err)
		}
		return []interface{}{res}
	})
	add("InsertOne(bson.M with nested containers, binary _id)", func() []interface{} {
		return []interface{}{bson.M{"_id": primitive.Binary{Data: []byte{8}}, "a": bson.M{"b": []interface{}{i(1), bson.M{"c": bson.A{i(2)}}}}, "tags": bson.A{"new"}, "blob": []byte{6, 7}}}
	}, func(w *world.World, a []interface{}) []interface{} {
		res, err := coll(w).InsertOne(w.Ctx, a[0])
		if err != nil {
			panic(err)
		}
		return []interface{}{res}
	})
	add("InsertOne(struct pointer)", func() []interface{} {
		return []interface{}{&c17Profile{ID: 50, Tags: []string{"new", "s"}, Meta: map[string]string{"k": "v"}, Blob: []byte{1, 1}}}
	}, func(w *world.World, a []interface{}) []interface{} {
		res, err := coll(w).InsertOne(w.Ctx, a[0])
		if err != nil {
			panic(err)
		}
		return []interface{}{res}
	})
	add("InsertMany([]interface{} of documents)", func() []interface{} {
		return []interface{}{[]interface{}{nested(i(60)), nested(bD("k", i(3))), bson.M{"_id": i(61), "tags": []interface{}{"new"}}}}
	}, func(w *world.World, a []interface{}) []interface{} {
		res, err := coll(w).InsertMany(w.Ctx, a[0].([]interface{}))
		if err != nil {
			panic(err)
		}
		return []interface{}{res}
	})
	upd := func(name string, filter func() interface{}, update func() interface{}, upsert bool, many bool) {
		add(name, func() []interface{} { return []interface{}{filter(), update()} }, func(w *world.World, a []interface{}) []interface{} {
			opt := options.Update().SetUpsert(upsert)
			var res *mongo.UpdateResult
			var err error
			if many {
				res, err = coll(w).UpdateMany(w.Ctx, a[0], a[1], opt)
			} else {
				res, err = coll(w).UpdateOne(w.Ctx, a[0], a[1], opt)
			}
			if err != nil {
				panic(err)
			}
			return []interface{}{res}
		})
	}
	upd("UpdateMany($set nested document and array operands)", func() interface{} { return bD("n", bD("$gte", i(1))) }, func() interface{} {
		return bD("$set", bD("conf", bD("list", bson.A{i(1), bD("x", bson.A{"q"})}), "tags", bson.A{"new", "y"}, "blob", primitive.Binary{Data: []byte{3}}))
	}, false, true)
	upd("UpdateOne($push/$addToSet with $each arrays)", func() interface{} { return bD("_id", i(1)) }, func() interface{} {
		return bD("$push", bD("a.b", bD("$each", bson.A{bD("p", bson.A{i(1)}), i(9)})), "$addToSet", bD("tags", bD("$each", bson.A{"new", bD("t", bson.A{i(2)})})))
	}, false, false)
	upd("UpdateOne(upsert seeded from a filter with nested equality values)", func() interface{} {
		return bD("_id", bD("k", i(9), "l", bson.A{i(1)}), "origin", bD("path", bson.A{"a", "b"}), "tags", bson.A{"new"})
	}, func() interface{} {
		return bD("$set", bD("n", i(9)), "$setOnInsert", bD("first", bson.A{bD("t", i(1))}))
	}, true, false)
	upd("UpdateOne(bson.M filter and update, upsert)", func() interface{} {
		return bson.M{"_id": bson.M{"k": i(10)}, "origin": bson.M{"p": []interface{}{"a"}}}
	}, func() interface{} {
		return bson.M{"$set": bson.M{"conf": bson.M{"list": []interface{}{i(1), bson.M{"x": bson.A{"q"}}}}, "tags": bson.A{"new"}}}
	}, true, false)
	upd("UpdateOne on document-valued _id ($set array)", func() interface{} { return bD("_id", docID()) }, func() interface{} { return bD("$set", bD("tags", bson.A{"new", "w"})) }, false, false)
	add("UpdateMany(array filters)", func() []interface{} {
		return []interface{}{bD("_id", i(1)), bD("$set", bD("a.b.$[e]", bD("v", bson.A{i(1)}))), []interface{}{bD("e", bD("$gte", i(2)))}}
	}, func(w *world.World, a []interface{}) []interface{} {
		res, err := coll(w).UpdateMany(w.Ctx, a[0], a[1], options.Update().SetArrayFilters(options.ArrayFilters{Filters: a[2].([]interface{})}))
		if err != nil {
			panic(err)
		}
		return []interface{}{res}
	})
	add("ReplaceOne(replacement with nested containers)", func() []interface{} { return []interface{}{bD("_id", binID()), stripID(nested(nil))} }, func(w *world.World, a []interface{}) []interface{} {
		res, err := coll(w).ReplaceOne(w.Ctx, a[0], a[1])
		if err != nil {
			panic(err)
		}
		return []interface{}{res}
	})
	add("ReplaceOne(upsert, document _id from the filter)", func() []interface{} {
		return []interface{}{bD("_id", bD("k", i(20), "l", bson.A{i(2)})), stripID(nested(nil))}
	}, func(w *world.World, a []interface{}) []interface{} {
		res, err := coll(w).ReplaceOne(w.Ctx, a[0], a[1], options.Replace().SetUpsert(true))
		if err != nil {
			panic(err)
		}
		return []interface{}{res}
	})
	add("FindOneAndUpdate(upsert, ReturnDocument after, decoded result)", func() []interface{} {
		return []interface{}{bD("_id", bD("k", i(30))), bD("$set", bD("tags", bson.A{"new", bD("t", bson.A{i(1)})}, "blob", primitive.Binary{Data: []byte{2, 2}}))}
	}, func(w *world.World, a []interface{}) []interface{} {
		var out bson.D
		if err := coll(w).FindOneAndUpdate(w.Ctx, a[0], a[1], options.FindOneAndUpdate().SetUpsert(true).SetReturnDocument(options.After)).Decode(&out); err != nil {
			panic(err)
		}
		return []interface{}{&out}
	})
	add("FindOneAndReplace(decoded previous document)", func() []interface{} { return []interface{}{bD("_id", i(1)), stripID(nested(nil))} }, func(w *world.World, a []interface{}) []interface{} {
		var out bson.M
		if err := coll(w).FindOneAndReplace(w.Ctx, a[0], a[1]).Decode(&out); err != nil {
			panic(err)
		}
		return []interface{}{out}
	})
	add("FindOneAndDelete(decoded document)", func() []interface{} { return []interface{}{bD("_id", docID())} }, func(w *world.World, a []interface{}) []interface{} {
		var out bson.D
		if err := coll(w).FindOneAndDelete(w.Ctx, a[0]).Decode(&out); err != nil {
			panic(err)
		}
		return []interface{}{&out}
	})
	add("BulkWrite(insert, update, replace-upsert models)", func() []interface{} {
		return []interface{}{nested(bD("k", i(40))), bD("$set", bD("tags", bson.A{"new", "b"})), stripID(nested(nil)), bD("_id", bD("k", i(41), "l", bson.A{i(4)}))}
	}, func(w *world.World, a []interface{}) []interface{} {
		res, err := coll(w).BulkWrite(w.Ctx, []mongo.WriteModel{
			mongo.NewInsertOneModel().SetDocument(a[0]),
			mongo.NewUpdateManyModel().SetFilter(bD("n", bD("$gte", i(2)))).SetUpdate(a[1]),
			mongo.NewReplaceOneModel().SetFilter(a[3]).SetReplacement(a[2]).SetUpsert(true),
		})
		if err != nil {
			panic(err)
		}
		return []interface{}{res}
	})
	add("Indexes().CreateOne(keys and partial filter) + List", func() []interface{} {
		return []interface{}{bD("a.b", i(1), "n", i(-1)), bD("tags", bD("$in", bson.A{"x", "new"}))}
	}, func(w *world.World, a []interface{}) []interface{} {
		if _, err := coll(w).Indexes().CreateOne(w.Ctx, mongo.IndexModel{Keys: a[0], Options: options.Index().SetPartialFilterExpression(a[1]).SetName("ix")}); err != nil {
			panic(err)
		}
		cur, err := coll(w).Indexes().List(w.Ctx)
		if err != nil {
			panic(err)
		}
		var specs []bson.M
		if err := cur.All(w.Ctx, &specs); err != nil {
			panic(err)
		}
		var specsD []bson.D
		cur2, _ := coll(w).Indexes().List(w.Ctx)
		_ = cur2.All(w.Ctx, &specsD)
		return []interface{}{specs, specsD}
	})
	// ---- reads: filters may be modified afterwards, everything handed back may be modified
	add("Find + All into []bson.D and []bson.M (read only)", func() []interface{} { return []interface{}{bD("tags", bD("$in", bson.A{"y", "x"}))} }, func(w *world.World, a []interface{}) []interface{} {
		cur, err := coll(w).Find(w.Ctx, a[0], options.Find().SetSort(bD("n", i(1))))
		if err != nil {
			panic(err)
		}
		var ds []bson.D
		if err := cur.All(w.Ctx, &ds); err != nil {
			panic(err)
		}
		cur2, _ := coll(w).Find(w.Ctx, a[0])
		var ms []bson.M
		_ = cur2.All(w.Ctx, &ms)
		return []interface{}{ds, ms}
	})
	add("Find + Next/Decode into bson.D, struct and Current (read only)", func() []interface{} { return []interface{}{bD("_id", i(1))} }, func(w *world.World, a []interface{}) []interface{} {
		cur, err := coll(w).Find(w.Ctx, a[0])
		if err != nil || !cur.Next(w.Ctx) {
			panic(fmt.Sprint("find: ", err))
		}
		var d bson.D
		_ = cur.Decode(&d)
		var p struct {
			Tags []string `bson:"tags"`
			Blob []byte   `bson:"blob"`
		}
		_ = cur.Decode(&p)
		again := c17Again(func() string {
			var d2 bson.D
			err := cur.Decode(&d2)
			return fmt.Sprintf("same cursor position again: %s %v", J(d2), err)
		})
		return []interface{}{&d, &p, again}
	})
	add("FindOne + Decode / DecodeBytes (projection) (read only)", func() []interface{} { return []interface{}{bD("_id", binID()), bD("a", i(1), "tags", i(1))} }, func(w *world.World, a []interface{}) []interface{} {
		sr := coll(w).FindOne(w.Ctx, a[0], options.FindOne().SetProjection(a[1]))
		var d bson.D
		if err := sr.Decode(&d); err != nil {
			panic(err)
		}
		raw, _ := sr.DecodeBytes()
		again := c17Again(func() string {
			var d2 bson.D
			err := sr.Decode(&d2)
			r2, err2 := sr.DecodeBytes()
			return fmt.Sprintf("same SingleResult again: %s %v %x %v", J(d2), err, []byte(r2), err2)
		})
		return []interface{}{&d, []byte(raw), again}
	})
	add("Distinct(values of document-valued and array fields) (read only)", func() []interface{} { return []interface{}{bD("n", bD("$lte", i(4)))} }, func(w *world.World, a []interface{}) []interface{} {
		var out []interface{}
		for _, f := range []string{"_id", "a", "tags", "blob", "unsorted", "grid"} {
			vals, err := coll(w).Distinct(w.Ctx, f, a[0])
			if err != nil {
				panic(err)
			}
			out = append(out, vals)
		}
		return out
	})
	add("CountDocuments / DeleteMany (filter reused afterwards)", func() []interface{} {
		return []interface{}{bD("a.b", bD("$in", bson.A{i(3), i(4)})), bson.M{"tags": bson.M{"$all": []interface{}{"y"}}}}
	}, func(w *world.World, a []interface{}) []interface{} {
		if _, err := coll(w).CountDocuments(w.Ctx, a[1]); err != nil {
			panic(err)
		}
		if _, err := coll(w).DeleteMany(w.Ctx, a[0]); err != nil {
			panic(err)
		}
		return nil
	})
	add("Watch + event + ResumeToken", func() []interface{} { return []interface{}{nested(bD("k", i(70)))} }, func(w *world.World, a []interface{}) []interface{} {
		s, err := coll(w).Watch(w.Ctx, bson.A{})
		if err != nil {
			panic(err)
		}
		if _, err := coll(w).InsertOne(w.Ctx, a[0]); err != nil {
			panic(err)
		}
		if !s.TryNext(w.Ctx) {
			panic("no event")
		}
		var ev bson.D
		_ = s.Decode(&ev)
		tok := s.ResumeToken()
		again := c17Again(func() string {
			var ev2 bson.D
			err := s.Decode(&ev2)
			return fmt.Sprintf("same stream event again: %s %v token %x", J(normEventD(ev2)), err, []byte(s.ResumeToken()))
		})
		return []interface{}{&ev, []byte(tok), again}
	})
	add("Find / FindOne with exclusions, $slice and $elemMatch below embedded documents (read only)", func() []interface{} {
		return []interface{}{bD("n", bD("$gte", i(1))), bD("a.b", i(0), "tags", bD("$slice", i(1))), bD("a.b", bD("$slice", bson.A{i(1), i(1)})), bD("tags", bD("$elemMatch", bD("$eq", "y"))), bD("a.b", i(0), "blob", i(0))}
	}, func(w *world.World, a []interface{}) []interface{} {
		var out []interface{}
		for _, proj := range a[1:] {
			cur, err := coll(w).Find(w.Ctx, a[0], options.Find().SetProjection(proj).SetSort(bD("n", i(1))))
			if err != nil {
				panic(err)
			}
			var ds []bson.D
			if err := cur.All(w.Ctx, &ds); err != nil {
				panic(err)
			}
			var one bson.M
			if err := coll(w).FindOne(w.Ctx, bD("_id", i(1)), options.FindOne().SetProjection(proj)).Decode(&one); err != nil {
				panic(err)
			}
			out = append(out, ds, one)
		}
		return out
	})
	add("Find / FindOne with index paths into arrays of arrays (read only)", func() []interface{} {
		return []interface{}{bD("_id", i(4)), bD("grid.0.1", i(0)), bD("grid.1", bD("$slice", i(1))), bD("grid.1.1.0", i(0), "n", i(0))}
	}, func(w *world.World, a []interface{}) []interface{} {
		var out []interface{}
		for _, proj := range a[1:] {
			var one bson.D
			if err := coll(w).FindOne(w.Ctx, a[0], options.FindOne().SetProjection(proj)).Decode(&one); err != nil {
				panic(err)
			}
			out = append(out, &one)
		}
		return out
	})
	// ---- the engine-level API below the driver layer: inserted documents and replacements are copied in (update
	// documents are not: the copy barrier for those is the driver layer's Transform, and the property claims no more)
	add("Transaction.Insert / Replace with caller-owned documents holding arrays of arrays", func() []interface{} {
		return []interface{}{
			&bson.D{{Key: "_id", Value: i(70)}, {Key: "grid", Value: bson.A{bson.A{i(1), i(2)}, bson.A{bD("x", bson.A{i(3)})}}}},
			&bson.D{{Key: "grid", Value: bson.A{bson.A{i(5)}, bson.A{bson.A{i(6)}}}}, {Key: "n", Value: i(1)}},
			&bson.D{{Key: "_id", Value: bD("tenant", "t", "seq", bson.A{i(1), i(2)})}, {Key: "n", Value: i(-77)}, {Key: "grid", Value: bson.A{bson.A{i(9)}}}},
		}
	}, func(w *world.World, a []interface{}) []interface{} {
		txn, err := w.Engine.Begin(w.Ctx, true)
		if err != nil {
			panic(err)
		}
		defer w.Engine.Abort(txn)
		h := lungo.Handle{"d", "c"}
		if _, err := txn.Insert(h, []*bson.D{a[0].(*bson.D)}, true); err != nil {
			panic(err)
		}
		q1 := bD("_id", i(1))
		if _, err := txn.Replace(h, &q1, nil, a[1].(*bson.D), false); err != nil {
			panic(err)
		}
		// an upserting replacement that matches nothing and carries a document-valued _id
		qn := bD("n", i(-77))
		if _, err := txn.Replace(h, &qn, nil, a[2].(*bson.D), true); err != nil {
			panic(err)
		}
		if err := w.Engine.Commit(txn); err != nil {
			panic(err)
		}
		return nil
	})
	add("Transaction.Bulk with caller-owned insert and replace documents", func() []interface{} {
		return []interface{}{
			&bson.D{{Key: "_id", Value: i(71)}, {Key: "tags", Value: bson.A{"b1", "b2"}}, {Key: "grid", Value: bson.A{bson.A{i(1)}}}},
			&bson.D{{Key: "tags", Value: bson.A{"b3"}}, {Key: "n", Value: i(1)}},
			&bson.D{{Key: "tags", Value: bson.A{"b4", "b5"}}, {Key: "n", Value: i(-78)}},
		}
	}, func(w *world.World, a []interface{}) []interface{} {
		txn, err := w.Engine.Begin(w.Ctx, true)
		if err != nil {
			panic(err)
		}
		defer w.Engine.Abort(txn)
		q1 := bD("_id", i(1))
		res, err := txn.Bulk(lungo.Handle{"d", "c"}, []lungo.Operation{
			{Opcode: lungo.Insert, Document: a[0].(*bson.D)},
			{Opcode: lungo.Replace, Filter: &q1, Document: a[1].(*bson.D)},
			// an insert without _id: the generated one belongs to the stored copy
			{Opcode: lungo.Insert, Document: a[2].(*bson.D)},
		}, true)
		if err != nil {
			panic(err)
		}
		for _, r := range res {
			if r.Error != nil {
				panic(r.Error)
			}
		}
		if err := w.Engine.Commit(txn); err != nil {
			panic(err)
		}
		return nil
	})
	// ---- listings are built for the caller
	// the lists an engine-level Find hands back (with and without filter, sort, window) are the caller's
	add("Transaction.Find: result lists (read only)", func() []interface{} { return nil }, func(w *world.World, a []interface{}) []interface{} {
		txn, err := w.Engine.Begin(w.Ctx, false)
		if err != nil {
			panic(err)
		}
		h := lungo.Handle{"d", "c"}
		var out []interface{}
		for _, q := range []struct {
			query, sort bson.D
			skip, limit int
		}{{bD(), nil, 0, 0}, {bD(), nil, 1, 2}, {bD(), nil, 0, 1}, {bD("_id", bD("$gte", i(0))), nil, 0, 0}, {bD(), bD("_id", i(-1)), 0, 0}} {
			query := q.query
			var sort *bson.D
			if q.sort != nil {
				srt := q.sort
				sort = &srt
			}
			res, err := txn.Find(h, &query, sort, q.skip, q.limit)
			if err != nil {
				panic(err)
			}
			// the list itself is the caller's (reorder, overwrite, append); the documents in it are stored documents
			// and belong to the engine at this level
			list := res.Matched
			for k := 0; k+1 < len(list); k += 2 {
				list[k], list[k+1] = list[k+1], list[k]
			}
			extra := bD("_id", "appended-by-caller")
			list = append(list, &extra)
			_ = list
			out = append(out, len(res.Matched))
		}
		return out
	})
	add("Transaction.ListIndexes / ListCollections / ListDatabases + Index.Config (read only)", func() []interface{} { return nil }, func(w *world.World, a []interface{}) []interface{} {
		txn, err := w.Engine.Begin(w.Ctx, false)
		if err != nil {
			panic(err)
		}
		h := lungo.Handle{"d", "c"}
		specs, err := txn.ListIndexes(h)
		if err != nil {
			panic(err)
		}
		colls, err := txn.ListCollections(h, &bson.D{})
		if err != nil {
			panic(err)
		}
		dbs, err := txn.ListDatabases(&bson.D{})
		if err != nil {
			panic(err)
		}
		var cfgs []interface{}
		for _, name := range []string{"_id_", "tags_1", "blob_idx"} {
			cfg := txn.Catalog().Namespaces[h].Indexes[name].Config()
			cfgs = append(cfgs, &cfg)
		}
		return []interface{}{[]*bson.D(specs), []*bson.D(colls), []*bson.D(dbs), cfgs}
	})
	add("GridFS upload with metadata + file listing", func() []interface{} {
		return []interface{}{bD("owner", bD("tags", bson.A{"m"})), []byte{1, 2, 3, 4, 5}}
	}, func(w *world.World, a []interface{}) []interface{} {
		b := lungo.NewBucket(w.Client.Database("d"))
		s, err := b.OpenUploadStreamWithID(w.Ctx, "file", "name", options.GridFSUpload().SetMetadata(a[0]).SetChunkSizeBytes(2))
		if err != nil {
			panic(err)
		}
		if _, err := s.Write(a[1].([]byte)); err != nil {
			panic(err)
		}
		if err := s.Close(); err != nil {
			panic(err)
		}
		cur, err := b.Find(w.Ctx, bD())
		if err != nil {
			panic(err)
		}
		var files []bson.M
		_ = cur.All(w.Ctx, &files)
		return []interface{}{files}
	})
	return cs
}

// normEventD drops nothing: the event of one stream is compared with itself.
func normEventD(d bson.D) bson.D { return d }

func stripID(d bson.D) bson.D {
	var out bson.D
	for _, e := range d {
		if e.Key != "_id" {
			out = append(out, e)
		}
	}
	return out
}

func firstByteDiff(a, b []byte) int {
	for i := 0; i < len(a) && i < len(b); i++ {
		if a[i] != b[i] {
			return i
		}
	}
	if len(a) != len(b) {
		if len(a) < len(b) {
			return len(a)
		}
		return len(b)
	}
	return -1
}

func init() {
	Register("C17", "exploration", func(c *Ctx) {
		r := c.R
		calls := c17Calls()
		type job struct {
			call   int
			slot   int // -1: baseline run (argument preservation, slot count)
			result bool
		}
		// pass 1: count slots per call
		type counts struct{ args, results int }
		cnt := make([]counts, len(calls))
		var argPreserved, readOnly, streamedSlots, optionChecks, largeWrites int64
		for ci, cl := range calls {
			w := world.New()
			c17Setup(w)
			args := cl.args()
			before := c17Render(args)
			obs0 := c17Observe(w)
			res := cl.do(w, args)
			if strings.Contains(cl.name, "(read only)") {
				readOnly++
				if obs := c17Observe(w); obs != obs0 {
					r.Violation("read-changes-database:"+strings.Fields(cl.name)[0], cl.name+": the database differs after a call that only reads:\n"+firstDiff(obs0, obs), map[string]interface{}{"call": cl.name})
				}
			}
			if after := c17Render(args); after != before {
				r.Violation("argument-modified:"+strings.Fields(cl.name)[0], cl.name+": the call modified its argument:\n  before "+short(before, 500)+"\n  after  "+short(after, 500), map[string]interface{}{"call": cl.name})
			}
			argPreserved++
			cnt[ci] = counts{len(c17Slots(args, "args")), len(c17Slots(c17Values(res), "results"))}
			w.Close()
		}
		var jobs []job
		for ci := range calls {
			for s := 0; s < cnt[ci].args; s++ {
				jobs = append(jobs, job{ci, s, false})
			}
			for s := 0; s < cnt[ci].results; s++ {
				jobs = append(jobs, job{ci, s, true})
			}
		}
		par.For(len(jobs), r.TooMany, func(ji int) {
			j := jobs[ji]
			cl := calls[j.call]
			w := world.New()
			defer w.Close()
			c17Setup(w)
			args := cl.args()
			res := cl.do(w, args)
			observe := func() string {
				o := c17Observe(w)
				for _, x := range res {
					if again, ok := x.(c17Again); ok {
						o += again() + "\n"
					}
				}
				return o
			}
			obs1 := observe()
			var slots []c17Slot
			kind := "argument"
			if j.result {
				slots, kind = c17Slots(c17Values(res), "results"), "result"
			} else {
				slots = c17Slots(args, "args")
			}
			if j.slot >= len(slots) {
				r.Broken("%s: slot enumeration is not deterministic (%d of %d)", cl.name, j.slot, len(slots))
				return
			}
			sl := slots[j.slot]
			sl.mutate()
			obs2 := observe()
			rep := map[string]interface{}{"call": cl.name, "mutated": kind + " slot " + sl.path}
			if obs1 != obs2 {
				r.Violation("aliasing:"+kind+":"+c17Class(cl.name, sl.path), fmt.Sprintf("%s: after the call the caller overwrote %s slot %s; the database changed:\n%s", cl.name, kind, sl.path, firstDiff(obs1, obs2)), rep)
				return
			}
			// a further write and the index probes still work (a key mutated in place would corrupt the btree)
			if _, err := w.C("d", "c").UpdateMany(w.Ctx, bD(), bD("$set", bD("later", int32(1)))); err != nil {
				r.Violation("aliasing-later-write:"+kind+":"+c17Class(cl.name, sl.path), fmt.Sprintf("%s: after overwriting %s slot %s a later UpdateMany fails: %v", cl.name, kind, sl.path, err), rep)
				return
			}
			if _, err := w.C("d", "c").DeleteMany(w.Ctx, bD()); err != nil {
				r.Violation("aliasing-later-write:"+kind+":"+c17Class(cl.name, sl.path), fmt.Sprintf("%s: after overwriting %s slot %s a later DeleteMany fails: %v", cl.name, kind, sl.path, err), rep)
			}
		})
		// an argument of a call that returns a handle: the metadata given to OpenUploadStream belongs to the caller again as
		// soon as the call has returned, whatever is done with the stream afterwards (every slot overwritten between the
		// open and the Close)
		{
			mk := func() []interface{} {
				return []interface{}{bson.M{"owner": "alice", "tags": bson.A{"a", bD("k", bson.A{int32(1)})}, "raw": []byte{1, 2}}, bD("tenant", "t", "seq", bson.A{int32(1), bD("k", int32(2))})}
			}
			want := ""
			nslots := len(c17Slots(mk(), "args"))
			for slot := -1; slot < nslots; slot++ {
				w := world.New()
				b := lungo.NewBucket(w.Client.Database("d"))
				args := mk()
				st, err := b.OpenUploadStreamWithID(w.Ctx, args[1], "name", options.GridFSUpload().SetMetadata(args[0]).SetChunkSizeBytes(2))
				if err != nil {
					r.Broken("open upload stream: %v", err)
					w.Close()
					break
				}
				_, _ = st.Write([]byte{1, 2, 3})
				path := "(none)"
				if slot >= 0 {
					sl := c17Slots(args, "args")[slot]
					path = sl.path
					sl.mutate()
				}
				_, _ = st.Write([]byte{4})
				if err := st.Close(); err != nil {
					r.Broken("close upload stream: %v", err)
				}
				var files []bson.D
				if cur, err := b.Find(w.Ctx, bD()); err == nil {
					_ = cur.All(w.Ctx, &files)
				}
				got := ""
				if len(files) == 1 {
					got = J(canonSorted(refmodel.GetPath(files[0], "metadata"))) + " id " + J(refmodel.GetPath(files[0], "_id"))
				}
				// the chunks are filed under the id the stream was opened with, and the file can be downloaded under it
				var chunks []bson.D
				if cur, err := b.GetChunksCollection(w.Ctx).Find(w.Ctx, bD(), options.Find().SetSort(bD("n", int32(1)))); err == nil {
					_ = cur.All(w.Ctx, &chunks)
				}
				for _, ch := range chunks {
					got += " chunk " + J(refmodel.GetPath(ch, "files_id"))
				}
				var buf bytes.Buffer
				n, derr := b.DownloadToStream(w.Ctx, mk()[1], &buf)
				got += fmt.Sprintf(" download=%d/%v/%v", n, buf.Bytes(), derr)
				if slot < 0 {
					want = got
				} else if got != want {
					r.Violation("aliasing:argument:OpenUploadStream:"+map[bool]string{true: "metadata", false: "id"}[strings.HasPrefix(path, "args[0]")], fmt.Sprintf("OpenUploadStreamWithID(id, metadata): the caller overwrote %s after the call had returned and before the stream was closed; the stored file is %s instead of %s", path, got, want), map[string]interface{}{"call": "OpenUploadStreamWithID", "mutated": path})
					w.Close()
					break
				}
				streamedSlots++
				w.Close()
			}
		}
		// the bytes handed to an upload are an argument too: a write that fills the production buffer (16 MiB) in one
		// call, and an upload from a reader over the caller's slice, leave the slice as it was
		{
			data := make([]byte, 16<<20+100000)
			for k := range data {
				data[k] = byte(k * 2654435761 >> 13)
			}
			snap := append([]byte(nil), data...)
			w := world.New()
			b := lungo.NewBucket(w.Client.Database("d"))
			if st, err := b.OpenUploadStreamWithID(w.Ctx, "big1", "big1"); err != nil {
				r.Broken("open upload stream: %v", err)
			} else {
				_, werr := st.Write(data)
				cerr := st.Close()
				if werr != nil || cerr != nil {
					r.Broken("large write: %v / %v", werr, cerr)
				}
				largeWrites++
				if !bytes.Equal(data, snap) {
					r.Violation("argument-modified:UploadStream.Write", fmt.Sprintf("UploadStream.Write of %d bytes in one call changed the caller's slice (first difference at offset %d)", len(data), firstByteDiff(data, snap)), map[string]interface{}{"call": "UploadStream.Write", "bytes": len(data)})
					copy(data, snap)
				}
			}
			if err := b.UploadFromStreamWithID(w.Ctx, "big2", "big2", bytes.NewReader(data)); err != nil {
				r.Broken("large upload: %v", err)
			}
			largeWrites++
			if !bytes.Equal(data, snap) {
				r.Violation("argument-modified:UploadFromStream", fmt.Sprintf("UploadFromStreamWithID over a bytes.Reader of %d bytes changed the slice behind the reader (first difference at offset %d)", len(data), firstByteDiff(data, snap)), map[string]interface{}{"call": "UploadFromStreamWithID", "bytes": len(data)})
			}
			// and the stored file is the content
			for _, id := range []string{"big1", "big2"} {
				var buf bytes.Buffer
				if _, err := b.DownloadToStream(w.Ctx, id, &buf); err != nil || !bytes.Equal(buf.Bytes(), snap) {
					r.Violation("large-upload-differs", fmt.Sprintf("the file %s uploaded from %d bytes downloads as %d bytes (err %v, first difference at offset %d)", id, len(snap), buf.Len(), err, firstByteDiff(buf.Bytes(), snap)), map[string]interface{}{"file": id})
				}
			}
			w.Close()
		}
		// option values are arguments too: an options object handed to a call comes back unchanged (and can be shared
		// between calls), a pointer inside it is not kept
		{
			w := world.New()
			c17Setup(w)
			io := options.Index().SetUnique(false)
			before := fmt.Sprintf("%+v name=%v", *io, io.Name)
			_, e1 := w.C("d", "c").Indexes().CreateOne(w.Ctx, mongo.IndexModel{Keys: bD("o1", int32(1)), Options: io})
			after := fmt.Sprintf("%+v name=%v", *io, io.Name)
			_, e2 := w.C("d", "c").Indexes().CreateOne(w.Ctx, mongo.IndexModel{Keys: bD("o2", int32(1)), Options: io})
			_, e3 := w.C("d", "c").Indexes().CreateMany(w.Ctx, []mongo.IndexModel{{Keys: bD("o3", int32(1)), Options: io}, {Keys: bD("o4", int32(1)), Options: io}})
			if before != after || io.Name != nil {
				r.Violation("argument-modified:Indexes.CreateOne:options", fmt.Sprintf("CreateOne changed the options object it was given: %s -> %s", before, after), map[string]interface{}{"call": "Indexes().CreateOne(options)"})
			} else if e1 != nil || e2 != nil || e3 != nil {
				r.Violation("argument-modified:Indexes.CreateOne:options", fmt.Sprintf("index options shared between calls: %v, %v, %v", e1, e2, e3), map[string]interface{}{"call": "Indexes().CreateOne(options)"})
			}
			uo := options.Update().SetUpsert(true).SetArrayFilters(options.ArrayFilters{Filters: []interface{}{bD("e", int32(1))}})
			ub := fmt.Sprintf("%+v %v", *uo, *uo.Upsert)
			_, _ = w.C("d", "c").UpdateOne(w.Ctx, bD("_id", int32(1)), bD("$set", bD("a.b.$[e]", int32(5))), uo)
			if ua := fmt.Sprintf("%+v %v", *uo, *uo.Upsert); ua != ub {
				r.Violation("argument-modified:UpdateOne:options", fmt.Sprintf("UpdateOne changed its options: %s -> %s", ub, ua), map[string]interface{}{"call": "UpdateOne(options)"})
			}
			// the start time of a change stream is a value, not a reference to the caller's variable
			_, _ = w.C("d", "c").InsertOne(w.Ctx, bD("_id", "before-stream"))
			var startAt primitive.Timestamp
			if s0, err := w.C("d", "c").Watch(w.Ctx, bson.A{}); err == nil {
				_, _ = w.C("d", "c").InsertOne(w.Ctx, bD("_id", "e1"))
				if s0.TryNext(w.Ctx) {
					var ev bson.M
					_ = s0.Decode(&ev)
					startAt, _ = ev["clusterTime"].(primitive.Timestamp)
				}
				_ = s0.Close(w.Ctx)
			}
			ts := startAt
			if s, err := w.C("d", "c").Watch(w.Ctx, bson.A{}, options.ChangeStream().SetStartAtOperationTime(&ts)); err == nil && startAt.T != 0 {
				_, _ = w.C("d", "c").InsertOne(w.Ctx, bD("_id", "e2"))
				ts.T += 100000 // the caller reuses its variable
				n := 0
				for s.TryNext(w.Ctx) {
					n++
				}
				if n != 2 {
					r.Violation("aliasing:argument:Watch:start-time", fmt.Sprintf("a stream opened at the time of event e1 delivered %d events instead of 2 (e1, e2) after the caller had changed the timestamp variable it passed", n), map[string]interface{}{"call": "Watch(StartAtOperationTime)"})
				}
				_ = s.Close(w.Ctx)
				optionChecks++
			}
			optionChecks += 2
			w.Close()
		}
		r.Set("option_arguments_checked", optionChecks)
		r.Set("slots_mutated_between_open_and_close_of_an_upload", streamedSlots)
		r.Set("uploads_filling_the_production_buffer", largeWrites)
		var totalArgs, totalRes int64
		var names []interface{}
		for ci, k := range cnt {
			totalArgs += int64(k.args)
			totalRes += int64(k.results)
			names = append(names, map[string]interface{}{"call": calls[ci].name, "argument_slots": k.args, "result_slots": k.results})
		}
		r.Set("evaluations", int64(len(jobs))+argPreserved)
		r.Set("calls", int64(len(calls)))
		r.Set("argument_slots_mutated", totalArgs)
		r.Set("result_slots_mutated", totalRes)
		r.Set("argument_preservation_checks", argPreserved)
		r.Set("read_only_calls_checked", readOnly)
		r.Set("distinct_nontrivial", int64(len(jobs)))
		r.Set("grammar_sizes", map[string]interface{}{"calls": len(calls), "slots": len(jobs)})
		r.Set("exhaustive", !r.TooMany())
		r.Set("samples", names)
		r.Set("rule", "mutate-then-re-observe, applied mechanically: for every call of the list (writes with bson.D / bson.M / struct arguments holding nested bson.A, []interface{}, maps, []byte and Binary values, document- and binary-valued _id, upserts seeded from filters, array filters, bulk models, index keys and partial filters, reads decoding into bson.D / bson.M / structs / raw bytes, Distinct, change events and resume tokens, GridFS metadata) a reflective walker enumerates every mutable slot (slice element, map entry, byte, document key and value, struct field) of every argument and of every returned value; for each slot separately: fresh engine, call, observation 1 (byte dump of all namespaces incl. change log and index order + a battery of finds, distincts, index listings and index coherence), overwrite the slot, observation 2 must be identical, a later UpdateMany and DeleteMany must succeed; the arguments must be unchanged by the call itself")
		r.Assume("one byte per byte slice is mutated (all bytes share the backing array)")
		if len(jobs) < 300 || totalRes < 100 {
			r.Broken("vacuity: %d slots (%d result slots)", len(jobs), totalRes)
		}
	})
}

// c17Class groups slot paths into classes for violation signatures (call kind + container kind).
func c17Class(call, path string) string {
	k := strings.Fields(call)[0]
	if i := strings.Index(k, "("); i > 0 {
		k = k[:i]
	}
	switch {
	case strings.Contains(path, "InsertedID"):
		return k + ":InsertedID"
	case strings.Contains(path, "UpsertedID"):
		return k + ":UpsertedID"
	case strings.HasPrefix(path, "results"):
		return k + ":returned-value"
	}
	return k + ":argument"
}
