package checks

import (
	"bytes"
	"errors"
	"fmt"
	"io"
	"regexp"
	"sort"
	"strings"
	"sync/atomic"
	"time"

	"go.mongodb.org/mongo-driver/bson"
	"go.mongodb.org/mongo-driver/bson/primitive"
	"go.mongodb.org/mongo-driver/mongo/options"

	"github.com/256dpi/lungo"

	"verif/internal/e1"
	"verif/internal/par"
	"verif/internal/world"
)

// ---------------------------------------------------------------------------
// C18 — GridFS returns the bytes that were uploaded, at any offset.

func c18Content(n int) []byte {
	b := make([]byte, n)
	for i := range b {
		b[i] = byte((i*7 + 3) % 251)
	}
	return b
}

type c18Chunk struct {
	n    int
	data []byte
}

// c18State reads the bucket collections directly.
func c18State(w *world.World, id interface{}) (chunks []c18Chunk, file bson.M, markers []bson.M) {
	db := w.Client.Database("g")
	cur, err := db.Collection("fs.chunks").Find(w.Ctx, bD("files_id", id))
	if err == nil {
		var docs []bson.M
		_ = cur.All(w.Ctx, &docs)
		for _, d := range docs {
			var n int
			switch v := d["n"].(type) {
			case int32:
				n = int(v)
			case int64:
				n = int(v)
			}
			var data []byte
			if b, ok := d["data"].(primitive.Binary); ok {
				data = b.Data
			}
			chunks = append(chunks, c18Chunk{n, data})
		}
		sort.SliceStable(chunks, func(i, j int) bool { return chunks[i].n < chunks[j].n })
	}
	_ = db.Collection("fs.files").FindOne(w.Ctx, bD("_id", id)).Decode(&file)
	if cur, err := db.Collection("fs.markers").Find(w.Ctx, bD("files_id", id)); err == nil {
		_ = cur.All(w.Ctx, &markers)
	}
	return
}

func toInt(v interface{}) int {
	switch x := v.(type) {
	case int32:
		return int(x)
	case int64:
		return int(x)
	case int:
		return x
	}
	return -1
}

// c18Layout checks the chunk numbering / size / content invariant; full reports whether every chunk must be full.
func c18Layout(chunks []c18Chunk, c int, content []byte, lastMayBePartial bool) string {
	off := 0
	for i, ch := range chunks {
		if ch.n != i {
			return fmt.Sprintf("chunk numbers are %v, expected 0..%d", c18Nums(chunks), len(chunks)-1)
		}
		last := i == len(chunks)-1
		if len(ch.data) != c && !(last && lastMayBePartial && len(ch.data) > 0 && len(ch.data) < c) {
			return fmt.Sprintf("chunk %d holds %d bytes (chunk size %d, last=%v)", i, len(ch.data), c, last)
		}
		if off+len(ch.data) > len(content) || !bytes.Equal(ch.data, content[off:off+len(ch.data)]) {
			return fmt.Sprintf("chunk %d holds %v, the uploaded content at offset %d is %v", i, ch.data, off, c18Slice(content, off, len(ch.data)))
		}
		off += len(ch.data)
	}
	return ""
}

func c18Nums(chunks []c18Chunk) []int {
	var out []int
	for _, c := range chunks {
		out = append(out, c.n)
	}
	return out
}

func c18Slice(b []byte, off, n int) []byte {
	if off > len(b) {
		return nil
	}
	if off+n > len(b) {
		n = len(b) - off
	}
	return b[off : off+n]
}

func c18Total(chunks []c18Chunk) int {
	n := 0
	for _, c := range chunks {
		n += len(c.data)
	}
	return n
}

func c18Bucket(w *world.World, tracked bool) *lungo.Bucket {
	b := lungo.NewBucket(w.Client.Database("g"))
	if tracked {
		b.EnableTracking()
	}
	return b
}

// ---- upload sweep

var c18Suspensions int64

func c18Uploads(c *Ctx) (uploads, partitions int64) {
	r := c.R
	type job struct{ B, cs, L, mode int }
	var jobs []job
	for _, B := range []int{4, 6} {
		for cs := 1; cs <= 4; cs++ {
			for L := 0; L <= 2*B+cs+1; L++ {
				for mode := 0; mode < 3; mode++ {
					jobs = append(jobs, job{B, cs, L, mode})
				}
			}
		}
	}
	// the long ones first: the workers finish together
	sort.SliceStable(jobs, func(a, b int) bool { return jobs[a].L > jobs[b].L })
	par.For(len(jobs), r.TooMany, func(ji int) {
		j := jobs[ji]
		content := c18Content(j.L)
		// all compositions of L into at most three writes (empty writes included)
		var parts [][]int
		for a := 0; a <= j.L; a++ {
			for b := 0; a+b <= j.L; b++ {
				parts = append(parts, []int{a, b, j.L - a - b})
			}
		}
		parts = append(parts, []int{j.L}, []int{j.L, 0})
		// tracked == 2: tracked bucket, and the upload is suspended and resumed on a new stream after every write but the last
		for tracked := j.mode; tracked == j.mode; tracked++ {
			var w *world.World
			var bucket *lungo.Bucket
			defer func() {
				if w != nil {
					w.Close()
				}
			}()
			for pi, p := range parts {
				if pi%12 == 0 {
					// a fresh database every few files keeps the collections (which are scanned by every call) small
					if w != nil {
						w.Close()
					}
					w = world.New()
					bucket = c18Bucket(w, tracked >= 1)
				}
				atomic.AddInt64(&partitions, 1)
				id := fmt.Sprintf("f-%d-%d", tracked, pi)
				rep := map[string]interface{}{"part": "upload", "buffer": j.B, "chunk_size": j.cs, "length": j.L, "writes": p, "tracked": tracked >= 1, "suspend_resume_between_writes": tracked == 2}
				what := fmt.Sprintf("upload of %d bytes in writes %v, chunk size %d, buffer %d, tracked=%v, suspended and resumed between writes=%v", j.L, p, j.cs, j.B, tracked >= 1, tracked == 2)
				viol := func(class, msg string) { r.Violation("upload:"+class, what+": "+msg, rep) }
				s, err := bucket.OpenUploadStreamWithID(w.Ctx, id, "name", options.GridFSUpload().SetChunkSizeBytes(int32(j.cs)))
				if err != nil {
					viol("open", err.Error())
					continue
				}
				s.VerifSetBufferSize(j.B)
				off, end := 0, 0
				failed := false
				for k, n := range p {
					end += n
					m, err := s.Write(content[off:end])
					if err != nil || m != end-off {
						viol("write", fmt.Sprintf("Write of %d bytes returned (%d, %v)", end-off, m, err))
						failed = true
						break
					}
					off = end
					if tracked == 2 && k < len(p)-1 && off > 0 {
						ack, err := s.Suspend()
						if err != nil || int(ack) > off || int(ack)%j.cs != 0 || off-int(ack) >= j.cs {
							viol("suspend", fmt.Sprintf("Suspend after %d bytes returned (%d, %v)", off, ack, err))
							failed = true
							break
						}
						s, err = bucket.OpenUploadStreamWithID(w.Ctx, id, "name", options.GridFSUpload().SetChunkSizeBytes(int32(j.cs)))
						if err != nil {
							viol("reopen", err.Error())
							failed = true
							break
						}
						s.VerifSetBufferSize(j.B)
						got, err := s.Resume()
						if err != nil || got != ack {
							viol("resume", fmt.Sprintf("Resume after a Suspend that acknowledged %d of %d bytes returned (%d, %v)", ack, off, got, err))
							failed = true
							break
						}
						atomic.AddInt64(&c18Suspensions, 1)
						off = int(ack) // the unacknowledged tail is sent again with the next write
					}
				}
				if failed {
					continue
				}
				if err := s.Close(); err != nil {
					viol("close", err.Error())
					continue
				}
				if tracked >= 1 {
					if err := bucket.ClaimUpload(w.Ctx, id); err != nil {
						viol("claim", err.Error())
						continue
					}
				}
				atomic.AddInt64(&uploads, 1)
				chunks, file, markers := c18State(w, id)
				if file == nil {
					viol("no-file-record", "no file record after a completed upload")
					continue
				}
				if toInt(file["length"]) != j.L || toInt(file["chunkSize"]) != j.cs {
					viol("file-record", fmt.Sprintf("file record states length=%v chunkSize=%v", file["length"], file["chunkSize"]))
				}
				if msg := c18Layout(chunks, j.cs, content, true); msg != "" {
					viol("chunk-layout", msg)
				} else if c18Total(chunks) != j.L {
					viol("chunk-layout", fmt.Sprintf("chunks hold %d bytes in total", c18Total(chunks)))
				}
				if len(markers) != 0 {
					viol("marker-left", fmt.Sprintf("%d marker(s) left after the upload was completed/claimed", len(markers)))
				}
				var buf bytes.Buffer
				n, err := bucket.DownloadToStream(w.Ctx, id, &buf)
				if err != nil || int(n) != j.L || !bytes.Equal(buf.Bytes(), content) {
					viol("download", fmt.Sprintf("DownloadToStream returned %d bytes %v (err %v), uploaded %v", n, buf.Bytes(), err, content))
				}
			}
		}
	})
	return
}

// ---- download sweep: scripts of reads, skips and seeks against bytes.Reader

type c18Op struct {
	kind   string
	k      int
	whence int
}

func (o c18Op) String() string {
	if o.kind == "seek" {
		return fmt.Sprintf("Seek(%d,%s)", o.k, []string{"Start", "Current", "End"}[o.whence])
	}
	return fmt.Sprintf("%s(%d)", strings.Title(o.kind), o.k)
}

func c18Downloads(c *Ctx) (scripts, steps int64) {
	r := c.R
	type file struct{ cs, L int }
	var files []file
	for cs := 1; cs <= 3; cs++ {
		Ls := []int{0, 1, cs, cs + 1, 2*cs + 1, 3 * cs}
		if !c.Quick() {
			Ls = append(Ls, 2*cs, 3*cs+2)
		}
		seen := map[int]bool{}
		for _, L := range Ls {
			if !seen[L] {
				seen[L] = true
				files = append(files, file{cs, L})
			}
		}
	}
	par.For(len(files), r.TooMany, func(fi int) {
		f := files[fi]
		content := c18Content(f.L)
		w := world.New()
		defer w.Close()
		bucket := c18Bucket(w, false)
		if err := bucket.UploadFromStreamWithID(w.Ctx, "f", "name", bytes.NewReader(content), options.GridFSUpload().SetChunkSizeBytes(int32(f.cs))); err != nil {
			r.Broken("upload for download sweep: %v", err)
			return
		}
		uniq := func(xs []int) []int {
			seen := map[int]bool{}
			var out []int
			for _, x := range xs {
				if !seen[x] {
					seen[x] = true
					out = append(out, x)
				}
			}
			return out
		}
		var ops []c18Op
		for _, k := range uniq([]int{0, 1, f.cs, f.cs + 1, f.L + 1}) {
			ops = append(ops, c18Op{"read", k, 0})
		}
		for _, k := range uniq([]int{0, 1, f.cs, f.L, -1}) {
			ops = append(ops, c18Op{"skip", k, 0})
		}
		for _, o := range uniq([]int{-1, 0, 1, f.cs, f.L - 1, f.L, f.L + 1, -f.cs}) {
			for wh := 0; wh < 3; wh++ {
				ops = append(ops, c18Op{"seek", o, wh})
			}
		}
		depth := 3
		idx := make([]int, depth)
		for {
			// run the script idx (all prefixes are checked on the way)
			ref := bytes.NewReader(content)
			ds, err := bucket.OpenDownloadStream(w.Ctx, "f")
			if err != nil {
				r.Broken("open download stream: %v", err)
				return
			}
			var trace []string
			for _, oi := range idx {
				op := ops[oi]
				trace = append(trace, op.String())
				atomic.AddInt64(&steps, 1)
				var gn, wn int64
				var gerr, werr error
				var gb, wb []byte
				switch op.kind {
				case "read":
					gb, wb = make([]byte, op.k), make([]byte, op.k)
					var a, b int
					a, gerr = ds.Read(gb)
					b, werr = ref.Read(wb)
					gn, wn = int64(a), int64(b)
					gb, wb = gb[:a], wb[:b]
				case "skip":
					gn, gerr = ds.Skip(int64(op.k))
					wn, werr = ref.Seek(int64(op.k), io.SeekCurrent)
				case "seek":
					gn, gerr = ds.Seek(int64(op.k), op.whence)
					wn, werr = ref.Seek(int64(op.k), op.whence)
				}
				same := gn == wn && bytes.Equal(gb, wb) && (gerr == nil) == (werr == nil) && (gerr == io.EOF) == (werr == io.EOF)
				if op.kind != "read" && werr != nil {
					same = gerr != nil // a failed seek: position value irrelevant
				}
				if !same {
					r.Violation("download:"+op.kind, fmt.Sprintf("file of %d bytes, chunk size %d, script %s: %s returned (%d, %v, %v), an in-memory reader returns (%d, %v, %v)", f.L, f.cs, strings.Join(trace, "; "), op, gn, gb, gerr, wn, wb, werr),
						map[string]interface{}{"part": "download", "length": f.L, "chunk_size": f.cs, "script": trace})
					break
				}
				// both failed: like the in-memory reader, the stream stays usable at its unchanged position,
				// the rest of the script goes on
			}
			_ = ds.Close()
			atomic.AddInt64(&scripts, 1)
			// next script
			p := depth - 1
			for p >= 0 {
				idx[p]++
				if idx[p] < len(ops) {
					break
				}
				idx[p] = 0
				p--
			}
			if p < 0 || r.TooMany() {
				break
			}
		}
	})
	return
}

// ---- lifecycle DFS

type c18Life struct {
	c          *Ctx
	tracked    bool
	w          *world.World
	bucket     *lungo.Bucket
	stream     *lungo.UploadStream
	mustResume bool   // the stream was opened on a suspended upload
	fresh      bool   // the open stream has not been written to / resumed
	content    []byte // everything the harness intends to upload
	off        int    // next content offset to write
	cs         int
	trace      []string
	failed     bool
	closedL    int // length acknowledged by a successful Close (-1: none)
	stats      *[4]int64
}

// c18Dump renders the three GridFS collections as the bucket's own database handle sees them.
func c18Dump(w *world.World) string {
	var sb strings.Builder
	for _, coll := range []string{"fs.files", "fs.chunks", "fs.markers"} {
		docs, err := findAll(w.Ctx, w.Client.Database("g").Collection(coll))
		fmt.Fprintf(&sb, "%s (%v):\n", coll, err)
		for _, d := range docs {
			// upload dates are wall-clock values: only their presence is compared
			sb.WriteString(" " + c18DateRE.ReplaceAllString(d, `"$$date":"*"`) + "\n")
		}
	}
	return sb.String()
}

var c18DateRE = regexp.MustCompile(`"\$date":\{[^}]*\}|"\$date":"[^"]*"`)

var c18Actions = []string{"open", "write3", "write1", "suspend", "resume", "close", "abort", "claim", "delete", "cleanup", "download"}

func (l *c18Life) viol(class, msg string) {
	l.failed = true
	l.c.R.Violation("lifecycle:"+class, fmt.Sprintf("tracked=%v, %s: %s", l.tracked, strings.Join(l.trace, " ; "), msg), map[string]interface{}{"part": "lifecycle", "tracked": l.tracked, "actions": l.trace})
}

func (l *c18Life) Step(a int) bool {
	if l.failed {
		return false
	}
	name := c18Actions[a]
	if !l.tracked && (name == "suspend" || name == "resume" || name == "claim" || name == "cleanup") {
		return false
	}
	w := l.w
	switch name {
	case "open":
		if l.stream != nil {
			return false
		}
		// one upload per file id: a new stream is only opened for an id without data, or to resume a suspended upload
		{
			chunks, file, markers := c18State(w, "f")
			suspended := l.tracked && file == nil && len(markers) == 1 && markers[0]["state"] == "uploading"
			if !suspended && (len(chunks) > 0 || file != nil || len(markers) > 0) {
				return false
			}
			l.mustResume = suspended
		}
		s, err := l.bucket.OpenUploadStreamWithID(w.Ctx, "f", "name", options.GridFSUpload().SetChunkSizeBytes(int32(l.cs)))
		if err != nil {
			l.trace = append(l.trace, name)
			l.viol("open", err.Error())
			return false
		}
		s.VerifSetBufferSize(4)
		l.stream, l.fresh = s, true
		l.trace = append(l.trace, name)
	case "write3", "write1":
		if l.stream == nil {
			return false
		}
		n := 3
		if name == "write1" {
			n = 1
		}
		if l.off+n > len(l.content) {
			return false
		}
		if l.mustResume && l.fresh {
			// a stream opened on a suspended upload and written to without Resume is a caller error; whatever it reports,
			// it does not damage the suspended upload, and aborting it removes nothing but its own traces
			before := c18Dump(w)
			_, e1 := l.stream.Write(l.content[:3])
			_, e2 := l.stream.Write(l.content[:3])
			e3 := l.stream.Abort()
			l.trace = append(l.trace, fmt.Sprintf("write+write+abort on the un-resumed stream=(%v,%v,%v)", e1 != nil, e2 != nil, e3 != nil))
			l.stream = nil
			if after := c18Dump(w); after != before {
				l.viol("unresumed-stream-damages-suspended-upload", "writing to and aborting a second stream on a suspended upload changed the bucket:\n"+firstDiff(before, after))
				return false
			}
			break
		}
		m, err := l.stream.Write(l.content[l.off : l.off+n])
		l.trace = append(l.trace, fmt.Sprintf("%s=(%d,%v)", name, m, err))
		if err != nil {
			// the stream was closed, suspended or aborted before: nothing may change
			l.stream = nil
			break
		}
		l.off += n
		l.fresh = false
	case "suspend":
		if l.stream == nil {
			return false
		}
		written := l.off
		n, err := l.stream.Suspend()
		l.trace = append(l.trace, fmt.Sprintf("suspend=(%d,%v)", n, err))
		if err == nil && !l.fresh && written > 0 {
			// a suspended upload that has received data can be resumed: its "uploading" marker exists, however little was sent
			if _, file, markers := c18State(w, "f"); file == nil && !(len(markers) == 1 && markers[0]["state"] == "uploading") {
				l.viol("suspend-leaves-no-marker", fmt.Sprintf("Suspend succeeded after %d bytes were written but left %d markers: the upload cannot be resumed", written, len(markers)))
				return false
			}
		}
		if err == nil && !l.fresh {
			if int(n) > l.off || int(n)%l.cs != 0 || l.off-int(n) >= l.cs {
				l.viol("suspend", fmt.Sprintf("Suspend acknowledged %d bytes after %d were written (chunk size %d)", n, l.off, l.cs))
				return false
			}
			l.off = int(n) // the rest has to be sent again after Resume
		}
		l.stream = nil
	case "resume":
		if l.stream == nil || !l.fresh {
			return false
		}
		n, err := l.stream.Resume()
		l.trace = append(l.trace, fmt.Sprintf("resume=(%d,%v)", n, err))
		if err != nil && l.mustResume {
			l.viol("resume-fails", fmt.Sprintf("Resume of a suspended upload failed: %v", err))
			return false
		}
		if err != nil {
			l.stream = nil
			break
		}
		chunks, _, _ := c18State(w, "f")
		if int(n) != c18Total(chunks) {
			l.viol("resume", fmt.Sprintf("Resume reported %d bytes, the stored chunks hold %d", n, c18Total(chunks)))
			return false
		}
		l.off = int(n)
		l.fresh = false
	case "close":
		if l.stream == nil {
			return false
		}
		err := l.stream.Close()
		l.trace = append(l.trace, fmt.Sprintf("close=%v", err))
		if err == nil {
			l.closedL = l.off
		}
		l.stream = nil
	case "abort":
		if l.stream == nil {
			return false
		}
		resumedOrWritten := !l.fresh
		err := l.stream.Abort()
		l.trace = append(l.trace, fmt.Sprintf("abort=%v", err))
		l.stream = nil
		if err == nil && resumedOrWritten {
			chunks, _, markers := c18State(w, "f")
			if len(chunks) > 0 || (len(markers) > 0 && markers[0]["state"] != "deleted") {
				l.viol("abort-leaves-data", fmt.Sprintf("after Abort %d chunk(s) %v and %d marker(s) remain", len(chunks), c18Nums(chunks), len(markers)))
				return false
			}
			l.off, l.closedL = 0, -1
		}
	case "claim":
		// first inside a session transaction whose callback fails afterwards: nothing of it may stay, and the claim
		// proper behaves as if the attempt had never been made
		if _, _, fm := c18State(w, "f"); len(fm) == 0 {
			// nothing to claim: the plain call below reports that
		} else if sess, serr := w.Client.StartSession(); serr == nil {
			// (a second, completed upload whose records come after those of "f" in every collection)
			if l.tracked {
				if _, _, ms := c18State(w, "z"); len(ms) == 0 {
					if s, err := l.bucket.OpenUploadStreamWithID(w.Ctx, "z", "other", options.GridFSUpload().SetChunkSizeBytes(2)); err == nil {
						s.VerifSetBufferSize(4)
						_, _ = s.Write([]byte{9, 8, 7})
						_ = s.Close()
					}
				}
			}
			before := c18Dump(w)
			_, _ = sess.WithTransaction(w.Ctx, func(sc lungo.ISessionContext) (interface{}, error) {
				_ = l.bucket.ClaimUpload(sc, "f")
				return nil, fmt.Errorf("the caller gives up")
			})
			sess.EndSession(w.Ctx)
			if after := c18Dump(w); after != before {
				l.trace = append(l.trace, "claim inside a failing transaction")
				l.viol("aborted-claim-changes-state", "a ClaimUpload inside a transaction that was aborted changed the bucket:\n"+firstDiff(before, after))
				return false
			}
		}
		err := l.bucket.ClaimUpload(w.Ctx, "f")
		l.trace = append(l.trace, fmt.Sprintf("claim=%v", err != nil))
	case "delete":
		if !l.tracked && l.stream != nil {
			return false // deleting a file while its (untracked) upload is running is a caller error
		}
		err := l.bucket.Delete(w.Ctx, "f")
		l.trace = append(l.trace, fmt.Sprintf("delete=%v", err))
		if err == nil && !l.tracked {
			chunks, file, _ := c18State(w, "f")
			if len(chunks) > 0 || file != nil {
				l.viol("delete-leaves-data", fmt.Sprintf("after Delete %d chunk(s) remain, file record present=%v", len(chunks), file != nil))
				return false
			}
		}
		if err == nil && l.stream == nil {
			l.off, l.closedL = 0, -1
		}
	case "cleanup":
		if l.stream != nil {
			return false // cleaning up under a running upload is a caller error
		}
		// a negative age puts the cut-off into the future: every unfinished upload counts as old (no clock dependence)
		err := l.bucket.Cleanup(w.Ctx, -time.Hour)
		l.trace = append(l.trace, fmt.Sprintf("cleanup=%v", err))
		if err == nil {
			chunks, file, markers := c18State(w, "f")
			// everything that is not a claimed file is gone (age 0)
			if file == nil && (len(chunks) > 0 || len(markers) > 0) {
				l.viol("cleanup-leaves-data", fmt.Sprintf("after Cleanup(0) without a claimed file %d chunk(s) and %d marker(s) remain", len(chunks), len(markers)))
				return false
			}
			if file == nil && l.stream == nil {
				l.off, l.closedL = 0, -1
			}
		}
	case "download":
		l.trace = append(l.trace, name)
		// with no upload in progress the database is persisted and reloaded first: the bucket looks the same afterwards
		if ch, fl, mk := c18State(w, "f"); l.stream == nil && (len(ch) > 0 || fl != nil || len(mk) > 0) {
			before := c18Dump(w)
			if err := w.Reload(); err != nil {
				l.viol("reload", "persist-and-reload failed: "+err.Error())
				return false
			}
			l.bucket = c18Bucket(w, l.tracked)
			if after := c18Dump(w); after != before {
				l.viol("reload-changes-bucket", "after persist-and-reload the GridFS collections differ:\n"+firstDiff(before, after))
				return false
			}
		}
	}
	atomic.AddInt64(&l.stats[0], 1)
	// ---- invariants after every step
	chunks, file, markers := c18State(w, "f")
	state := ""
	if len(markers) > 0 {
		state, _ = markers[0]["state"].(string)
	}
	if len(markers) > 1 {
		l.viol("two-markers", fmt.Sprintf("%d markers for one file", len(markers)))
		return false
	}
	finished := file != nil || state == "uploaded"
	if msg := c18Layout(chunks, l.cs, l.content, finished); msg != "" && state != "deleted" {
		l.viol("chunk-layout", msg)
		return false
	}
	if len(chunks) > 0 && file == nil && len(markers) == 0 && l.tracked {
		l.viol("orphan-chunks", fmt.Sprintf("%d chunk(s) without file record or marker", len(chunks)))
		return false
	}
	if len(chunks) > 0 && file == nil && !l.tracked && l.stream == nil && l.closedL < 0 && !strings.Contains(strings.Join(l.trace, ";"), "=(0,") {
		// untracked: chunks of an upload that was neither closed nor is in progress (a Write error on a dead stream excepted)
		l.viol("orphan-chunks", fmt.Sprintf("%d chunk(s) left although no upload is in progress and no file exists", len(chunks)))
		return false
	}
	if file != nil {
		atomic.AddInt64(&l.stats[1], 1)
		L := toInt(file["length"])
		if L != c18Total(chunks) || toInt(file["chunkSize"]) != l.cs {
			l.viol("file-record", fmt.Sprintf("file record states length=%d chunkSize=%v, the chunks hold %d bytes", L, file["chunkSize"], c18Total(chunks)))
			return false
		}
		var buf bytes.Buffer
		n, err := l.bucket.DownloadToStream(w.Ctx, "f", &buf)
		if err != nil || int(n) != L || !bytes.Equal(buf.Bytes(), l.content[:L]) {
			l.viol("download", fmt.Sprintf("download returned %d bytes %v (err %v), uploaded %v", n, buf.Bytes(), err, l.content[:L]))
			return false
		}
	} else if name == "download" {
		var buf bytes.Buffer
		if _, err := l.bucket.DownloadToStream(w.Ctx, "f", &buf); err == nil || !errors.Is(err, lungo.ErrFileNotFound) {
			l.viol("download-of-missing-file", fmt.Sprintf("download without a file record returned %v", err))
			return false
		}
	}
	if state == "uploaded" {
		if ml := toInt(markers[0]["length"]); ml != c18Total(chunks) {
			l.viol("marker-length", fmt.Sprintf("uploaded marker states length %d, the chunks hold %d bytes", ml, c18Total(chunks)))
			return false
		}
	}
	return true
}

func (l *c18Life) Done() {
	atomic.AddInt64(&l.stats[2], 1)
	l.w.Close()
}

// c18FailingReader delivers left bytes of a non-periodic pattern and then fails.
type c18FailingReader struct{ left, pos int }

func (f *c18FailingReader) Read(p []byte) (int, error) {
	if f.left == 0 {
		return 0, fmt.Errorf("the source broke")
	}
	n := len(p)
	if n > f.left {
		n = f.left
	}
	for i := 0; i < n; i++ {
		p[i] = byte((f.pos + i) * 2654435761 >> 13)
	}
	f.pos += n
	f.left -= n
	return n, nil
}

func init() {
	Register("C18", "model_checking", func(c *Ctx) {
		r := c.R
		var byName int64
		// an upload from a reader that fails after the production buffer (16 MiB) has been flushed once: the upload is
		// aborted, nothing of it stays behind
		var failedReaders int64
		for _, tracked := range []bool{false, true} {
			w := world.New()
			b := c18Bucket(w, tracked)
			n := 16<<20 + 70000
			err := b.UploadFromStreamWithID(w.Ctx, "broken", "broken", &c18FailingReader{left: n})
			if err == nil {
				r.Violation("failing-reader-upload-succeeds", "UploadFromStreamWithID from a reader that fails after 16 MiB + 70000 bytes returned no error", map[string]interface{}{"tracked": tracked})
			}
			var chunks, files, markers []bson.D
			for _, q := range []struct {
				coll lungo.ICollection
				out  *[]bson.D
			}{{b.GetChunksCollection(w.Ctx), &chunks}, {b.GetFilesCollection(w.Ctx), &files}, {b.GetMarkersCollection(w.Ctx), &markers}} {
				if cur, err := q.coll.Find(w.Ctx, bD(), options.Find().SetProjection(bD("data", int32(0)))); err == nil {
					_ = cur.All(w.Ctx, q.out)
				}
			}
			failedReaders++
			if len(chunks) > 0 || len(files) > 0 || len(markers) > 0 {
				r.Violation("failed-upload-leaves-data", fmt.Sprintf("an upload whose reader failed after 16 MiB + 70000 bytes left %d chunk(s), %d file record(s) and %d marker(s) behind (tracked=%v)", len(chunks), len(files), len(markers), tracked), map[string]interface{}{"tracked": tracked})
			}
			w.Close()
		}
		r.Set("uploads_from_failing_readers", failedReaders)
		// a suspended upload, a second stream that cannot resume it (another chunk size) and is aborted: the abort of a
		// stream that never held the upload leaves no chunks without a marker behind, and the upload can still be
		// resumed by a stream that fits and completed
		var failedResumes int64
		for _, cs2 := range []int32{5, 3, 4} {
			w := world.New()
			b := c18Bucket(w, true)
			content := []byte("0123456789")
			st, err := b.OpenUploadStreamWithID(w.Ctx, "x", "x", options.GridFSUpload().SetChunkSizeBytes(4))
			if err != nil {
				r.Broken("open: %v", err)
				w.Close()
				continue
			}
			st.VerifSetBufferSize(4)
			_, _ = st.Write(content)
			if _, err := st.Suspend(); err != nil {
				r.Broken("suspend: %v", err)
			}
			count := func(c lungo.ICollection) int64 { n, _ := c.CountDocuments(w.Ctx, bD()); return n }
			chunksBefore := count(b.GetChunksCollection(w.Ctx))
			st2, err := b.OpenUploadStreamWithID(w.Ctx, "x", "x", options.GridFSUpload().SetChunkSizeBytes(cs2))
			if err != nil {
				r.Broken("open 2: %v", err)
				w.Close()
				continue
			}
			_, rerr := st2.Resume()
			aerr := st2.Abort()
			failedResumes++
			chunks, markers := count(b.GetChunksCollection(w.Ctx)), count(b.GetMarkersCollection(w.Ctx))
			what := fmt.Sprintf("upload of 10 bytes with chunk size 4 suspended (%d chunks stored); second stream with chunk size %d: Resume -> %v, Abort -> %v; afterwards %d chunk(s) and %d marker(s)", chunksBefore, cs2, rerr, aerr, chunks, markers)
			rep := map[string]interface{}{"second_chunk_size": cs2}
			switch {
			case chunks > 0 && markers == 0:
				r.Violation("abort-after-failed-resume-orphans-chunks", what+": the chunks belong to nothing any more (no marker, no file record; Cleanup cannot find them)", rep)
			case rerr == nil && (chunks > 0 || markers > 0):
				r.Violation("abort-leaves-data", what+": the aborted stream had resumed the upload", rep)
			case rerr != nil && markers == 1:
				// the upload is still there: a stream that fits completes it
				st3, err := b.OpenUploadStreamWithID(w.Ctx, "x", "x", options.GridFSUpload().SetChunkSizeBytes(4))
				if err == nil {
					st3.VerifSetBufferSize(4)
					n, err3 := st3.Resume()
					if err3 != nil {
						r.Violation("upload-not-resumable-after-failed-resume", what+fmt.Sprintf("; a third stream with chunk size 4 cannot resume: %v", err3), rep)
					} else {
						_, _ = st3.Write(content[n:])
						var buf bytes.Buffer
						if cerr := st3.Close(); cerr != nil {
							r.Violation("upload-not-resumable-after-failed-resume", what+fmt.Sprintf("; the third stream resumed at %d and fails to close: %v", n, cerr), rep)
						} else if clerr := b.ClaimUpload(w.Ctx, "x"); clerr != nil {
							r.Violation("upload-not-resumable-after-failed-resume", what+fmt.Sprintf("; the third stream resumed at %d and completed, the upload cannot be claimed: %v", n, clerr), rep)
						} else if _, derr := b.DownloadToStream(w.Ctx, "x", &buf); derr != nil || !bytes.Equal(buf.Bytes(), content) {
							r.Violation("resumed-upload-differs", what+fmt.Sprintf("; resumed at %d and completed, the download is %q (%v)", n, buf.Bytes(), derr), rep)
						}
					}
				}
			}
			w.Close()
		}
		r.Set("aborts_after_a_failed_resume", failedResumes)
		// a Close that fails at its k-th commit (the flush of the buffered chunks, the file record, the marker), followed
		// by Abort on the same stream: the upload has not completed, the abort leaves nothing of it behind
		var failedCloses int64
		for _, tracked := range []bool{false, true} {
			for k := 1; k <= 4; k++ {
				w := world.New()
				b := c18Bucket(w, tracked)
				st, err := b.OpenUploadStreamWithID(w.Ctx, "fc", "fc", options.GridFSUpload().SetChunkSizeBytes(4))
				if err != nil {
					r.Broken("open: %v", err)
					w.Close()
					continue
				}
				st.VerifSetBufferSize(8)
				_, _ = st.Write([]byte("0123456789")) // 8 bytes flushed by the write, 2 wait for Close
				calls := 0
				w.Store.Hook = func() {
					calls++
					if calls == k {
						w.Store.FailNext = 1
					}
				}
				cerr := st.Close()
				w.Store.Hook = nil
				w.Store.FailNext = 0
				if cerr == nil {
					w.Close()
					continue // Close performs fewer than k commits
				}
				failedCloses++
				aerr := st.Abort()
				count := func(c lungo.ICollection) int64 { n, _ := c.CountDocuments(w.Ctx, bD()); return n }
				chunks, files, markers := count(b.GetChunksCollection(w.Ctx)), count(b.GetFilesCollection(w.Ctx)), count(b.GetMarkersCollection(w.Ctx))
				if chunks != 0 || files != 0 || markers != 0 {
					r.Violation("abort-after-failed-close-leaves-data", fmt.Sprintf("tracked=%v: Close failed at its commit %d (%v), Abort on the same stream returned %v; afterwards %d chunk(s), %d file record(s), %d marker(s) remain", tracked, k, cerr, aerr, chunks, files, markers), map[string]interface{}{"tracked": tracked, "failing_commit_of_close": k})
				}
				w.Close()
			}
		}
		r.Set("aborts_after_a_failed_close", failedCloses)
		// several uploads under one name: a download by name picks the revision asked for (0, 1, ... from the oldest,
		// -1, -2, ... from the newest; the default is the newest)
		{
			for _, tracked := range []bool{false, true} {
				w := world.New()
				b := c18Bucket(w, tracked)
				contents := [][]byte{[]byte("first"), []byte("second-revision"), []byte("3")}
				for k, content := range contents {
					id := fmt.Sprintf("rev%d", k)
					if err := b.UploadFromStreamWithID(w.Ctx, id, "same-name", bytes.NewReader(content), options.GridFSUpload().SetChunkSizeBytes(4)); err != nil {
						r.Broken("upload of revision %d: %v", k, err)
					}
					if tracked {
						_ = b.ClaimUpload(w.Ctx, id)
					}
					// revisions are ordered by upload date, which has millisecond resolution: two uploads within one millisecond
					// are the same revision for lungo and for MongoDB alike. The dates are set by hand, one second apart
					// (change log L16)
					if _, err := b.GetFilesCollection(w.Ctx).UpdateOne(w.Ctx, bD("_id", id), bD("$set", bD("uploadDate", primitive.DateTime(1000*int64(k+1))))); err != nil {
						r.Broken("setting the upload date of revision %d: %v", k, err)
					}
				}
				for rev, want := range map[int32][]byte{0: contents[0], 1: contents[1], 2: contents[2], -1: contents[2], -2: contents[1], -3: contents[0]} {
					var buf bytes.Buffer
					n, err := b.DownloadToStreamByName(w.Ctx, "same-name", &buf, options.GridFSName().SetRevision(rev))
					byName++
					if err != nil || int(n) != len(want) || !bytes.Equal(buf.Bytes(), want) {
						r.Violation("download-by-name:revision", fmt.Sprintf("tracked=%v: DownloadToStreamByName(revision %d) returned %q (%d bytes, err %v), that revision holds %q", tracked, rev, buf.Bytes(), n, err, want), map[string]interface{}{"part": "by-name", "revision": rev, "tracked": tracked})
					}
					if st, err := b.OpenDownloadStreamByName(w.Ctx, "same-name", options.GridFSName().SetRevision(rev)); err == nil {
						got, _ := io.ReadAll(st)
						if !bytes.Equal(got, want) {
							r.Violation("download-by-name:revision", fmt.Sprintf("tracked=%v: OpenDownloadStreamByName(revision %d) reads %q, that revision holds %q", tracked, rev, got, want), map[string]interface{}{"part": "by-name", "revision": rev, "tracked": tracked})
						}
					}
				}
				var buf bytes.Buffer
				if _, err := b.DownloadToStreamByName(w.Ctx, "same-name", &buf); err != nil || !bytes.Equal(buf.Bytes(), contents[2]) {
					r.Violation("download-by-name:default", fmt.Sprintf("tracked=%v: DownloadToStreamByName without revision returned %q (err %v), the newest revision holds %q", tracked, buf.Bytes(), err, contents[2]), map[string]interface{}{"part": "by-name", "tracked": tracked})
				}
				if _, err := b.DownloadToStreamByName(w.Ctx, "same-name", &buf, options.GridFSName().SetRevision(3)); err == nil {
					r.Violation("download-by-name:missing-revision", "revision 3 of 3 uploads was found", map[string]interface{}{"part": "by-name"})
				}
				w.Close()
			}
			r.Set("downloads_by_name_and_revision", byName)
		}
		t0 := time.Now()
		uploads, partitions := c18Uploads(c)
		r.Set("seconds_upload_sweep", int64(time.Since(t0).Seconds()))
		t0 = time.Now()
		scripts, dsteps := c18Downloads(c)
		r.Set("seconds_download_sweep", int64(time.Since(t0).Seconds()))
		var stats [4]int64
		depth := 5
		if !c.Quick() {
			depth = 7
		}
		var paths, lsteps, pruned int64
		exh := true
		// --replay of a lifecycle violation: the recorded action sequence on both kinds of bucket
		if seq, ok := replaySeq(c, c18Actions); ok {
			for _, tracked := range []bool{false, true} {
				w := world.New()
				l := &c18Life{c: c, tracked: tracked, w: w, bucket: c18Bucket(w, tracked), content: c18Content(11), cs: 2, closedL: -1, stats: &stats}
				for _, a := range seq {
					l.Step(a)
				}
				l.Done()
			}
			r.Set("replayed_actions", int64(len(seq)))
			r.Set("exhaustive", false)
			return
		}
		for _, tracked := range []bool{false, true} {
			tracked := tracked
			ps := e1.Paths(len(c18Actions), depth, func() e1.Runner {
				w := world.New()
				return &c18Life{c: c, tracked: tracked, w: w, bucket: c18Bucket(w, tracked), content: c18Content(11), cs: 2, closedL: -1, stats: &stats}
			}, r.TooMany)
			paths += ps.Paths
			lsteps += ps.Steps
			pruned += ps.Pruned
			exh = exh && ps.Exhaustive
		}
		// the production buffer: contents around 16 MiB in one and two writes (thorough)
		var real int64
		if !c.Quick() {
			for _, cs := range []int{255 * 1024, 1 << 20} {
				for _, L := range []int{16<<20 - 1, 16 << 20, 16<<20 + 1, 16<<20 + cs, 32<<20 + 1} {
					for _, split := range []int{0, 5, 16<<20 - 3} {
						content := c18Content(L)
						w := world.New()
						bucket := c18Bucket(w, false)
						s, err := bucket.OpenUploadStreamWithID(w.Ctx, "big", "name", options.GridFSUpload().SetChunkSizeBytes(int32(cs)))
						if err == nil {
							_, err = s.Write(content[:split])
						}
						if err == nil {
							_, err = s.Write(content[split:])
						}
						if err == nil {
							err = s.Close()
						}
						var buf bytes.Buffer
						if err == nil {
							_, err = bucket.DownloadToStream(w.Ctx, "big", &buf)
						}
						real++
						if err != nil || !bytes.Equal(buf.Bytes(), content) {
							first := -1
							for i := range content {
								if i >= buf.Len() || buf.Bytes()[i] != content[i] {
									first = i
									break
								}
							}
							r.Violation("upload:real-buffer", fmt.Sprintf("upload of %d bytes (writes %d+%d, chunk size %d, production 16 MiB buffer): err=%v, downloaded %d bytes, first difference at offset %d", L, split, L-split, cs, err, buf.Len(), first),
								map[string]interface{}{"part": "real-buffer", "length": L, "chunk_size": cs, "split": split})
						}
						w.Close()
					}
				}
			}
		}
		r.Set("uploads_completed", uploads)
		r.Set("write_partitions", partitions)
		r.Set("download_scripts", scripts)
		r.Set("download_steps", dsteps)
		r.Set("lifecycle_paths", paths)
		r.Set("lifecycle_steps", lsteps)
		r.Set("lifecycle_pruned_prefixes", pruned)
		r.Set("lifecycle_states_with_file", stats[1])
		r.Set("real_buffer_uploads", real)
		r.Set("states", paths)
		r.Set("transitions", lsteps+dsteps)
		r.Set("max_depth", int64(depth))
		r.Set("evaluations", uploads+scripts+paths+real)
		r.Set("traces_validated_against_impl", paths+scripts)
		r.Set("distinct_nontrivial", stats[1])
		r.Set("exhaustive", exh && !r.TooMany())
		r.Set("upload_suspend_resume_cycles", c18Suspensions)
		r.Set("samples", []interface{}{map[string]interface{}{"lifecycle_actions": c18Actions}, map[string]interface{}{"upload_grid": "buffer in {4,6} x chunk size 1..4 x length 0..2B+c+1 x all compositions into <= 3 writes x tracked/untracked"}})
		r.Set("rule", "upload sweep: upload buffer shrunk to 4/6 bytes (verif accessor) x chunk size 1..4 x every length 0..2B+c+1 x every composition into <= 3 writes (empty writes included) x tracked (claimed) / tracked with Suspend + Resume on a new stream after every write but the last / untracked: file record states the exact length and chunk size, chunks are numbered 0..n-1 with all but the last full, their concatenation and DownloadToStream equal the content, no marker is left. download sweep: for every (chunk size, length) every script of <= 3 operations from Read(k), Skip(k), Seek(o, Start|Current|End) incl. negative and beyond-the-end targets against bytes.Reader: same byte count, bytes, position and error/EOF behaviour. lifecycle DFS without deduplication: every sequence <= max_depth of {open, write 3, write 1, suspend, resume, close, abort, claim, delete, cleanup(0), download} on an untracked and a tracked bucket (content 11 bytes, chunk 2, buffer 4); after every step: chunk numbering/size/content invariant, no orphan chunks, file record and uploaded marker state the stored length, download returns the uploaded prefix, abort/delete/cleanup leave nothing behind. thorough additionally uploads 16 MiB-1 .. 32 MiB+1 through the production buffer.")
		r.Assume("the 16 MiB upload buffer is replaced per stream through a verif-tagged accessor; the production constant is exercised by 30 uploads in the thorough tier only", "chunk sizes larger than the upload buffer are outside the domain (16 MiB is also the BSON document limit)")
		if uploads < 5000 || scripts < 50000 || paths < 3000 || stats[1] < 300 {
			r.Broken("vacuity: uploads=%d scripts=%d lifecycle paths=%d states with a file=%d", uploads, scripts, paths, stats[1])
		}
	})
}
