package checks

import (
	"fmt"
	"sort"
	"strings"
	"sync/atomic"
	"time"

	"go.mongodb.org/mongo-driver/bson"
	"go.mongodb.org/mongo-driver/bson/primitive"

	"github.com/256dpi/lungo"

	"verif/internal/par"
	"verif/internal/refmodel"
	"verif/internal/world"
)

// ---------------------------------------------------------------------------
// C19 — TTL expiry deletes exactly the expired documents and nothing else.

type c19Val struct {
	name string
	v    interface{} // refmodel.Missing = field absent
	// ages of the dates the value contains, in minutes before now (negative = future); nil if it holds no date
	dates []int
}

func c19Values(now time.Time) []c19Val {
	dt := func(min int) primitive.DateTime {
		return primitive.NewDateTimeFromTime(now.Add(-time.Duration(min) * time.Minute))
	}
	old, mid, fut := 120, 30, -120
	return []c19Val{
		{"date 2h ago", dt(old), []int{old}},
		{"date 30min ago", dt(mid), []int{mid}},
		{"date in 2h", dt(fut), []int{fut}},
		{"date 45 days ago", dt(45 * 24 * 60), []int{45 * 24 * 60}},
		{"date 90 days ago", dt(90 * 24 * 60), []int{90 * 24 * 60}},
		{"int64 millis of an old date", int64(dt(old)), nil},
		{"string of an old date", now.Add(-2 * time.Hour).Format(time.RFC3339), nil},
		{"old timestamp", primitive.Timestamp{T: uint32(now.Add(-2 * time.Hour).Unix()), I: 1}, nil},
		{"null", nil, nil},
		{"missing", refmodel.Missing, nil},
		{"[old date]", bson.A{dt(old)}, []int{old}},
		{"[future date]", bson.A{dt(fut)}, []int{fut}},
		{"[future, old]", bson.A{dt(fut), dt(old)}, []int{fut, old}},
		{"[old, same old]", bson.A{dt(old), dt(old)}, []int{old, old}},
		{"[1,\"x\"]", bson.A{int32(1), "x"}, nil},
		{"[]", bson.A{}, nil},
		{"{d: old date}", bD("d", dt(old)), nil},
	}
}

type c19Index struct {
	field string
	secs  int32
}

func (v c19Val) expired(secs int32) bool {
	for _, age := range v.dates {
		if age*60 > int(secs) {
			return true
		}
	}
	return false
}

type c19Doc struct {
	id   int32
	t, u c19Val
}

func (d c19Doc) doc() bson.D {
	out := bD("_id", d.id)
	if !refmodel.IsMissing(d.t.v) {
		out = append(out, bson.E{Key: "t", Value: d.t.v})
	}
	if !refmodel.IsMissing(d.u.v) {
		out = append(out, bson.E{Key: "u", Value: d.u.v})
	}
	return append(out, bson.E{Key: "x", Value: d.id}, bson.E{Key: "y", Value: d.id})
}

type c19Case struct {
	ttl   []c19Index
	extra string // "", "x", "uy"
	other bool   // second namespace d.e with a TTL index on t (3600 s)
	docs  []c19Doc
}

func (c c19Case) String() string {
	var ix []string
	for _, i := range c.ttl {
		ix = append(ix, fmt.Sprintf("%s:%ds", i.field, i.secs))
	}
	var ds []string
	for _, d := range c.docs {
		ds = append(ds, fmt.Sprintf("{t:%s,u:%s}", d.t.name, d.u.name))
	}
	return fmt.Sprintf("ttl=[%s] extra=%q other-namespace-ttl=%v docs=[%s]", strings.Join(ix, ","), c.extra, c.other, strings.Join(ds, " "))
}

// c19Build creates the engine for a case; d.e always holds the same documents as d.c.
// With emptyFirst the indexes are created on the empty collections, the database is persisted and reloaded, and only
// then the documents are inserted.
func c19Build(cs c19Case, emptyFirst bool) (*world.World, error) {
	w := world.New()
	mk := func(coll string, idx []c19Index, extra string) error {
		if !emptyFirst {
			for _, d := range cs.docs {
				if _, err := w.C("d", coll).InsertOne(w.Ctx, d.doc()); err != nil {
					return err
				}
			}
		}
		for _, i := range idx {
			if obs := cCreateIndex("d", coll, bD(i.field, int32(1)), idxOpt{expire: i32(i.secs)}).Do(w); !strings.HasPrefix(obs, "ok") {
				return fmt.Errorf("TTL index on %s: %s", i.field, obs)
			}
		}
		switch extra {
		case "x":
			cCreateIndex("d", coll, bD("x", int32(1)), idxOpt{}).Do(w)
		case "uy":
			cCreateIndex("d", coll, bD("y", int32(1)), idxOpt{unique: true}).Do(w)
		case "px":
			// a partial index that only the third document falls under
			cCreateIndex("d", coll, bD("x", int32(1)), idxOpt{partial: bD("y", bD("$gt", int32(2)))}).Do(w)
		}
		return nil
	}
	if err := mk("c", cs.ttl, cs.extra); err != nil {
		return nil, err
	}
	var other []c19Index
	if cs.other {
		other = []c19Index{{"t", 3600}}
	}
	if err := mk("e", other, ""); err != nil {
		return nil, err
	}
	if emptyFirst {
		if err := w.Reload(); err != nil {
			return nil, fmt.Errorf("reload: %w", err)
		}
		for _, coll := range []string{"c", "e"} {
			for _, d := range cs.docs {
				if _, err := w.C("d", coll).InsertOne(w.Ctx, d.doc()); err != nil {
					return nil, err
				}
			}
		}
	}
	return w, nil
}

func c19Pass(w *world.World) (dirty bool, err error) {
	txn, err := w.Engine.Begin(nil, true)
	if err != nil {
		return false, err
	}
	defer w.Engine.Abort(txn)
	if err := txn.Expire(); err != nil {
		return false, err
	}
	dirty = txn.Dirty()
	return dirty, w.Engine.Commit(txn)
}

// c19Expect lists the ids that must be removed from a collection with the given TTL indexes.
func c19Expect(docs []c19Doc, ttl []c19Index) map[int32]bool {
	out := map[int32]bool{}
	for _, d := range docs {
		for _, i := range ttl {
			v := d.t
			if i.field == "u" {
				v = d.u
			}
			if v.expired(i.secs) {
				out[d.id] = true
			}
		}
	}
	return out
}

func init() {
	Register("C19", "exploration", func(c *Ctx) {
		r := c.R
		now := time.Now()
		vals := c19Values(now)
		var missing c19Val
		for _, v := range vals {
			if v.name == "missing" {
				missing = v
			}
		}
		ttlSets := [][]c19Index{{}, {{"t", 0}}, {{"t", 3600}}, {{"u", 3600}}, {{"t", 0}, {"u", 3600}}, {{"t", 3600}, {"u", 3600}}, {{"t", 3600}, {"u", 0}},
			// intervals of 30 and 60 days (more than 2^31 milliseconds)
			{{"t", 30 * 86400}}, {{"t", 60 * 86400}, {"u", 30 * 86400}}}
		var docSets [][]c19Doc
		// one document: every (t,u) pair
		for _, t := range vals {
			for _, u := range vals {
				docSets = append(docSets, []c19Doc{{1, t, u}})
			}
		}
		// two and three documents: every combination of t classes (u missing, or mirrored into u for the second document)
		for _, a := range vals {
			for _, b := range vals {
				docSets = append(docSets, []c19Doc{{1, a, missing}, {2, b, a}})
				if !c.Quick() {
					for _, cc := range vals {
						docSets = append(docSets, []c19Doc{{1, a, missing}, {2, b, missing}, {3, cc, b}})
					}
				}
			}
		}
		if c.Quick() {
			for _, a := range vals[:8] {
				for _, b := range vals[:8] {
					for _, cc := range vals[8:] {
						docSets = append(docSets, []c19Doc{{1, a, missing}, {2, cc, missing}, {3, b, cc}})
					}
				}
			}
		}
		var cases []c19Case
		for _, ttl := range ttlSets {
			for ei, extra := range []string{"", "x", "uy", "px"} {
				for _, other := range []bool{false, true} {
					for di, ds := range docSets {
						// the extra-index and other-namespace dimensions are crossed with a third of the document sets each
						if ei > 0 && di%3 != ei%3 {
							continue
						}
						cases = append(cases, c19Case{ttl, extra, other, ds})
					}
				}
			}
		}
		var removedDocs, passes, noopPasses, failedCommits, reloads, latePasses, partlyNoop int64
		par.For(len(cases), r.TooMany, func(ci int) {
			cs := cases[ci]
			rep := map[string]interface{}{"case": cs.String()}
			viol := func(class, what string) { r.Violation(class, what+"; "+cs.String(), rep) }
			for variant := 0; variant < 5; variant++ {
				// quick: every case as a plain pass, and each of the four other variants for a third of the cases
				if c.Quick() && variant > 0 && ci%3 != (variant-1)%3 {
					continue
				}
				w, err := c19Build(cs, variant == 3)
				if err != nil {
					r.Broken("build: %v (%s)", err, cs)
					return
				}
				name := []string{"pass", "pass after a pass whose commit failed", "pass after persist-and-reload", "pass over documents inserted after the indexed but still empty collections were persisted and reloaded", "pass after an UpdateMany that changes some of the documents and leaves the others as they are"}[variant]
				switch variant {
				case 1:
					// a pass whose commit is rejected by the store changes nothing; the retry behaves like a first pass
					before := w.DumpAll()
					w.Store.FailNext = 1
					_, perr := c19Pass(w)
					if after := w.DumpAll(); after != before {
						viol("failed-pass-changed-state", fmt.Sprintf("a pass whose commit failed (%v) changed the visible database:\n%s", perr, firstDiff(before, after)))
					}
					if w.Store.FailNext == 0 {
						atomic.AddInt64(&failedCommits, 1)
					}
					w.Store.FailNext = 0
				case 4:
					// the TTL fields are not touched: the expectations are those of the plain pass
					for _, coll := range []string{"c", "e"} {
						cl := w.C("d", coll)
						var first bson.D
						if cl.FindOne(w.Ctx, bD()).Decode(&first) != nil {
							continue
						}
						if _, err := cl.UpdateOne(w.Ctx, bD("_id", refmodel.GetPath(first, "_id")), bD("$set", bD("mark", int32(1)))); err != nil {
							viol("update-before-pass", name+": "+err.Error())
						}
						if _, err := cl.UpdateMany(w.Ctx, bD(), bD("$set", bD("mark", int32(1)))); err != nil {
							viol("update-before-pass", name+": "+err.Error())
						}
					}
					atomic.AddInt64(&partlyNoop, 1)
				case 2:
					if err := w.Reload(); err != nil {
						viol("reload", "reload failed: "+err.Error())
						w.Close()
						continue
					}
					atomic.AddInt64(&reloads, 1)
				}
				snapshot := w.Engine.Catalog()
				snapDump := world.DumpCatalog(snapshot, world.DumpOpts{Raw: true, Oplog: true, IndexList: true})
				before := c08Take(snapshot)
				dirty, err := c19Pass(w)
				atomic.AddInt64(&passes, 1)
				if err != nil {
					viol("pass-fails", name+": "+err.Error())
					w.Close()
					continue
				}
				after := c08Take(w.Engine.Catalog())
				// an earlier snapshot is untouched by the pass
				if d := world.DumpCatalog(snapshot, world.DumpOpts{Raw: true, Oplog: true, IndexList: true}); d != snapDump {
					viol("snapshot-altered", name+": the catalog obtained before the pass changed:\n"+firstDiff(snapDump, d))
				}
				wantC := c19Expect(cs.docs, cs.ttl)
				wantE := map[int32]bool{}
				if cs.other {
					wantE = c19Expect(cs.docs, []c19Index{{"t", 3600}})
				}
				total := 0
				for coll, want := range map[string]map[int32]bool{"d.c": wantC, "d.e": wantE} {
					total += len(want)
					for _, d := range cs.docs {
						key := J(d.id)
						was, has := before.contents[coll][key]
						now, still := after.contents[coll][key]
						if !has {
							r.Broken("document %v missing before the pass", d.id)
							continue
						}
						switch {
						case want[d.id] && still:
							viol("expired-document-kept:"+c19Class(d, cs), fmt.Sprintf("%s: %s %s is expired but was not removed", name, coll, J(was)))
						case !want[d.id] && !still:
							viol("live-document-removed:"+c19Class(d, cs), fmt.Sprintf("%s: %s %s must not expire but was removed", name, coll, J(was)))
						case !want[d.id] && J(now) != J(was):
							viol("document-altered", fmt.Sprintf("%s: %s %s became %s", name, coll, J(was), J(now)))
						}
					}
				}
				atomic.AddInt64(&removedDocs, int64(total))
				// exactly one delete event per removed document, nothing else; replay reproduces the contents
				newEvents := after.events[len(before.events):]
				var gotKeys, wantKeys []string
				for _, ev := range newEvents {
					if evField(ev, "operationType") != "delete" {
						viol("unexpected-event", fmt.Sprintf("%s: the pass logged a %v event", name, evField(ev, "operationType")))
					}
					gotKeys = append(gotKeys, fmt.Sprintf("%v.%v %s", refmodel.GetPath(ev, "ns.db"), refmodel.GetPath(ev, "ns.coll"), J(refmodel.GetPath(ev, "documentKey._id"))))
				}
				for id := range wantC {
					wantKeys = append(wantKeys, "d.c "+J(id))
				}
				for id := range wantE {
					wantKeys = append(wantKeys, "d.e "+J(id))
				}
				sort.Strings(gotKeys)
				sort.Strings(wantKeys)
				if strings.Join(gotKeys, ";") != strings.Join(wantKeys, ";") {
					viol("delete-events", fmt.Sprintf("%s: delete events %v, removed documents %v", name, gotKeys, wantKeys))
				}
				for _, v := range c08Check(before, after, false) {
					viol("log:"+v[0], name+": "+v[1])
				}
				for _, p := range append(coherenceProblems(w.Engine.Catalog()), uniqueProblems(w.Engine.Catalog())...) {
					viol("after-pass-"+p.class, name+": "+p.what)
				}
				if total == 0 {
					atomic.AddInt64(&noopPasses, 1)
					if dirty || w.Engine.Catalog() != snapshot {
						viol("noop-pass-changes-something", fmt.Sprintf("%s: nothing expired but Dirty()=%v and the published catalog changed=%v", name, dirty, w.Engine.Catalog() != snapshot))
					}
				} else if !dirty {
					viol("dirty-flag", name+": documents were removed but the transaction was not dirty")
				}
				// a second pass right away removes nothing
				snap2 := w.Engine.Catalog()
				if d2, err := c19Pass(w); err != nil || d2 || w.Engine.Catalog() != snap2 {
					viol("second-pass-not-idempotent", fmt.Sprintf("%s: an immediate second pass changed something (dirty=%v err=%v)", name, d2, err))
				}
				// the indexes keep expiring after the pass: a document that arrives later with 90 days old dates is removed by
				// the next pass exactly if its collection has a TTL index
				late := bD("_id", int32(99), "t", primitive.NewDateTimeFromTime(now.Add(-90*24*time.Hour)), "u", primitive.NewDateTimeFromTime(now.Add(-90*24*time.Hour)), "x", int32(99), "y", int32(99))
				for _, coll := range []string{"c", "e"} {
					if _, err := w.C("d", coll).InsertOne(w.Ctx, late); err != nil {
						viol("late-insert-fails", name+": "+err.Error())
					}
				}
				if _, err := c19Pass(w); err != nil {
					viol("pass-fails", name+": pass after a later insert: "+err.Error())
				}
				for coll, has := range map[string]bool{"c": len(cs.ttl) > 0, "e": cs.other} {
					n, _ := w.C("d", coll).CountDocuments(w.Ctx, bD("_id", int32(99)))
					if has && n != 0 {
						viol("later-document-kept", fmt.Sprintf("%s: a document with 90 days old dates inserted into d.%s after the pass is not removed by the next pass", name, coll))
					} else if !has && n != 1 {
						viol("later-document-removed", fmt.Sprintf("%s: a document inserted into d.%s (no TTL index) after the pass was removed by the next pass", name, coll))
					}
				}
				atomic.AddInt64(&latePasses, 1)
				w.Close()
			}
		})
		// the real expiry loop on a database nobody writes to: a document that crosses the cut-off only because time passes
		// is removed by a later tick (the ticks are granted by hand; the only wall-clock quantity is the 1 s interval of the
		// index, the removal itself is awaited for up to 90 s of repeated ticks)
		{
			w := world.New()
			cCreateIndex("d", "c", bD("t", int32(1)), idxOpt{expire: i32(1)}).Do(w)
			inserted := time.Now()
			_, _ = w.C("d", "c").InsertOne(w.Ctx, bD("_id", "ages", "t", primitive.NewDateTimeFromTime(inserted)))
			_, _ = w.C("d", "c").InsertOne(w.Ctx, bD("_id", "stays", "t", primitive.NewDateTimeFromTime(inserted.Add(time.Hour))))
			lungo.VerifGrantTick(w.Engine) // a pass that finds nothing to remove
			time.Sleep(300 * time.Millisecond)
			lungo.VerifGrantTick(w.Engine) // and another one
			for time.Since(inserted) < 2200*time.Millisecond {
				time.Sleep(100 * time.Millisecond)
			}
			gone := false
			for deadline := time.Now().Add(90 * time.Second); time.Now().Before(deadline) && !gone; {
				lungo.VerifGrantTick(w.Engine)
				time.Sleep(200 * time.Millisecond)
				n, _ := w.C("d", "c").CountDocuments(w.Ctx, bD("_id", "ages"))
				gone = n == 0
			}
			n2, _ := w.C("d", "c").CountDocuments(w.Ctx, bD("_id", "stays"))
			if !gone {
				r.Violation("expiry-loop:aged-document-kept", "a document whose date became older than the 1 s interval of its TTL index while nothing was written is still there after 90 s of ticks of the expiry loop", map[string]interface{}{"case": "real loop, idle database"})
			}
			if n2 != 1 {
				r.Violation("expiry-loop:live-document-removed", "the expiry loop removed a document dated one hour ahead", map[string]interface{}{"case": "real loop, idle database"})
			}
			r.Set("real_loop_idle_database_case", int64(1))
			w.Close()
		}
		// a TTL option on a compound key is rejected
		{
			w := world.New()
			if obs := cCreateIndex("d", "c", bD("t", int32(1), "u", int32(1)), idxOpt{expire: i32(60)}).Do(w); strings.HasPrefix(obs, "ok") {
				r.Violation("compound-ttl-accepted", "an index on {t:1,u:1} with expireAfterSeconds was created", map[string]interface{}{"case": "compound"})
			}
			w.Close()
		}
		r.Set("evaluations", passes)
		r.Set("cases", int64(len(cases)))
		r.Set("passes", passes)
		r.Set("passes_removing_nothing", noopPasses)
		r.Set("documents_expected_to_expire", removedDocs)
		r.Set("failed_commit_variants", failedCommits)
		r.Set("reload_variants", reloads)
		r.Set("partly_noop_update_variants", partlyNoop)
		r.Set("passes_over_later_documents", latePasses)
		r.Set("distinct_nontrivial", passes-noopPasses)
		r.Set("grammar_sizes", map[string]interface{}{"field_value_classes": len(vals), "ttl_index_sets": len(ttlSets), "document_sets": len(docSets), "extra_index_kinds": 4, "other_namespace": 2, "variants": 5})
		r.Set("exhaustive", !r.TooMany())
		var names []string
		for _, v := range vals {
			names = append(names, v.name)
		}
		r.Set("samples", []interface{}{map[string]interface{}{"value_classes": names}, map[string]interface{}{"example_case": cases[len(cases)/2].String()}})
		r.Set("rule", "every TTL index set x extra index x second namespace (with/without its own TTL index, same documents) x every document set (1 document: every (t,u) pair of 14 value classes; 2-3 documents: every combination of classes) x {plain pass, pass after a pass whose commit failed, pass after persist-and-reload, pass over documents inserted after the indexed empty collections were persisted and reloaded} through Begin/Transaction.Expire/Commit: a document is removed iff a TTL index of its collection covers a date (or an array containing one) older than the expiry interval; all other documents byte-identical; exactly one delete event per removed document; replaying the events reproduces the contents; indexes coherent; a pass that removes nothing leaves Dirty()==false and the published catalog pointer unchanged; a failed pass changes nothing; earlier catalog snapshots stay byte-identical; an immediate second pass is a no-op; TTL on a compound key is rejected")
		r.Assume("dates are 120 min old, 30 min old or 120 min in the future: at least 30 min away from the cut-offs 0 s and 3600 s, so the wall clock cannot flip a decision during the run", "the real expiry goroutine driving this pass is explored under the scheduler by C04 (S7) and C16 (actor T)")
		if passes < 3000 || removedDocs < 1000 || noopPasses < 300 {
			r.Broken("vacuity: passes=%d removed=%d noop=%d", passes, removedDocs, noopPasses)
		}
	})
}

func c19Class(d c19Doc, cs c19Case) string {
	var ix []string
	for _, i := range cs.ttl {
		ix = append(ix, fmt.Sprintf("%s%d", i.field, i.secs))
	}
	return strings.ReplaceAll(fmt.Sprintf("t=%s,u=%s,ttl=%s", d.t.name, d.u.name, strings.Join(ix, "+")), " ", "_")
}

var _ = lungo.Oplog
