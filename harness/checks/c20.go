package checks

import (
	"bytes"
	"context"
	"encoding/json"
	"fmt"
	"io"
	"math"
	"os"
	"os/exec"
	"strconv"
	"strings"
	"time"

	"go.mongodb.org/mongo-driver/bson"
	"go.mongodb.org/mongo-driver/bson/primitive"
	"go.mongodb.org/mongo-driver/mongo"
	"go.mongodb.org/mongo-driver/mongo/options"

	"github.com/256dpi/lungo"
	"github.com/256dpi/lungo/bsonkit"
	"github.com/256dpi/lungo/mongokit"

	"verif/internal/e1"
	"verif/internal/par"
	"verif/internal/world"
)

// ---------------------------------------------------------------------------
// C20 — well-formed input never panics the library.

type c20Case struct {
	kind string               // category (class of a violation)
	desc func() string        // lazily rendered description
	run  func(w *world.World) // the call(s); results and errors are ignored
	db   bool                 // touches the engine: probe write afterwards
}

func c20W() []interface{} {
	d128 := func(s string) primitive.Decimal128 { d, _ := primitive.ParseDecimal128(s); return d }
	oid, _ := primitive.ObjectIDFromHex("0102030405060708090a0b0c")
	deep := interface{}(int32(1))
	for i := 0; i < 40; i++ {
		deep = bD("n", bson.A{deep})
	}
	return []interface{}{
		int32(0), int32(1), int32(-1), int32(math.MaxInt32), int64(math.MaxInt64), int64(math.MinInt64), int64(2), 1.5, -0.5, 0.0, 1e308, 5e-324, math.NaN(), math.Inf(1), math.Inf(-1),
		d128("1"), d128("0"), d128("NaN"), d128("Infinity"), d128("9.999999999999999999999999999999999E+6144"), d128("1E-6176"),
		"", "a", "$x", "0", strings.Repeat("z", 5000), nil, true, false,
		primitive.DateTime(0), primitive.DateTime(math.MinInt64), primitive.Timestamp{T: 1, I: 1}, oid, primitive.Regex{Pattern: "(", Options: "q"}, primitive.Regex{Pattern: "a", Options: "i"},
		primitive.Binary{Subtype: 0, Data: []byte{1, 2}}, primitive.Binary{Subtype: 0, Data: nil},
		bson.D{}, bson.A{}, bD("a", int32(1)), bD("$gt", int32(1)), bD("$bogus", int32(1)), bD("", int32(1)), bD("$each", int32(1)), bD("$each", bson.A{int32(1)}, "$slice", "x"),
		bD("$gte", int32(0), "", int32(2)), bD("$in", bson.A{int32(1)}, "x", int32(1)), bD("$exists", true, "$bogus", int32(1)), bD("x", int32(1), "$gt", int32(0)),
		bson.A{int32(1), "a", nil}, bson.A{bson.A{}, bson.D{}}, bson.A{bD("x", int32(1)), bD("x", bson.A{})}, bson.A{int32(-1), int64(70), 1.5}, deep,
	}
}

func c20Paths() []string {
	return []string{"a", "a.b", "a.0", "a.b.0", "", ".", "a.", ".a", "a..b", "$", "a.$", "a.$[]", "a.$[x]", "a.$[x", "0", "a.-1", "a.01", "a.1048576", "_id", "_id.k",
		// indexes at and next to the largest integer, far beyond any array, and numerals that only some parsers accept
		"a.9223372036854775807", "a.9223372036854775806", "a.4294967296", "a.+1", "a.1e2", "a.b.9223372036854775807"}
}

func c20Docs() []bson.D {
	deep := interface{}(int32(1))
	for i := 0; i < 32; i++ {
		deep = bD("b", deep)
	}
	d128nan, _ := primitive.ParseDecimal128("NaN")
	return []bson.D{
		bD("_id", int32(1)),
		bD("_id", int32(2), "a", int32(1)),
		bD("_id", int32(3), "a", "s"),
		bD("_id", int32(4), "a", bD("b", bson.A{int32(1), int32(2)})),
		bD("_id", int32(5), "a", bson.A{int32(1), bD("b", int32(2)), bson.A{int32(3)}, nil}),
		bD("_id", int32(6), "a", bson.A{}),
		bD("_id", bD("k", int32(1), "l", bson.A{int32(1)}), "a", math.NaN()),
		bD("_id", primitive.Binary{Subtype: 0, Data: []byte{7}}, "a", nil),
		bD("_id", d128nan, "a", d128nan),
		bD("_id", int32(10), "a", deep),
		bD("_id", int32(11), "", int32(1), "a", bD("", bD("", int32(2)))),
		bD("_id", int32(12), "a", bson.A{bD("b", bson.A{bD("c", int32(1))}), bD("b", int32(5))}, "0", int32(1)),
	}
}

func clone(d bson.D) *bson.D { c := bsonkit.Clone(&d); return c }

// c20Cases builds the whole grammar.
func c20Cases(quick bool) []c20Case {
	W, P, D := c20W(), c20Paths(), c20Docs()
	var out []c20Case
	add := func(kind string, db bool, desc func() string, run func(w *world.World)) {
		out = append(out, c20Case{kind, desc, run, db})
	}
	qops := []string{"$eq", "$ne", "$gt", "$gte", "$lt", "$lte", "$in", "$nin", "$exists", "$type", "$all", "$size", "$elemMatch", "$mod", "$not", "$regex", "$options", "$bitsAllSet", "$bitsAnySet", "$bitsAllClear", "$bitsAnyClear", "$bogus", ""}
	for _, op := range qops {
		for _, wv := range W {
			for _, p := range P {
				op, wv, p := op, wv, p
				var q bson.D
				if op == "" {
					q = bson.D{{Key: p, Value: wv}}
				} else {
					q = bson.D{{Key: p, Value: bson.D{{Key: op, Value: wv}}}}
				}
				add("match:"+op, false, func() string { return "mongokit.Match(every document, " + short(J(q), 300) + ")" }, func(*world.World) {
					for _, d := range D {
						_, _ = mongokit.Match(clone(d), &q)
					}
				})
			}
		}
	}
	// operators that take a pair: every ordered pair of the numeric operands (divisor/remainder, positions, ranges)
	numeric := W[:21]
	for _, op := range []string{"$mod", "$in", "$all", "$bitsAnySet", "$size", "$type"} {
		for _, x := range numeric {
			for _, y := range numeric {
				op, x, y := op, x, y
				q1 := bson.D{{Key: "a", Value: bson.D{{Key: op, Value: bson.A{x, y}}}}}
				q2 := bson.D{{Key: "a.b", Value: bson.D{{Key: "$not", Value: bson.D{{Key: op, Value: bson.A{x, y}}}}}}}
				add("match-pair:"+op, false, func() string {
					return "mongokit.Match(every document and {a: each numeric operand}, " + short(J(q1), 300) + ") and under $not on a.b"
				}, func(*world.World) {
					for _, d := range D {
						_, _ = mongokit.Match(clone(d), &q1)
						_, _ = mongokit.Match(clone(d), &q2)
					}
					for _, n := range numeric {
						_, _ = mongokit.Match(&bson.D{{Key: "a", Value: n}}, &q1)
						_, _ = mongokit.Match(&bson.D{{Key: "a", Value: bson.D{{Key: "b", Value: bson.A{n}}}}}, &q2)
					}
				})
			}
		}
	}
	for _, top := range []string{"$and", "$or", "$nor", "$not", "$jsonSchema", "$expr", "$where", "$comment", "$text", "$bogus"} {
		for _, wv := range W {
			top, wv := top, wv
			q := bson.D{{Key: top, Value: wv}}
			add("match-top:"+top, false, func() string { return "mongokit.Match(every document, " + short(J(q), 300) + ")" }, func(*world.World) {
				for _, d := range D {
					_, _ = mongokit.Match(clone(d), &q)
				}
			})
			q2 := bson.D{{Key: top, Value: bson.A{wv, bD("a", wv)}}}
			add("match-top:"+top, false, func() string { return "mongokit.Match(every document, " + short(J(q2), 300) + ")" }, func(*world.World) {
				for _, d := range D {
					_, _ = mongokit.Match(clone(d), &q2)
				}
			})
		}
	}
	for _, kw := range []string{"type", "bsonType", "enum", "required", "properties", "patternProperties", "additionalProperties", "items", "additionalItems", "minimum", "maximum", "exclusiveMinimum", "exclusiveMaximum", "multipleOf", "minItems", "maxItems", "uniqueItems", "minLength", "maxLength", "pattern", "minProperties", "maxProperties", "allOf", "anyOf", "oneOf", "not", "dependencies", "title", "description", "bogus"} {
		for _, wv := range W {
			kw, wv := kw, wv
			q := bD("$jsonSchema", bD(kw, wv))
			q2 := bD("$jsonSchema", bD("properties", bD("a", bD(kw, wv), "_id", bD(kw, wv))))
			add("jsonSchema:"+kw, false, func() string {
				return "mongokit.Match(every document, " + short(J(q), 300) + ") and nested under properties"
			}, func(*world.World) {
				for _, d := range D {
					_, _ = mongokit.Match(clone(d), &q)
					_, _ = mongokit.Match(clone(d), &q2)
				}
			})
		}
	}
	uops := []string{"$set", "$setOnInsert", "$unset", "$rename", "$inc", "$mul", "$min", "$max", "$currentDate", "$push", "$pop", "$pull", "$pullAll", "$addToSet", "$bit", "$bogus"}
	for _, op := range uops {
		for _, wv := range W {
			for _, p := range P {
				op, wv, p := op, wv, p
				u := bson.D{{Key: op, Value: bson.D{{Key: p, Value: wv}}}}
				add("apply:"+op, false, func() string {
					return "mongokit.Apply(every document, " + short(J(u), 300) + ") with and without upsert, with array filter {x:1}"
				}, func(*world.World) {
					af := bsonkit.List{&bson.D{{Key: "x", Value: int32(1)}}}
					for _, d := range D {
						_, _ = mongokit.Apply(clone(d), &bson.D{}, &u, false, nil)
						_, _ = mongokit.Apply(clone(d), &bson.D{{Key: "a", Value: int32(1)}}, &u, true, af)
					}
				})
			}
		}
	}
	// update documents that are not operator documents, operator values that are not documents
	for _, op := range uops {
		for _, wv := range W {
			op, wv := op, wv
			u := bson.D{{Key: op, Value: wv}}
			add("apply-shape:"+op, false, func() string { return "mongokit.Apply(every document, " + short(J(u), 300) + ")" }, func(*world.World) {
				for _, d := range D {
					_, _ = mongokit.Apply(clone(d), &bson.D{}, &u, false, nil)
				}
			})
		}
	}
	for _, mod := range []string{"$each", "$position", "$slice", "$sort", "$bogus"} {
		for _, wv := range W {
			for _, p := range []string{"a", "a.b", "a.0", "n"} {
				mod, wv, p := mod, wv, p
				arg := bson.D{{Key: "$each", Value: bson.A{int32(1), bD("x", int32(1))}}}
				if mod == "$each" {
					arg = bson.D{{Key: "$each", Value: wv}}
				} else {
					arg = append(arg, bson.E{Key: mod, Value: wv})
				}
				for _, op := range []string{"$push", "$addToSet"} {
					u := bson.D{{Key: op, Value: bson.D{{Key: p, Value: arg}}}}
					add("apply-modifier:"+op+":"+mod, false, func() string { return "mongokit.Apply(every document, " + short(J(u), 300) + ")" }, func(*world.World) {
						for _, d := range D {
							_, _ = mongokit.Apply(clone(d), &bson.D{}, &u, false, nil)
						}
					})
				}
			}
		}
	}
	// array filters of every shape
	for _, wv := range W {
		wv := wv
		u := bD("$set", bD("a.$[x].b", int32(1), "a.$[y]", int32(2)))
		add("array-filters", false, func() string {
			return "mongokit.Apply(every document, " + J(u) + ") with array filters [" + short(J(wv), 200) + "-shaped]"
		}, func(*world.World) {
			var lists []bsonkit.List
			lists = append(lists, bsonkit.List{&bson.D{{Key: "x", Value: wv}}}, bsonkit.List{&bson.D{{Key: "x.b", Value: wv}}, &bson.D{{Key: "y", Value: bD("$gt", wv)}}}, bsonkit.List{&bson.D{}}, bsonkit.List{&bson.D{{Key: "", Value: wv}}}, bsonkit.List{&bson.D{{Key: "x", Value: int32(1)}}, &bson.D{{Key: "x", Value: int32(2)}}})
			if d, ok := wv.(bson.D); ok {
				lists = append(lists, bsonkit.List{&d})
			}
			for _, l := range lists {
				for _, d := range D {
					_, _ = mongokit.Apply(clone(d), &bson.D{}, &u, false, l)
				}
			}
		})
	}
	// projections and sorts
	for _, wv := range W {
		for _, p := range P {
			wv, p := wv, p
			add("project", false, func() string {
				return fmt.Sprintf("mongokit.Project(every document, {%q: v | {$slice: v} | {$elemMatch: v} | {$bogus: v}}) with v = %s", p, short(J(wv), 200))
			}, func(*world.World) {
				for _, pr := range []bson.D{{{Key: p, Value: wv}}, {{Key: p, Value: bD("$slice", wv)}}, {{Key: p, Value: bD("$elemMatch", wv)}}, {{Key: p, Value: bD("$bogus", wv)}}, {{Key: p, Value: bD("$slice", bson.A{wv, int32(1)})}}, {{Key: p, Value: bD("$slice", bson.A{int32(1), wv})}}, {{Key: "a", Value: int32(1)}, {Key: p, Value: wv}}} {
					for _, d := range D {
						pr := pr
						_, _ = mongokit.Project(clone(d), &pr)
					}
				}
			})
			add("sort", false, func() string { return fmt.Sprintf("mongokit.Sort(all documents, {%q: %s})", p, short(J(wv), 200)) }, func(*world.World) {
				var list bsonkit.List
				for _, d := range D {
					list = append(list, clone(d))
				}
				_, _ = mongokit.Sort(list, &bson.D{{Key: p, Value: wv}})
				_, _ = mongokit.Sort(list, &bson.D{{Key: p, Value: int32(1)}, {Key: "a", Value: wv}})
				_ = mongokit.Distinct(list, p)
			})
		}
	}
	// bsonkit primitives
	for _, wv := range W {
		for _, p := range P {
			wv, p := wv, p
			add("bsonkit-access", false, func() string {
				return fmt.Sprintf("bsonkit Get/All/Put/Unset/Increment/Multiply/Push/Pop(every document, %q, %s)", p, short(J(wv), 200))
			}, func(*world.World) {
				for _, d := range D {
					_ = bsonkit.Get(clone(d), p)
					_, _ = bsonkit.All(clone(d), p, true, true)
					_, _ = bsonkit.All(clone(d), p, false, false)
					_, _ = bsonkit.Put(clone(d), p, wv, false)
					_, _ = bsonkit.Put(clone(d), p, wv, true)
					_ = bsonkit.Unset(clone(d), p)
					_, _ = bsonkit.Increment(clone(d), p, wv)
					_, _ = bsonkit.Multiply(clone(d), p, wv)
					_, _ = bsonkit.Push(clone(d), p, wv)
					_, _ = bsonkit.Pop(clone(d), p, true)
					_, _ = bsonkit.Pop(clone(d), p, false)
				}
			})
		}
	}
	for _, a := range W {
		for _, b := range W {
			a, b := a, b
			add("bsonkit-arith", false, func() string {
				return "bsonkit Compare/Add/Mul/Mod(" + short(J(a), 120) + ", " + short(J(b), 120) + ")"
			}, func(*world.World) {
				_ = bsonkit.Compare(a, b)
				_ = bsonkit.Add(a, b)
				_ = bsonkit.Mul(a, b)
				_ = bsonkit.Mod(a, b)
			})
		}
	}
	// driver level: every document shape in a collection, calls with odd arguments
	load := func(w *world.World) {
		_ = w.C("d", "c").Drop(w.Ctx)
		for _, d := range D {
			_, _ = w.C("d", "c").InsertOne(w.Ctx, d)
		}
	}
	coreOps := []string{"$eq", "$gt", "$in", "$all", "$elemMatch", "$mod", "$type", "$size", "$not", "$bitsAllSet", "$regex"}
	coreP := []string{"a", "a.b", "a.0", "", "a..b", "a.$[x]", "_id"}
	coreU := []string{"$set", "$unset", "$inc", "$mul", "$push", "$pull", "$addToSet", "$rename", "$pop", "$bit", "$min", "$currentDate"}
	for wi, wv := range W {
		if quick && wi%2 == 1 {
			continue
		}
		for _, p := range coreP {
			wv, p := wv, p
			add("driver-query", true, func() string {
				return fmt.Sprintf("Find/CountDocuments/Distinct/DeleteMany/FindOneAndDelete with {%q: {op: %s}} for %v and sort/projection %s", p, short(J(wv), 160), coreOps, short(J(wv), 80))
			}, func(w *world.World) {
				load(w)
				c := w.C("d", "c")
				for _, op := range coreOps {
					q := bson.D{{Key: p, Value: bson.D{{Key: op, Value: wv}}}}
					if cur, err := c.Find(w.Ctx, q, options.Find().SetSort(bson.D{{Key: p, Value: wv}}).SetProjection(bson.D{{Key: p, Value: wv}})); err == nil {
						var docs []bson.D
						_ = cur.All(w.Ctx, &docs)
					}
					if cur, err := c.Find(w.Ctx, q); err == nil {
						var docs []bson.M
						_ = cur.All(w.Ctx, &docs)
					}
					_, _ = c.CountDocuments(w.Ctx, q)
					_, _ = c.Distinct(w.Ctx, "a", q)
					_ = c.FindOneAndDelete(w.Ctx, q).Err()
					_, _ = c.DeleteMany(w.Ctx, q)
				}
			})
			add("driver-update", true, func() string {
				return fmt.Sprintf("UpdateMany/UpdateOne(upsert)/FindOneAndUpdate/ReplaceOne/BulkWrite with {op: {%q: %s}} for %v", p, short(J(wv), 160), coreU)
			}, func(w *world.World) {
				load(w)
				c := w.C("d", "c")
				for _, op := range coreU {
					u := bson.D{{Key: op, Value: bson.D{{Key: p, Value: wv}}}}
					_, _ = c.UpdateMany(w.Ctx, bD(), u)
					_, _ = c.UpdateOne(w.Ctx, bD("nope", wv), u, options.Update().SetUpsert(true))
					_ = c.FindOneAndUpdate(w.Ctx, bD(), u, options.FindOneAndUpdate().SetSort(bD("a", int32(1))).SetUpsert(true)).Err()
					_, _ = c.UpdateMany(w.Ctx, bD("a", bD("$exists", true)), u, options.Update().SetArrayFilters(options.ArrayFilters{Filters: []interface{}{bD("x", wv)}}))
					_, _ = c.BulkWrite(w.Ctx, []mongo.WriteModel{mongo.NewUpdateManyModel().SetFilter(bD()).SetUpdate(u), mongo.NewInsertOneModel().SetDocument(bD("_id", wv)), mongo.NewDeleteOneModel().SetFilter(bD("_id", wv))}, options.BulkWrite().SetOrdered(false))
					// ordered batches in which the item that may fail comes first, in the middle and last
					for pos := 0; pos < 3; pos++ {
						ms := []mongo.WriteModel{mongo.NewInsertOneModel().SetDocument(bD("bulk", int32(pos))), mongo.NewDeleteOneModel().SetFilter(bD("bulk", int32(pos)))}
						odd := mongo.NewUpdateOneModel().SetFilter(bD()).SetUpdate(u)
						ms = append(ms[:pos], append([]mongo.WriteModel{odd}, ms[pos:]...)...)
						_, _ = c.BulkWrite(w.Ctx, ms, options.BulkWrite().SetOrdered(true))
						_, _ = c.BulkWrite(w.Ctx, ms)
					}
				}
				if d, ok := wv.(bson.D); ok {
					_, _ = c.ReplaceOne(w.Ctx, bD(), d)
					_, _ = c.ReplaceOne(w.Ctx, bD("_id", wv), d, options.Replace().SetUpsert(true))
					_, _ = c.InsertOne(w.Ctx, d)
				}
			})
		}
		wv := wv
		add("driver-id", true, func() string {
			return "documents with _id = " + short(J(wv), 200) + ": InsertOne, UpdateOne, UpdateByID, ReplaceOne, FindOneAndReplace, DeleteOne"
		}, func(w *world.World) {
			load(w)
			c := w.C("d", "c")
			_, _ = c.InsertOne(w.Ctx, bD("_id", wv, "n", int32(0)))
			_, _ = c.UpdateOne(w.Ctx, bD("_id", wv), bD("$inc", bD("n", int32(1))))
			_, _ = c.UpdateByID(w.Ctx, wv, bD("$set", bD("m", wv)))
			_, _ = c.UpdateOne(w.Ctx, bD("_id", wv), bD("$set", bD("_id", wv)))
			_, _ = c.ReplaceOne(w.Ctx, bD("_id", wv), bD("n", int32(5)))
			_, _ = c.ReplaceOne(w.Ctx, bD("_id", wv), bD("_id", wv, "n", int32(6)))
			_ = c.FindOneAndReplace(w.Ctx, bD("_id", wv), bD("n", int32(7))).Err()
			_, _ = c.DeleteOne(w.Ctx, bD("_id", wv))
			// every stored document (incl. document- and binary-valued _id): update, replace, delete by its own _id
			for _, d := range D {
				id := d[0].Value
				_, _ = c.UpdateOne(w.Ctx, bD("_id", id), bD("$set", bD("touched", wv)))
				_, _ = c.ReplaceOne(w.Ctx, bD("_id", id), bD("r", wv))
				_ = c.FindOneAndUpdate(w.Ctx, bD("_id", id), bD("$set", bD("again", true))).Err()
				_, _ = c.UpdateMany(w.Ctx, bD(), bD("$set", bD("all", int32(1))))
			}
		})
		add("driver-index", true, func() string {
			return "Indexes().CreateOne with keys {a: " + short(J(wv), 200) + "} / partial filter / on every path"
		}, func(w *world.World) {
			load(w)
			c := w.C("d", "c")
			for _, p := range coreP {
				_, _ = c.Indexes().CreateOne(w.Ctx, mongo.IndexModel{Keys: bson.D{{Key: p, Value: wv}}})
				_, _ = c.Indexes().CreateOne(w.Ctx, mongo.IndexModel{Keys: bson.D{{Key: p, Value: int32(1)}}, Options: options.Index().SetName("n" + p).SetUnique(true)})
				if d, ok := wv.(bson.D); ok {
					_, _ = c.Indexes().CreateOne(w.Ctx, mongo.IndexModel{Keys: bD("a", int32(1)), Options: options.Index().SetPartialFilterExpression(d).SetName("p" + p)})
				}
				_, _ = c.InsertOne(w.Ctx, bD("a", wv))
				_, _ = c.Indexes().DropAll(w.Ctx)
			}
		})
	}
	// upserts into an empty collection: the filter is interpreted by the extraction of the new document only
	for wi, wv := range W {
		if quick && wi%2 == 1 {
			continue
		}
		wv := wv
		add("driver-upsert-empty", true, func() string {
			return "UpdateOne / UpdateMany / ReplaceOne / FindOneAndUpdate / FindOneAndReplace with upsert into an empty collection, filters {$and|$or|$nor: operand, [operand], []}, {a: {$eq|$in|$all: operand}}, {\"a.b\": operand} with operand " + short(J(wv), 200)
		}, func(w *world.World) {
			var filters []bson.D
			for _, op := range []string{"$and", "$or", "$nor"} {
				filters = append(filters, bD(op, wv), bD(op, bson.A{wv}), bD(op, bson.A{}), bD(op, bson.A{bD("a", wv), bD("b", int32(1))}), bD("x", int32(1), op, bson.A{bD(op, bson.A{})}))
			}
			for _, op := range []string{"$eq", "$in", "$all", "$gt", "$exists", "$elemMatch"} {
				filters = append(filters, bD("a", bD(op, wv)), bD("a.b", bD(op, bson.A{wv})))
			}
			filters = append(filters, bD("a.b", wv), bD("_id", wv), bD("a", wv, "a.b", wv), bD("", wv))
			for _, f := range filters {
				c := w.C("d", "empty")
				_ = c.Drop(w.Ctx)
				_, _ = c.UpdateOne(w.Ctx, f, bD("$set", bD("z", int32(1))), options.Update().SetUpsert(true))
				_ = c.Drop(w.Ctx)
				_, _ = c.UpdateMany(w.Ctx, f, bD("$setOnInsert", bD("z", wv)), options.Update().SetUpsert(true))
				_ = c.Drop(w.Ctx)
				_, _ = c.ReplaceOne(w.Ctx, f, bD("z", int32(1)), options.Replace().SetUpsert(true))
				_ = c.Drop(w.Ctx)
				_ = c.FindOneAndUpdate(w.Ctx, f, bD("$inc", bD("z", int32(1))), options.FindOneAndUpdate().SetUpsert(true).SetReturnDocument(options.After)).Err()
				_ = c.Drop(w.Ctx)
				_ = c.FindOneAndReplace(w.Ctx, f, bD("z", int32(1)), options.FindOneAndReplace().SetUpsert(true)).Err()
			}
		})
	}
	// reads with every combination of extreme skip / limit / batch size values
	extremes := []int64{0, 1, -1, 2, math.MaxInt32, math.MaxInt32 + 1, math.MaxInt64, math.MinInt64, math.MaxInt64 - 1}
	for _, skip := range extremes {
		skip := skip
		add("driver-window", true, func() string {
			return fmt.Sprintf("Find / FindOne / CountDocuments / Distinct with skip=%d and every limit of %v, with and without sort", skip, extremes)
		}, func(w *world.World) {
			load(w)
			c := w.C("d", "c")
			for _, limit := range extremes {
				for _, sortSpec := range []bson.D{nil, bD("a", int32(-1))} {
					fo := options.Find().SetSkip(skip).SetLimit(limit).SetBatchSize(int32(limit))
					if sortSpec != nil {
						fo.SetSort(sortSpec)
					}
					if cur, err := c.Find(w.Ctx, bD(), fo); err == nil {
						var docs []bson.D
						_ = cur.All(w.Ctx, &docs)
					}
					if cur, err := c.Find(w.Ctx, bD("a", bD("$exists", true)), fo); err == nil {
						for cur.Next(w.Ctx) {
						}
					}
				}
				_, _ = c.CountDocuments(w.Ctx, bD(), options.Count().SetSkip(skip).SetLimit(limit))
				_, _ = c.CountDocuments(w.Ctx, bD("a", bD("$exists", true)), options.Count().SetLimit(limit))
			}
			_ = c.FindOne(w.Ctx, bD(), options.FindOne().SetSkip(skip)).Err()
			_ = c.FindOne(w.Ctx, bD(), options.FindOne().SetSkip(skip).SetSort(bD("a", int32(1)))).Err()
		})
	}
	// listings filtered on every field of the specifications they produce
	listFields := []string{"name", "sizeOnDisk", "empty", "type", "options", "info", "info.uuid", "info.readOnly", "idIndex", "idIndex.v", "idIndex.key", "idIndex.key._id", "idIndex.name", "idIndex.namespace", "v", "key", "key._id", "unique", "nope"}
	for wi, wv := range W {
		if quick && wi%3 != 0 {
			continue
		}
		wv := wv
		add("driver-listings", true, func() string {
			return "ListDatabases / ListDatabaseNames / ListCollections / ListCollectionNames / ListCollectionSpecifications filtered on each specification field with operand " + short(J(wv), 200)
		}, func(w *world.World) {
			load(w)
			_, _ = w.C("d", "c").Indexes().CreateOne(w.Ctx, mongo.IndexModel{Keys: bD("a", int32(1)), Options: options.Index().SetUnique(false)})
			db := w.Client.Database("d")
			for _, f := range listFields {
				for _, q := range []bson.D{{{Key: f, Value: wv}}, {{Key: f, Value: bD("$gt", wv)}}, {{Key: f, Value: bD("$in", bson.A{wv, int32(2), int64(0)})}}, {{Key: f, Value: bD("$type", "number")}}, {{Key: f, Value: bD("$mod", bson.A{int32(2), int32(0)})}}, {{Key: f, Value: bD("$bitsAllSet", int32(2))}}} {
					_, _ = w.Client.ListDatabases(w.Ctx, q)
					_, _ = w.Client.ListDatabaseNames(w.Ctx, q)
					if cur, err := db.ListCollections(w.Ctx, q); err == nil {
						var specs []bson.M
						_ = cur.All(w.Ctx, &specs)
					}
					_, _ = db.ListCollectionNames(w.Ctx, q)
					_, _ = db.ListCollectionSpecifications(w.Ctx, q)
				}
			}
			if cur, err := w.C("d", "c").Indexes().List(w.Ctx); err == nil {
				var specs []bson.M
				_ = cur.All(w.Ctx, &specs)
			}
			_, _ = w.C("d", "c").Indexes().ListSpecifications(w.Ctx)
		})
	}
	// change streams opened with every operand as resume token, as the ts of a token, as start time
	for wi, wv := range W {
		if quick && wi%2 == 1 {
			continue
		}
		wv := wv
		add("driver-watch-options", true, func() string {
			return "Watch on client / database / collection with resumeAfter / startAfter = operand, {ts: operand}, {ts: operand, x: 1}, a token of a dropped collection; pipeline = operand; operand " + short(J(wv), 200)
		}, func(w *world.World) {
			load(w)
			c := w.C("d", "c")
			var tokens []interface{}
			tokens = append(tokens, wv, bD("ts", wv), bD("ts", wv, "x", int32(1)), bD("x", wv), bD("ts", "drop"), bD())
			// a real token, and the token of an invalidate event
			if s, err := c.Watch(w.Ctx, bson.A{}); err == nil {
				_, _ = c.InsertOne(w.Ctx, bD("_id", "w1"))
				if s.TryNext(w.Ctx) {
					tokens = append(tokens, s.ResumeToken())
				}
				_ = c.Drop(w.Ctx)
				for s.TryNext(w.Ctx) {
				}
				tokens = append(tokens, s.ResumeToken())
				_ = s.Close(w.Ctx)
				load(w)
			}
			for _, tok := range tokens {
				for _, mk := range []func() *options.ChangeStreamOptions{
					func() *options.ChangeStreamOptions { return options.ChangeStream().SetResumeAfter(tok) },
					func() *options.ChangeStreamOptions { return options.ChangeStream().SetStartAfter(tok) },
				} {
					for _, open := range []func(*options.ChangeStreamOptions) (lungo.IChangeStream, error){
						func(o *options.ChangeStreamOptions) (lungo.IChangeStream, error) { return c.Watch(w.Ctx, bson.A{}, o) },
						func(o *options.ChangeStreamOptions) (lungo.IChangeStream, error) {
							return w.Client.Database("d").Watch(w.Ctx, bson.A{}, o)
						},
						func(o *options.ChangeStreamOptions) (lungo.IChangeStream, error) {
							return w.Client.Watch(w.Ctx, bson.A{}, o)
						},
					} {
						if s, err := open(mk()); err == nil {
							_, _ = c.InsertOne(w.Ctx, bD("k", int32(1)))
							s.TryNext(w.Ctx)
							_ = s.Close(w.Ctx)
						}
					}
				}
			}
			if s, err := c.Watch(w.Ctx, wv); err == nil {
				_ = s.Close(w.Ctx)
			}
			for _, ts := range []primitive.Timestamp{{}, {T: 1, I: 1}, {T: math.MaxUint32, I: math.MaxUint32}} {
				ts := ts
				if s, err := c.Watch(w.Ctx, bson.A{}, options.ChangeStream().SetStartAtOperationTime(&ts)); err == nil {
					s.TryNext(w.Ctx)
					_ = s.Close(w.Ctx)
				}
			}
		})
	}
	// session transactions that end up changing nothing, committed and aborted, through every entry point: the next write
	// (the probe after the case) must go through
	add("driver-session-clean-transactions", true, func() string {
		return "session transactions holding only reads, writes that match nothing, no-op updates: CommitTransaction / AbortTransaction / WithTransaction / UseSession, each followed by a plain write"
	}, func(w *world.World) {
		load(w)
		c := w.C("d", "c")
		bodies := []func(sc lungo.ISessionContext){
			func(sc lungo.ISessionContext) {},
			func(sc lungo.ISessionContext) { _, _ = c.CountDocuments(sc, bD()) },
			func(sc lungo.ISessionContext) {
				_, _ = c.UpdateMany(sc, bD("_id", "nobody"), bD("$set", bD("z", int32(1))))
			},
			func(sc lungo.ISessionContext) { _, _ = c.DeleteMany(sc, bD("_id", "nobody")) },
			func(sc lungo.ISessionContext) {
				_, _ = c.UpdateOne(sc, bD("_id", int32(2)), bD("$set", bD("a", int32(1))))
			},
		}
		for _, body := range bodies {
			body := body
			for mode := 0; mode < 4; mode++ {
				switch mode {
				case 0, 1:
					if sess, err := w.Client.StartSession(); err == nil {
						if sess.StartTransaction() == nil {
							_ = lungo.WithSession(w.Ctx, sess, func(sc lungo.ISessionContext) error { body(sc); return nil })
							if mode == 0 {
								_ = sess.CommitTransaction(w.Ctx)
							} else {
								_ = sess.AbortTransaction(w.Ctx)
							}
						}
						// (the session is deliberately not ended before the next write)
						cctx, cancel := context.WithTimeout(w.Ctx, 5*time.Second)
						if _, err := c.InsertOne(cctx, bD("after", int32(mode))); err != nil {
							panic(fmt.Sprintf("the write after a clean session transaction (mode %d) failed: %v", mode, err))
						}
						cancel()
						sess.EndSession(w.Ctx)
					}
				case 2:
					if sess, err := w.Client.StartSession(); err == nil {
						_, _ = sess.WithTransaction(w.Ctx, func(sc lungo.ISessionContext) (interface{}, error) { body(sc); return nil, nil })
						cctx, cancel := context.WithTimeout(w.Ctx, 5*time.Second)
						if _, err := c.InsertOne(cctx, bD("after", int32(mode))); err != nil {
							panic(fmt.Sprintf("the write after a clean WithTransaction failed: %v", err))
						}
						cancel()
						sess.EndSession(w.Ctx)
					}
				case 3:
					_ = w.Client.UseSession(w.Ctx, func(sc lungo.ISessionContext) error {
						if err := sc.StartTransaction(); err != nil {
							return err
						}
						body(sc)
						return fmt.Errorf("the caller gives up without aborting")
					})
					cctx, cancel := context.WithTimeout(w.Ctx, 5*time.Second)
					if _, err := c.InsertOne(cctx, bD("after", int32(mode))); err != nil {
						panic(fmt.Sprintf("the write after a UseSession whose callback left a transaction open failed: %v", err))
					}
					cancel()
				}
			}
		}
	})
	// GridFS with every chunk size of the extremes, on the bucket and on the upload
	for _, cs := range []int32{0, -1, 1, 2, math.MinInt32, math.MaxInt32} {
		cs := cs
		add("driver-gridfs-chunk-size", true, func() string {
			return fmt.Sprintf("GridFS bucket / upload with chunk size %d: UploadFromStream, OpenUploadStream + Write + Close, DownloadToStream, tracked mode", cs)
		}, func(w *world.World) {
			if cs > 1<<20 {
				return // (a chunk buffer of 2 GiB is a matter of memory, not of robustness)
			}
			db := w.Client.Database("gfs")
			_ = db.Drop(w.Ctx)
			for _, tracked := range []bool{false, true} {
				b1 := lungo.NewBucket(db, options.GridFSBucket().SetChunkSizeBytes(cs))
				b2 := lungo.NewBucket(db)
				if tracked {
					b1.EnableTracking()
					b2.EnableTracking()
				}
				_, _ = b1.UploadFromStream(w.Ctx, "f1", bytes.NewReader([]byte("hello world")))
				_ = b2.UploadFromStreamWithID(w.Ctx, "id2", "f2", bytes.NewReader([]byte("hello world")), options.GridFSUpload().SetChunkSizeBytes(cs))
				if st, err := b2.OpenUploadStreamWithID(w.Ctx, "id3", "f3", options.GridFSUpload().SetChunkSizeBytes(cs)); err == nil {
					_, _ = st.Write([]byte("abc"))
					_, _ = st.Write(nil)
					_ = st.Close()
				}
				var buf bytes.Buffer
				_, _ = b2.DownloadToStream(w.Ctx, "id2", &buf)
				_, _ = b2.DownloadToStreamByName(w.Ctx, "f1", &buf)
			}
		})
	}
	// chunk sizes at and around the size of the upload buffer (16 MiB) with a content that fills the buffer
	for _, cs := range []int32{16<<20 - 1, 16 << 20, 16<<20 + 1, 24 << 20} {
		cs := cs
		add("driver-gridfs-chunk-size", true, func() string {
			return fmt.Sprintf("GridFS upload of 16 MiB + 10 bytes with chunk size %d: OpenUploadStream + Write + Close, DownloadToStream", cs)
		}, func(w *world.World) {
			db := w.Client.Database("gfsbig")
			_ = db.Drop(w.Ctx)
			b := lungo.NewBucket(db)
			content := make([]byte, 16<<20+10)
			for i := range content {
				content[i] = byte(i >> 10)
			}
			st, err := b.OpenUploadStreamWithID(w.Ctx, "big", "big", options.GridFSUpload().SetChunkSizeBytes(cs))
			if err != nil {
				return
			}
			_, _ = st.Write(content[:100])
			_, _ = st.Write(content[100:])
			if st.Close() != nil {
				return
			}
			var buf bytes.Buffer
			if n, err := b.DownloadToStream(w.Ctx, "big", &buf); err == nil && (int(n) != len(content) || !bytes.Equal(buf.Bytes(), content)) {
				panic(fmt.Sprintf("an upload of %d bytes that was acknowledged downloads as %d bytes (equal content: %v)", len(content), n, bytes.Equal(buf.Bytes(), content)))
			}
			_ = db.Drop(w.Ctx)
		})
	}
	// engine options at and beyond their ends, and engine-level calls with a transaction that is not the current one
	for _, iv := range []time.Duration{-time.Second, -1, math.MinInt64, 1, math.MaxInt64} {
		iv := iv
		add("engine-options", true, func() string {
			return fmt.Sprintf("CreateEngine with ExpireInterval %d ns and negative / huge change-log limits: insert, TTL index, wait 30 ms, Abort(nil), Abort of a foreign transaction, Close", int64(iv))
		}, func(w *world.World) {
			for _, lim := range [][4]int64{{0, 0, 0, 0}, {-1, -1, -1, -1}, {math.MaxInt32, 1, math.MaxInt64, math.MinInt64}, {5, 2, 1, 1}} {
				eng, err := lungo.CreateEngine(lungo.Options{Store: lungo.NewMemoryStore(), ExpireInterval: iv,
					MinOplogSize: int(lim[0]), MaxOplogSize: int(lim[1]), MinOplogAge: time.Duration(lim[2]), MaxOplogAge: time.Duration(lim[3])})
				if err != nil {
					continue
				}
				cl := lungo.NewClient(eng)
				c := cl.Database("d").Collection("c")
				_, _ = c.Indexes().CreateOne(w.Ctx, mongo.IndexModel{Keys: bD("at", int32(1)), Options: options.Index().SetExpireAfterSeconds(0)})
				for k := 0; k < 4; k++ {
					_, _ = c.InsertOne(w.Ctx, bD("at", primitive.DateTime(1000)))
				}
				time.Sleep(30 * time.Millisecond)
				eng.Abort(nil)
				eng.Abort(lungo.NewTransaction(eng.Catalog()))
				_ = eng.Commit(nil)
				_, _ = c.InsertOne(w.Ctx, bD("_id", "after"))
				eng.Close()
				eng.Abort(nil)
			}
		})
	}
	// second uses: a stream, a cursor and a session that outlive their engine, and calls repeated on closed objects
	add("second-uses", true, func() string {
		return "a stream that has delivered an event / that has delivered nothing, a cursor and a session, used and closed (twice) after Engine.Close; Close of a stream before and after its engine"
	}, func(w *world.World) {
		for _, deliver := range []bool{true, false} {
			eng, err := lungo.CreateEngine(lungo.Options{Store: lungo.NewMemoryStore()})
			if err != nil {
				return
			}
			cl := lungo.NewClient(eng)
			c := cl.Database("d").Collection("c")
			_, _ = c.InsertOne(w.Ctx, bD("_id", int32(0)))
			st, serr := c.Watch(w.Ctx, bson.A{})
			st2, serr2 := cl.Watch(w.Ctx, bson.A{})
			_, _ = c.InsertOne(w.Ctx, bD("_id", int32(1)))
			if serr == nil && deliver {
				_ = st.TryNext(w.Ctx)
			}
			cur, cerr := c.Find(w.Ctx, bD())
			sess, sesserr := cl.StartSession()
			if sesserr == nil {
				_ = sess.StartTransaction()
			}
			if serr2 == nil {
				_ = st2.Close(w.Ctx)
			}
			eng.Close()
			if serr == nil {
				_ = st.TryNext(w.Ctx)
				var ev bson.D
				_ = st.Decode(&ev)
				_ = st.ResumeToken()
				_ = st.Close(w.Ctx)
				_ = st.Close(w.Ctx)
				_ = st.TryNext(w.Ctx)
			}
			if serr2 == nil {
				_ = st2.Close(w.Ctx)
				_ = st2.TryNext(w.Ctx)
			}
			if cerr == nil {
				var docs []bson.D
				_ = cur.All(w.Ctx, &docs)
				_ = cur.Close(w.Ctx)
				_ = cur.Close(w.Ctx)
				_ = cur.Next(w.Ctx)
			}
			if sesserr == nil {
				_ = sess.CommitTransaction(w.Ctx)
				_ = sess.AbortTransaction(w.Ctx)
				sess.EndSession(w.Ctx)
				sess.EndSession(w.Ctx)
				_ = sess.StartTransaction()
			}
			eng.Close()
		}
	})
	// result arguments of the wrong shape: a pointer to something that is no slice, a nil pointer, no pointer at all
	add("driver-result-arguments", true, func() string {
		return "Cursor.All / SingleResult.Decode / Cursor.Decode into a pointer to int, to a map, to a struct, a nil slice pointer, a slice value, nil"
	}, func(w *world.World) {
		c := w.C("d", "resargs")
		_, _ = c.InsertMany(w.Ctx, []interface{}{bD("_id", int32(1)), bD("_id", int32(2))})
		var n int
		var m map[string]interface{}
		var st struct{ A int }
		var nilSlice *[]bson.D
		var docs []bson.D
		for _, out := range []interface{}{&n, &m, &st, nilSlice, docs, nil, &docs} {
			if cur, err := c.Find(w.Ctx, bD()); err == nil {
				_ = cur.All(w.Ctx, out)
			}
			if cur, err := c.Find(w.Ctx, bD()); err == nil {
				if cur.Next(w.Ctx) {
					_ = cur.Decode(out)
				}
				_ = cur.Close(w.Ctx)
			}
			_ = c.FindOne(w.Ctx, bD()).Decode(out)
		}
		_ = c.Drop(w.Ctx)
	})
	// downloads from hand-made files and chunks collections whose chunks do not fit the file record (short, empty,
	// missing or oversized last chunk, a gap, a chunk of the wrong type): every seek target, then reads to the end
	for _, shape := range []string{"last chunk empty", "last chunk short", "last chunk missing", "last chunk too long", "middle chunk missing", "data is a string", "length negative", "no chunks at all"} {
		shape := shape
		add("driver-gridfs-handmade", true, func() string {
			return "GridFS download from a hand-made bucket (file record: length 10, chunk size 4): " + shape + "; Seek to every position from -1 to 12 from the start, the end and the current position, then Read"
		}, func(w *world.World) {
			db := w.Client.Database("gfshand")
			_ = db.Drop(w.Ctx)
			b := lungo.NewBucket(db)
			length := int32(10)
			if shape == "length negative" {
				length = -10
			}
			_, _ = b.GetFilesCollection(w.Ctx).InsertOne(w.Ctx, bD("_id", "f", "length", length, "chunkSize", int32(4), "uploadDate", primitive.DateTime(0), "filename", "f"))
			chunk := func(n int32, data interface{}) {
				_, _ = b.GetChunksCollection(w.Ctx).InsertOne(w.Ctx, bD("_id", primitive.NewObjectID(), "files_id", "f", "n", n, "data", data))
			}
			bin := func(k int) primitive.Binary { return primitive.Binary{Data: []byte("abcdefgh")[:k]} }
			if shape != "no chunks at all" {
				chunk(0, bin(4))
				if shape != "middle chunk missing" {
					chunk(1, bin(4))
				}
				switch shape {
				case "last chunk empty":
					chunk(2, bin(0))
				case "last chunk short":
					chunk(2, bin(1))
				case "last chunk too long":
					chunk(2, bin(7))
				case "data is a string":
					chunk(2, "xy")
				case "last chunk missing":
				default:
					chunk(2, bin(2))
				}
			}
			for _, whence := range []int{io.SeekStart, io.SeekEnd, io.SeekCurrent} {
				for pos := int64(-1); pos <= 12; pos++ {
					st, err := b.OpenDownloadStream(w.Ctx, "f")
					if err != nil {
						continue
					}
					off := pos
					if whence == io.SeekEnd {
						off = pos - 10
					}
					if whence == io.SeekCurrent {
						_, _ = st.Read(make([]byte, 3))
						off = pos - 3
					}
					_, _ = st.Seek(off, whence)
					buf := make([]byte, 5)
					for k := 0; k < 6; k++ {
						if _, err := st.Read(buf); err != nil {
							break
						}
					}
					_, _ = st.Skip(2)
					_ = st.Close()
				}
			}
			var buf bytes.Buffer
			_, _ = b.DownloadToStream(w.Ctx, "f", &buf)
			_ = b.Delete(w.Ctx, "f")
			_ = db.Drop(w.Ctx)
		})
	}
	// find-one-and-modify calls in every combination of their options, with updates that change the document, leave it
	// as it is, or are rejected, on filters that match and that match nothing
	type famUpdate struct {
		name string
		u    bson.D
	}
	famUpdates := []famUpdate{
		{"effective $inc", bD("$inc", bD("n", int32(1)))},
		{"$set to the stored value", bD("$set", bD("a", int32(1)))},
		{"$unset of a missing field", bD("$unset", bD("nope", ""))},
		{"$addToSet of a present element", bD("$addToSet", bD("arr", int32(2)))},
		{"$max below the stored value", bD("$max", bD("n", int32(-5)))},
		{"$pull of an absent element", bD("$pull", bD("arr", int32(99)))},
		{"$setOnInsert only", bD("$setOnInsert", bD("s", int32(1)))},
		{"rejected: $inc on a string", bD("$inc", bD("s", int32(1)))},
		{"empty update", bD()},
	}
	for _, fu := range famUpdates {
		fu := fu
		add("driver-find-and-modify-options", true, func() string {
			return "FindOneAndUpdate / FindOneAndReplace / FindOneAndDelete x returnDocument x upsert x sort x projection x matching/non-matching filter with update: " + fu.name
		}, func(w *world.World) {
			for _, filter := range []bson.D{bD("_id", int32(1)), bD("a", int32(1)), bD("_id", int32(404)), bD("a", bD("$gt", int32(100)))} {
				for _, after := range []bool{false, true} {
					for _, upsert := range []bool{false, true} {
						for _, sortSpec := range []bson.D{nil, bD("n", int32(-1))} {
							for _, proj := range []bson.D{nil, bD("a", int32(1)), bD("arr", bD("$slice", int32(1))), bD("a", int32(0), "n", int32(1))} {
								_ = w.C("d", "fam").Drop(w.Ctx)
								c := w.C("d", "fam")
								_, _ = c.InsertMany(w.Ctx, []interface{}{bD("_id", int32(1), "a", int32(1), "n", int32(1), "arr", bson.A{int32(1), int32(2)}, "s", "x"), bD("_id", int32(2), "a", int32(1), "n", int32(2), "arr", bson.A{}, "s", "y")})
								rd := options.Before
								if after {
									rd = options.After
								}
								ou := options.FindOneAndUpdate().SetReturnDocument(rd).SetUpsert(upsert)
								or := options.FindOneAndReplace().SetReturnDocument(rd).SetUpsert(upsert)
								od := options.FindOneAndDelete()
								if sortSpec != nil {
									ou.SetSort(sortSpec)
									or.SetSort(sortSpec)
									od.SetSort(sortSpec)
								}
								if proj != nil {
									ou.SetProjection(proj)
									or.SetProjection(proj)
									od.SetProjection(proj)
								}
								var out bson.M
								_ = c.FindOneAndUpdate(w.Ctx, filter, fu.u, ou).Decode(&out)
								// replacements: identical to the stored document, different, and with another _id
								_ = c.FindOneAndReplace(w.Ctx, filter, bD("a", int32(1), "n", int32(1), "arr", bson.A{int32(1), int32(2)}, "s", "x"), or).Decode(&out)
								_ = c.FindOneAndReplace(w.Ctx, filter, bD("a", int32(7)), or).Decode(&out)
								_ = c.FindOneAndReplace(w.Ctx, filter, bD("_id", int32(9), "a", int32(7)), or).Decode(&out)
								_ = c.FindOneAndDelete(w.Ctx, filter, od).Decode(&out)
							}
						}
					}
				}
			}
		})
	}
	// index management: every ordered pair of definitions from a pool in which names, keys, uniqueness, partial filters and
	// expiry coincide in every combination, then drops by name and by key
	type ixDef struct {
		key     bson.D
		unique  bool
		partial bson.D
		name    string
		expire  *int32
	}
	var ixDefs []ixDef
	for _, key := range []bson.D{bD("a", int32(1)), bD("a", int32(1), "n", int32(-1))} {
		for _, unique := range []bool{false, true} {
			for _, partial := range []bson.D{nil, {}, bD("n", bD("$gte", int32(0)))} {
				for _, name := range []string{"", "same"} {
					for _, expire := range []*int32{nil, i32(60)} {
						ixDefs = append(ixDefs, ixDef{key, unique, partial, name, expire})
					}
				}
			}
		}
	}
	mkModel := func(d ixDef) mongo.IndexModel {
		o := options.Index()
		if d.unique {
			o.SetUnique(true)
		}
		if d.partial != nil {
			o.SetPartialFilterExpression(d.partial)
		}
		if d.name != "" {
			o.SetName(d.name)
		}
		if d.expire != nil {
			o.SetExpireAfterSeconds(*d.expire)
		}
		return mongo.IndexModel{Keys: d.key, Options: o}
	}
	for fi, first := range ixDefs {
		fi, first := fi, first
		add("driver-index-pairs", true, func() string {
			return fmt.Sprintf("Indexes().CreateOne of definition #%d (key %s unique=%v partial=%s name=%q ttl=%v) followed by every definition of the pool, CreateMany of both, List, DropOne, DropOneWithKey", fi, J(first.key), first.unique, J(first.partial), first.name, first.expire != nil)
		}, func(w *world.World) {
			for _, second := range ixDefs {
				_ = w.C("d", "ix").Drop(w.Ctx)
				c := w.C("d", "ix")
				_, _ = c.InsertMany(w.Ctx, []interface{}{bD("_id", int32(1), "a", int32(1), "n", int32(1)), bD("_id", int32(2), "a", int32(2), "n", int32(-1)), bD("_id", int32(3), "a", bson.A{int32(3), int32(3)})})
				_, _ = c.Indexes().CreateOne(w.Ctx, mkModel(first))
				_, _ = c.Indexes().CreateOne(w.Ctx, mkModel(second))
				_, _ = c.Indexes().CreateMany(w.Ctx, []mongo.IndexModel{mkModel(second), mkModel(first)})
				if cur, err := c.Indexes().List(w.Ctx); err == nil {
					var specs []bson.M
					_ = cur.All(w.Ctx, &specs)
				}
				_, _ = c.InsertOne(w.Ctx, bD("_id", int32(4), "a", int32(1), "n", int32(5)))
				_, _ = c.DeleteMany(w.Ctx, bD("a", bD("$gte", int32(2))))
				_, _ = c.Indexes().DropOneWithKey(w.Ctx, second.key)
				_, _ = c.Indexes().DropOne(w.Ctx, "same")
				_, _ = c.Indexes().DropOne(w.Ctx, "_id_")
				_, _ = c.Indexes().DropAll(w.Ctx)
			}
		})
	}
	return out
}

type c20Out struct {
	Ran        int64            `json:"ran"`
	ByKind     map[string]int64 `json:"by_kind"`
	Violations []shardViolation `json:"violations"`
	Broken     []string         `json:"broken"`
	LastCase   string           `json:"last_case"`
}

// c20Worker runs the cases i with i % n == k in this process.
func c20Worker(quick bool, k, n int) {
	cases := c20Cases(quick)
	out := &c20Out{ByKind: map[string]int64{}}
	w := world.New()
	emit := func() {
		b, _ := json.Marshal(out)
		fmt.Println(shardMarker + string(b))
	}
	sinceProbe := 0
	for i := k; i < len(cases); i += n {
		cs := cases[i]
		out.LastCase = cs.kind
		// progress marker for the parent in case this process dies of a fatal error
		fmt.Fprintf(os.Stderr, "CASE %d\n", i)
		done := make(chan string, 1)
		fin := make(chan struct{})
		gid := make(chan string, 1)
		go func() {
			defer close(fin)
			gid <- e1.GoroutineID()
			defer func() {
				if p := recover(); p != nil {
					msg := fmt.Sprint(p)
					if strings.HasPrefix(msg, "lungo: ") {
						done <- "" // documented panic for unsupported options / nil arguments
						return
					}
					done <- "panic: " + msg
					return
				}
				done <- ""
			}()
			cs.run(w)
		}()
		var res string
		// a case that has not returned after 60 s is looked at: blocked at the same place over several samples, or
		// still running after 3 more minutes, is a hang; a case that is merely slow on a loaded machine is waited for
		if what, _ := e1.AwaitStep(<-gid, fin, 60*time.Second, 3*time.Minute); what != "" {
			out.Violations = append(out.Violations, shardViolation{"hang:" + cs.kind, cs.desc() + ": " + what, map[string]interface{}{"case": cs.desc()}})
			emit()
			os.Exit(0)
		}
		res = <-done
		out.Ran++
		out.ByKind[strings.SplitN(cs.kind, ":", 2)[0]]++
		if res != "" {
			out.Violations = append(out.Violations, shardViolation{"panic:" + cs.kind + ":" + c20PanicClass(res), cs.desc() + ": " + short(res, 300), map[string]interface{}{"case": cs.desc(), "panic": res}})
			// the engine may be wedged by a panic inside a transaction callback: probe, then continue on a fresh one
		}
		sinceProbe++
		if cs.db || res != "" || sinceProbe >= 500 {
			sinceProbe = 0
			probe := make(chan error, 1)
			pfin := make(chan struct{})
			pgid := make(chan string, 1)
			go func() {
				defer close(pfin)
				pgid <- e1.GoroutineID()
				defer func() {
					if p := recover(); p != nil {
						probe <- fmt.Errorf("panic: %v", p)
					}
				}()
				_, err := w.C("probe", "p").InsertOne(w.Ctx, bD("_id", "probe"))
				if err == nil {
					_, err = w.C("probe", "p").DeleteOne(w.Ctx, bD("_id", "probe"))
				}
				probe <- err
			}()
			if what, _ := e1.AwaitStep(<-pgid, pfin, 20*time.Second, 5*time.Minute); what != "" {
				out.Violations = append(out.Violations, shardViolation{"engine-wedged:" + cs.kind, "after " + cs.desc() + " the next write blocks (writer slot not released): " + what, map[string]interface{}{"case": cs.desc()}})
				w = world.New()
			} else if err := <-probe; err != nil {
				out.Violations = append(out.Violations, shardViolation{"engine-unusable:" + cs.kind, "after " + cs.desc() + " the next write fails: " + err.Error(), map[string]interface{}{"case": cs.desc()}})
				w = world.New()
			}
		}
		if len(out.Violations) >= 40 {
			break
		}
	}
	emit()
}

func c20PanicClass(msg string) string {
	msg = strings.TrimPrefix(msg, "panic: ")
	for _, cut := range []string{" [", ":", "("} {
		if i := strings.Index(msg, cut); i > 8 {
			msg = msg[:i]
		}
	}
	if len(msg) > 60 {
		msg = msg[:60]
	}
	return strings.ReplaceAll(msg, " ", "_")
}

func init() {
	Register("C20", "exploration", func(c *Ctx) {
		r := c.R
		if s := os.Getenv("VERIF_C20_WORKER"); s != "" {
			parts := strings.Split(s, "/")
			k, _ := strconv.Atoi(parts[0])
			n, _ := strconv.Atoi(parts[1])
			c20Worker(c.Quick(), k, n)
			os.Exit(0)
		}
		total := len(c20Cases(c.Quick()))
		n := par.Workers()
		outs := make([]*c20Out, n)
		par.For(n, nil, func(k int) {
			// address-space limit so that a runaway allocation kills the worker, not the sandbox
			cmd := exec.Command("sh", append([]string{"-c", `ulimit -v 12582912; exec "$0" "$@"`, os.Args[0]}, os.Args[1:]...)...)
			cmd.Env = append(os.Environ(), fmt.Sprintf("VERIF_C20_WORKER=%d/%d", k, n), "GOMAXPROCS=2")
			var stdout, stderr bytes.Buffer
			cmd.Stdout, cmd.Stderr = &stdout, &stderr
			err := cmd.Run()
			for _, line := range strings.Split(stdout.String(), "\n") {
				if strings.HasPrefix(line, shardMarker) {
					var o c20Out
					if json.Unmarshal([]byte(strings.TrimPrefix(line, shardMarker)), &o) == nil {
						outs[k] = &o
					}
				}
			}
			if outs[k] == nil {
				// the worker died (fatal error, out of memory, stack overflow): the last CASE marker names the culprit
				last := -1
				for _, line := range strings.Split(stderr.String(), "\n") {
					if strings.HasPrefix(line, "CASE ") {
						last, _ = strconv.Atoi(strings.TrimPrefix(line, "CASE "))
					}
				}
				tail := stderr.String()
				if i := strings.Index(tail, "fatal error"); i >= 0 {
					tail = tail[i:]
				}
				tail = short(tail, 600)
				outs[k] = &c20Out{ByKind: map[string]int64{}}
				if last >= 0 {
					cs := c20Cases(c.Quick())[last]
					outs[k].Violations = append(outs[k].Violations, shardViolation{"process-died:" + cs.kind, cs.desc() + " killed the process (" + fmt.Sprint(err) + "): " + tail, map[string]interface{}{"case": cs.desc()}})
				} else {
					r.Broken("worker %d produced no result: %v %s", k, err, tail)
				}
			}
		})
		var ran int64
		byKind := map[string]int64{}
		for _, o := range outs {
			ran += o.Ran
			for k, v := range o.ByKind {
				byKind[k] += v
			}
			for _, v := range o.Violations {
				r.Violation(v.Class, v.What, v.Replay)
			}
		}
		r.Set("evaluations", ran)
		r.Set("cases", int64(total))
		r.Set("cases_by_category", byKind)
		r.Set("distinct_nontrivial", int64(len(byKind)))
		r.Set("grammar_sizes", map[string]interface{}{"operand_pool": len(c20W()), "paths": len(c20Paths()), "documents": len(c20Docs())})
		r.Set("exhaustive", ran == int64(total) && !r.TooMany())
		r.Set("worker_processes", int64(n))
		r.Set("samples", []interface{}{map[string]interface{}{"paths": c20Paths()}, map[string]interface{}{"operands": short(J(bson.A(c20W()[:30])), 1500)}})
		r.Set("rule", "wrong-type-everywhere grammar: every query operator x every operand of a 50-value pool (one value of every supported BSON type, non-finite and extreme numbers, empty containers, nested empties, $-keys, empty keys, 40-fold nesting, a 5000-character string) x 26 paths (empty, dotted oddly, positional, numeric, indexes at and around 2^63-1 and 2^32, signed and exponent numerals) on 12 documents (document-, binary- and NaN-valued _id, 32-fold nesting, empty keys) through mongokit.Match; top-level operators and every $jsonSchema keyword x operands; every update operator x operand x path through mongokit.Apply (with/without upsert and array filters), operator values that are not documents, $push/$addToSet modifiers x operands, array filters of every shape; projections, sorts and distinct x operands x paths; bsonkit Get/All/Put/Unset/Increment/Multiply/Push/Pop x operands x paths and Compare/Add/Mul/Mod on all operand pairs; driver-level Find/Count/Distinct/Delete/Update/upsert/FindOneAnd*/Replace/BulkWrite/CreateIndex on a collection holding every document shape, upserts into an empty collection with logical and comparison filters over every operand, reads with every pair of extreme skip/limit/batch-size values, listings of databases and collections filtered on every field of their specifications, find-one-and-modify calls in every combination of returnDocument x upsert x sort x projection x matching/non-matching filter x effective/no-op/rejected updates and identical/different replacements, every ordered pair of 48 index definitions (coinciding names, keys, uniqueness, partial filters, expiry) through CreateOne/CreateMany/List/DropOne/DropOneWithKey, incl. update/replace/delete of documents with document- and binary-valued _id. Every case runs under recover() in a worker process with an address-space limit and a 60 s watchdog; after every engine-level case a probe write must succeed.")
		r.Assume("panics whose message starts with 'lungo: ' (documented: unsupported driver options, nil arguments) are excluded", "BSON types lungo does not support at all (MinKey, MaxKey, JavaScript, Symbol, Undefined, DBPointer) are not part of the operand pool")
		if ran < 20000 {
			r.Broken("vacuity: only %d cases ran", ran)
		}
	})
}
