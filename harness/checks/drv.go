package checks

import (
	"fmt"
	"sort"
	"strings"

	"go.mongodb.org/mongo-driver/bson"
	"go.mongodb.org/mongo-driver/mongo"
	"go.mongodb.org/mongo-driver/mongo/options"

	"verif/internal/e1"
	"verif/internal/world"
)

// ---- driver-call constructors shared by the E1 checks. Every call returns a
// canonical observation string: error class first, then counts / ids / documents.

func obsID(n *world.Normalizer, id interface{}) string {
	if id == nil {
		return "-"
	}
	return n.JSON(id)
}

func cInsertOne(db, coll string, doc bson.D) e1.Call {
	return e1.Call{Name: fmt.Sprintf("%s.%s.InsertOne(%s)", db, coll, J(doc)), Do: func(w *world.World) string {
		res, err := w.C(db, coll).InsertOne(w.Ctx, doc)
		if err != nil {
			return world.ErrClass(err)
		}
		return "ok id=" + obsID(world.NewNormalizer(), res.InsertedID)
	}}
}

func cInsertMany(db, coll string, ordered bool, docs ...bson.D) e1.Call {
	return e1.Call{Name: fmt.Sprintf("%s.%s.InsertMany(ordered=%v,%s)", db, coll, ordered, J(docs)), Do: func(w *world.World) string {
		var in []interface{}
		for _, d := range docs {
			in = append(in, d)
		}
		res, err := w.C(db, coll).InsertMany(w.Ctx, in, options.InsertMany().SetOrdered(ordered))
		s := world.ErrClass(err)
		if res != nil {
			n := world.NewNormalizer()
			s += " ids="
			for _, id := range res.InsertedIDs {
				s += obsID(n, id) + ","
			}
		}
		return s
	}}
}

func obsUpdate(res *mongo.UpdateResult, err error) string {
	if err != nil {
		return world.ErrClass(err)
	}
	return fmt.Sprintf("ok matched=%d modified=%d upserted=%d id=%s", res.MatchedCount, res.ModifiedCount, res.UpsertedCount, obsID(world.NewNormalizer(), res.UpsertedID))
}

func cUpdate(db, coll string, many bool, filter, update bson.D, upsert bool) e1.Call {
	name := "UpdateOne"
	if many {
		name = "UpdateMany"
	}
	return e1.Call{Name: fmt.Sprintf("%s.%s.%s(%s,%s,upsert=%v)", db, coll, name, J(filter), J(update), upsert), Do: func(w *world.World) string {
		opt := options.Update().SetUpsert(upsert)
		if many {
			return obsUpdate(w.C(db, coll).UpdateMany(w.Ctx, filter, update, opt))
		}
		return obsUpdate(w.C(db, coll).UpdateOne(w.Ctx, filter, update, opt))
	}}
}

// cUpdateByID is UpdateByID (a wrapper over UpdateOne with an _id filter in lungo).
func cUpdateByID(db, coll string, id interface{}, update bson.D, upsert bool) e1.Call {
	return e1.Call{Name: fmt.Sprintf("%s.%s.UpdateByID(%s,%s,upsert=%v)", db, coll, J(bson.D{{Key: "id", Value: id}}), J(update), upsert), Do: func(w *world.World) string {
		return obsUpdate(w.C(db, coll).UpdateByID(w.Ctx, id, update, options.Update().SetUpsert(upsert)))
	}}
}

// cUpdateAF is UpdateOne/UpdateMany with array filters.
func cUpdateAF(db, coll string, many bool, filter, update bson.D, af []bson.D) e1.Call {
	name := "UpdateOne"
	if many {
		name = "UpdateMany"
	}
	return e1.Call{Name: fmt.Sprintf("%s.%s.%s(%s,%s,arrayFilters=%s)", db, coll, name, J(filter), J(update), J(af)), Do: func(w *world.World) string {
		var fs []interface{}
		for _, f := range af {
			fs = append(fs, f)
		}
		opt := options.Update().SetArrayFilters(options.ArrayFilters{Filters: fs})
		if many {
			return obsUpdate(w.C(db, coll).UpdateMany(w.Ctx, filter, update, opt))
		}
		return obsUpdate(w.C(db, coll).UpdateOne(w.Ctx, filter, update, opt))
	}}
}

// cCreateMany is Indexes().CreateMany (lungo creates the indexes one after the other, each in its own commit).
func cCreateMany(db, coll string, keys []bson.D, os []idxOpt) e1.Call {
	label := ""
	for i := range keys {
		label += fmt.Sprintf("[%s,unique=%v,name=%q]", J(keys[i]), os[i].unique, os[i].name)
	}
	return e1.Call{Name: fmt.Sprintf("%s.%s.CreateMany(%s)", db, coll, label), Do: func(w *world.World) string {
		var ms []mongo.IndexModel
		for i := range keys {
			opt := options.Index()
			if os[i].unique {
				opt.SetUnique(true)
			}
			if os[i].partial != nil {
				opt.SetPartialFilterExpression(os[i].partial)
			}
			if os[i].name != "" {
				opt.SetName(os[i].name)
			}
			ms = append(ms, mongo.IndexModel{Keys: keys[i], Options: opt})
		}
		names, err := w.C(db, coll).Indexes().CreateMany(w.Ctx, ms)
		return world.ErrClass(err) + " names=" + strings.Join(names, ",")
	}}
}

func cReplace(db, coll string, filter, repl bson.D, upsert bool) e1.Call {
	return e1.Call{Name: fmt.Sprintf("%s.%s.ReplaceOne(%s,%s,upsert=%v)", db, coll, J(filter), J(repl), upsert), Do: func(w *world.World) string {
		return obsUpdate(w.C(db, coll).ReplaceOne(w.Ctx, filter, repl, options.Replace().SetUpsert(upsert)))
	}}
}

func cDelete(db, coll string, many bool, filter bson.D) e1.Call {
	name := "DeleteOne"
	if many {
		name = "DeleteMany"
	}
	return e1.Call{Name: fmt.Sprintf("%s.%s.%s(%s)", db, coll, name, J(filter)), Do: func(w *world.World) string {
		var res *mongo.DeleteResult
		var err error
		if many {
			res, err = w.C(db, coll).DeleteMany(w.Ctx, filter)
		} else {
			res, err = w.C(db, coll).DeleteOne(w.Ctx, filter)
		}
		if err != nil {
			return world.ErrClass(err)
		}
		return fmt.Sprintf("ok deleted=%d", res.DeletedCount)
	}}
}

func obsSingle(r interface {
	Decode(interface{}) error
}) string {
	var d bson.D
	err := r.Decode(&d)
	if err == mongo.ErrNoDocuments {
		return "ok none"
	} else if err != nil {
		return world.ErrClass(err)
	}
	return "ok doc=" + world.NewNormalizer().JSON(d)
}

func cFindOneAndUpdate(db, coll string, filter, update, sortSpec bson.D, after, upsert bool) e1.Call {
	return e1.Call{Name: fmt.Sprintf("%s.%s.FindOneAndUpdate(%s,%s,sort=%s,after=%v,upsert=%v)", db, coll, J(filter), J(update), J(sortSpec), after, upsert), Do: func(w *world.World) string {
		opt := options.FindOneAndUpdate().SetUpsert(upsert)
		if after {
			opt.SetReturnDocument(options.After)
		}
		if sortSpec != nil {
			opt.SetSort(sortSpec)
		}
		return obsSingle(w.C(db, coll).FindOneAndUpdate(w.Ctx, filter, update, opt))
	}}
}

func cFindOneAndReplace(db, coll string, filter, repl, sortSpec bson.D, after, upsert bool) e1.Call {
	return e1.Call{Name: fmt.Sprintf("%s.%s.FindOneAndReplace(%s,%s,sort=%s,after=%v,upsert=%v)", db, coll, J(filter), J(repl), J(sortSpec), after, upsert), Do: func(w *world.World) string {
		opt := options.FindOneAndReplace().SetUpsert(upsert)
		if after {
			opt.SetReturnDocument(options.After)
		}
		if sortSpec != nil {
			opt.SetSort(sortSpec)
		}
		return obsSingle(w.C(db, coll).FindOneAndReplace(w.Ctx, filter, repl, opt))
	}}
}

func cFindOneAndDelete(db, coll string, filter, sortSpec bson.D) e1.Call {
	return e1.Call{Name: fmt.Sprintf("%s.%s.FindOneAndDelete(%s,sort=%s)", db, coll, J(filter), J(sortSpec)), Do: func(w *world.World) string {
		opt := options.FindOneAndDelete()
		if sortSpec != nil {
			opt.SetSort(sortSpec)
		}
		return obsSingle(w.C(db, coll).FindOneAndDelete(w.Ctx, filter, opt))
	}}
}

func cBulk(db, coll string, ordered bool, label string, models func() []mongo.WriteModel) e1.Call {
	return e1.Call{Name: fmt.Sprintf("%s.%s.BulkWrite(ordered=%v,%s)", db, coll, ordered, label), Do: func(w *world.World) string {
		res, err := w.C(db, coll).BulkWrite(w.Ctx, models(), options.BulkWrite().SetOrdered(ordered))
		s := world.WriteErrClasses(err)
		if res != nil {
			var ups []string
			n := world.NewNormalizer()
			var keys []int
			for k := range res.UpsertedIDs {
				keys = append(keys, int(k))
			}
			sort.Ints(keys)
			for _, k := range keys {
				ups = append(ups, fmt.Sprintf("%d:%s", k, obsID(n, res.UpsertedIDs[int64(k)])))
			}
			s += fmt.Sprintf(" ins=%d match=%d mod=%d del=%d ups=%d[%s]", res.InsertedCount, res.MatchedCount, res.ModifiedCount, res.DeletedCount, res.UpsertedCount, strings.Join(ups, ","))
		}
		return s
	}}
}

type idxOpt struct {
	unique  bool
	partial bson.D
	name    string
	expire  *int32
}

func cCreateIndex(db, coll string, keys bson.D, o idxOpt) e1.Call {
	return e1.Call{Name: fmt.Sprintf("%s.%s.CreateIndex(%s,unique=%v,partial=%s,name=%q,expire=%v)", db, coll, J(keys), o.unique, J(o.partial), o.name, o.expire != nil), Do: func(w *world.World) string {
		opt := options.Index()
		if o.unique {
			opt.SetUnique(true)
		}
		if o.partial != nil {
			opt.SetPartialFilterExpression(o.partial)
		}
		if o.name != "" {
			opt.SetName(o.name)
		}
		if o.expire != nil {
			opt.SetExpireAfterSeconds(*o.expire)
		}
		name, err := w.C(db, coll).Indexes().CreateOne(w.Ctx, mongo.IndexModel{Keys: keys, Options: opt})
		if err != nil {
			return world.ErrClass(err)
		}
		return "ok name=" + name
	}}
}

func cDropIndex(db, coll, name string) e1.Call {
	return e1.Call{Name: fmt.Sprintf("%s.%s.DropIndex(%q)", db, coll, name), Do: func(w *world.World) string {
		var err error
		if name == "*" {
			_, err = w.C(db, coll).Indexes().DropAll(w.Ctx)
		} else {
			_, err = w.C(db, coll).Indexes().DropOne(w.Ctx, name)
		}
		return world.ErrClass(err)
	}}
}

func cDropIndexWithKey(db, coll string, key bson.D) e1.Call {
	return e1.Call{Name: fmt.Sprintf("%s.%s.DropOneWithKey(%s)", db, coll, J(key)), Do: func(w *world.World) string {
		_, err := w.C(db, coll).Indexes().DropOneWithKey(w.Ctx, key)
		return world.ErrClass(err)
	}}
}

func cDropColl(db, coll string) e1.Call {
	return e1.Call{Name: fmt.Sprintf("%s.%s.Drop()", db, coll), Do: func(w *world.World) string {
		return world.ErrClass(w.C(db, coll).Drop(w.Ctx))
	}}
}

func cDropDB(db string) e1.Call {
	return e1.Call{Name: fmt.Sprintf("%s.Drop()", db), Do: func(w *world.World) string {
		return world.ErrClass(w.Client.Database(db).Drop(w.Ctx))
	}}
}

func cCreateColl(db, coll string) e1.Call {
	return e1.Call{Name: fmt.Sprintf("%s.CreateCollection(%q)", db, coll), Do: func(w *world.World) string {
		return world.ErrClass(w.Client.Database(db).CreateCollection(w.Ctx, coll))
	}}
}

func cReload() e1.Call {
	return e1.Call{Name: "Reload()", Do: func(w *world.World) string {
		if err := w.Reload(); err != nil {
			return "reload-error: " + err.Error()
		}
		return "ok"
	}}
}

func i32(v int32) *int32 { return &v }
