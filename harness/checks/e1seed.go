package checks

import (
	"encoding/json"
	"fmt"
	"os"
	"strings"

	"verif/internal/e1"
	"verif/internal/world"
)

// bfsSeeded runs the search of cfg from the non-initial state reached by the calls whose names start with the given
// prefixes (in that order); Before/After receive the complete path. It does nothing in replay mode (the unseeded
// search replays complete call lists).
func bfsSeeded(cfg e1.Config, depth int, prefixes ...string) *e1.Stats {
	if len(cfg.ReplayNames) > 0 {
		return &e1.Stats{Exhaustive: true}
	}
	var seed []int
	for _, p := range prefixes {
		found := -1
		for k, a := range cfg.Alphabet {
			if strings.HasPrefix(a.Name, p) {
				found = k
				break
			}
		}
		if found < 0 {
			panic("bfsSeeded: no call " + p)
		}
		seed = append(seed, found)
	}
	sc := cfg
	sc.Depth = depth
	base := cfg.New
	if base == nil {
		base = func() *world.World { return world.New() }
	}
	sc.New = func() *world.World {
		w := base()
		for _, k := range seed {
			cfg.Alphabet[k].Do(w)
		}
		return w
	}
	full := func(path []int) []int { return append(append([]int{}, seed...), path...) }
	if cfg.Before != nil {
		sc.Before = func(w *world.World, path []int) interface{} { return cfg.Before(w, full(path)) }
	}
	if cfg.After != nil {
		sc.After = func(w *world.World, path []int, pre interface{}, obs string) { cfg.After(w, full(path), pre, obs) }
	}
	return e1.BFS(sc)
}

// replaySeq reads the action sequence of a replay file written by one of the depth-first checks (keys "actions", "path"
// or "calls" of the replay object; entries are action names, names followed by details of the step, or "action N"
// from the watchdog of the explorer) and maps it to indices of the action list. Entries that name no action (details
// a step adds to its trace) are skipped.
func replaySeq(c *Ctx, actions []string) (seq []int, ok bool) {
	if c.Replay == "" {
		return nil, false
	}
	var f struct {
		Replay struct {
			Actions []string `json:"actions"`
			Path    []string `json:"path"`
			Calls   []string `json:"calls"`
		} `json:"replay"`
	}
	b, err := os.ReadFile(c.Replay)
	if err != nil || json.Unmarshal(b, &f) != nil {
		return nil, false
	}
	names := f.Replay.Actions
	if len(names) == 0 {
		names = f.Replay.Path
	}
	if len(names) == 0 {
		names = f.Replay.Calls
	}
	for _, n := range names {
		best := -1
		for k, a := range actions {
			if n == a || n == fmt.Sprintf("action %d", k) {
				best = k
				break
			}
			if strings.HasPrefix(n, a) && (best < 0 || len(a) > len(actions[best])) {
				best = k
			}
		}
		if best >= 0 {
			seq = append(seq, best)
		}
	}
	return seq, len(seq) > 0
}
