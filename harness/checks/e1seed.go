package checks

import (
	"strings"

	"verif/internal/e1"
	"verif/internal/world"
)

// bfsSeeded runs the search of cfg from the non-initial state reached by the calls whose names start with the given
// prefixes (in that order); Before/After receive the complete path. It does nothing in replay mode (the unseeded
// search replays complete call lists).
func bfsSeeded(cfg e1.Config, depth int, prefixes ...string) *e1.Stats {
	if len(cfg.ReplayNames) > 0 {
		return &e1.Stats{Exhaustive: true}
	}
	var seed []int
	for _, p := range prefixes {
		found := -1
		for k, a := range cfg.Alphabet {
			if strings.HasPrefix(a.Name, p) {
				found = k
				break
			}
		}
		if found < 0 {
			panic("bfsSeeded: no call " + p)
		}
		seed = append(seed, found)
	}
	sc := cfg
	sc.Depth = depth
	base := cfg.New
	if base == nil {
		base = func() *world.World { return world.New() }
	}
	sc.New = func() *world.World {
		w := base()
		for _, k := range seed {
			cfg.Alphabet[k].Do(w)
		}
		return w
	}
	full := func(path []int) []int { return append(append([]int{}, seed...), path...) }
	if cfg.Before != nil {
		sc.Before = func(w *world.World, path []int) interface{} { return cfg.Before(w, full(path)) }
	}
	if cfg.After != nil {
		sc.After = func(w *world.World, path []int, pre interface{}, obs string) { cfg.After(w, full(path), pre, obs) }
	}
	return e1.BFS(sc)
}
