package checks

import (
	"bytes"
	"encoding/json"
	"fmt"
	"os"
	"os/exec"
	"strconv"
	"strings"

	"verif/internal/par"

	"verif/internal/sched"
	"verif/internal/world"
)

// e3World creates the engine inside a controlled execution and adopts its expiry goroutine.
func e3World(x *sched.Exec, o ...world.Options) *world.World {
	w := world.New(o...)
	x.Adopt(1)
	return w
}

// e3Problem renders the scheduler-level failures of an execution (deadlock, native block, panic, livelock).
func e3Problem(r *sched.Result) (class, what string) {
	switch {
	case r.Diverged:
		return "harness:diverged", "replay diverged (nondeterminism not owned): " + r.DivergeInfo
	case r.Stuck:
		return "stuck", "a thread blocked outside scheduler control (native block); threads: " + strings.Join(r.Names, ",")
	case r.Livelock:
		return "livelock", "step horizon exceeded"
	case r.Deadlock:
		return "deadlock", "no thread enabled; blocked: " + strings.Join(r.Blocked, ", ")
	case len(r.Panics) > 0:
		return "panic", "panic in " + r.Panics[0]
	}
	return "", ""
}

func schedReplay(r *sched.Result) map[string]interface{} {
	return map[string]interface{}{"choices": fmt.Sprint(r.Choices()), "schedule": r.Schedule(), "threads": r.Names, "preemptions": r.Preemptions()}
}

// ---- sharding of E3 checks over worker processes (one controlled execution at a time per process)

type shardViolation struct {
	Class  string      `json:"class"`
	What   string      `json:"what"`
	Replay interface{} `json:"replay"`
}

type shardOut struct {
	Name        string           `json:"name"`
	Executions  int64            `json:"executions"`
	Transitions int64            `json:"transitions"`
	PerBound    map[string]int64 `json:"per_bound"`
	MaxPoints   int              `json:"max_points"`
	Outcomes    []string         `json:"outcomes"`
	Exhaustive  bool             `json:"exhaustive"`
	Violations  []shardViolation `json:"violations"`
	Extra       map[string]int64 `json:"extra"`
	Broken      []string         `json:"broken"`
}

type violator interface {
	Violation(class, what string, replay interface{})
}

type shardCollector struct {
	out *shardOut
	max int
}

func (s *shardCollector) Violation(class, what string, replay interface{}) {
	for _, v := range s.out.Violations {
		if v.Class == class {
			return
		}
	}
	s.out.Violations = append(s.out.Violations, shardViolation{class, what, replay})
}

func (s *shardCollector) TooMany() bool { return len(s.out.Violations) >= s.max }

const shardMarker = "SHARD-JSON:"

// e3Shards runs run(i) for i in [0,n), each in its own worker process, and merges the results.
func e3Shards(c *Ctx, n int, run func(i int, col *shardCollector) *shardOut) []*shardOut {
	if s := os.Getenv("VERIF_SHARD"); s != "" {
		i, _ := strconv.Atoi(s)
		out := &shardOut{PerBound: map[string]int64{}, Extra: map[string]int64{}, Exhaustive: true}
		col := &shardCollector{out: out, max: 3}
		res := run(i, col)
		b, _ := json.Marshal(res)
		fmt.Println(shardMarker + string(b))
		os.Exit(0)
	}
	outs := make([]*shardOut, n)
	par.For(n, nil, func(i int) {
		cmd := exec.Command(os.Args[0], os.Args[1:]...)
		cmd.Env = append(os.Environ(), "VERIF_SHARD="+strconv.Itoa(i), "GOMAXPROCS=2")
		var stdout, stderr bytes.Buffer
		cmd.Stdout, cmd.Stderr = &stdout, &stderr
		err := cmd.Run()
		for _, line := range strings.Split(stdout.String(), "\n") {
			if strings.HasPrefix(line, shardMarker) {
				var o shardOut
				if json.Unmarshal([]byte(strings.TrimPrefix(line, shardMarker)), &o) == nil {
					outs[i] = &o
				}
			}
		}
		if outs[i] == nil {
			tail := stderr.String()
			if len(tail) > 1500 {
				tail = tail[len(tail)-1500:]
			}
			c.R.Broken("shard %d produced no result (err=%v): %s", i, err, tail)
			outs[i] = &shardOut{Name: fmt.Sprintf("shard %d", i)}
		}
	})
	for _, o := range outs {
		for _, v := range o.Violations {
			c.R.Violation(v.Class, v.What, v.Replay)
		}
		for _, b := range o.Broken {
			c.R.Broken("%s: %s", o.Name, b)
		}
	}
	return outs
}

// e3Replay reads the scenario name and the recorded choice list of an E3 replay file.
func e3Replay(c *Ctx) (scenario string, choices []int, ok bool) {
	if c.Replay == "" {
		return "", nil, false
	}
	b, err := os.ReadFile(c.Replay)
	if err != nil {
		return "", nil, false
	}
	var f struct {
		Replay struct {
			Scenario string `json:"scenario"`
			Choices  string `json:"choices"`
		} `json:"replay"`
	}
	if json.Unmarshal(b, &f) != nil || f.Replay.Choices == "" {
		return "", nil, false
	}
	for _, t := range strings.Fields(strings.Trim(f.Replay.Choices, "[]")) {
		n, err := strconv.Atoi(t)
		if err != nil {
			return "", nil, false
		}
		choices = append(choices, n)
	}
	if choices == nil {
		choices = []int{}
	}
	return f.Replay.Scenario, choices, true
}

// e3Merge writes the common E3 evidence keys.
func e3Merge(c *Ctx, outs []*shardOut, bound int) {
	r := c.R
	var execs, trans int64
	pb := map[string]int64{}
	maxPoints := 0
	outcomes := 0
	exhaustive := true
	var samples []interface{}
	for _, o := range outs {
		execs += o.Executions
		trans += o.Transitions
		for k, v := range o.PerBound {
			pb[k] += v
		}
		if o.MaxPoints > maxPoints {
			maxPoints = o.MaxPoints
		}
		outcomes += len(o.Outcomes)
		exhaustive = exhaustive && o.Exhaustive
		s := map[string]interface{}{"scenario": o.Name, "executions": o.Executions, "distinct_outcomes": len(o.Outcomes)}
		if len(o.Outcomes) > 0 {
			s["example_outcome"] = o.Outcomes[0]
		}
		for k, v := range o.Extra {
			r.Add(k, v)
		}
		samples = append(samples, s)
	}
	r.Set("states", int64(outcomes))
	r.Set("transitions", trans)
	r.Set("traces_validated_against_impl", execs)
	r.Set("evaluations", execs)
	r.Set("executions_per_preemptions", pb)
	r.Set("bound_completed", int64(bound))
	r.Set("max_points", int64(maxPoints))
	r.Set("distinct_final_outcomes", int64(outcomes))
	r.Set("distinct_nontrivial", int64(outcomes))
	r.Set("exhaustive", exhaustive && !r.TooMany())
	r.Set("samples", samples)
	// the free-running -race pass that bin/check runs before the thorough tier (a side condition, see racepass.go)
	if v := os.Getenv("VERIF_RACE_RUNS"); v != "" {
		if n, err := strconv.Atoi(v); err == nil {
			r.Set("race_pass_runs", int64(n))
		}
	}
}
