package checks

import (
	"fmt"
	"sort"

	"go.mongodb.org/mongo-driver/bson"

	"github.com/256dpi/lungo"
	"github.com/256dpi/lungo/bsonkit"
	"github.com/256dpi/lungo/mongokit"

	"verif/internal/refmodel"
)

type problem struct {
	class string
	what  string
}

func sortedHandles(cat *lungo.Catalog) []lungo.Handle {
	var hs []lungo.Handle
	for h := range cat.Namespaces {
		hs = append(hs, h)
	}
	sort.Slice(hs, func(i, j int) bool { return hs[i].String() < hs[j].String() })
	return hs
}

// underPartial decides (independently where possible) whether a document falls under a partial filter.
func underPartial(d bson.D, partial bsonkit.Doc) bool {
	if partial == nil {
		return true
	}
	ok, err := refmodel.Match(d, *partial)
	if err != nil {
		dd := d
		ok, _ = mongokit.Match(&dd, partial)
	}
	return ok
}

// uniqueProblems: no two documents under a unique index share a key (independent extractor).
func uniqueProblems(cat *lungo.Catalog) []problem {
	var out []problem
	for _, h := range sortedHandles(cat) {
		if h == lungo.Oplog {
			continue
		}
		ns := cat.Namespaces[h]
		// the _id rule holds even if the index object were missing
		type spec struct {
			name    string
			key     bson.D
			partial bsonkit.Doc
		}
		specs := []spec{{"_id(always)", bson.D{{Key: "_id", Value: int32(1)}}, nil}}
		for name, idx := range ns.Indexes {
			c := idx.Config()
			if c.Unique {
				specs = append(specs, spec{name, *c.Key, c.Partial})
			}
		}
		sort.Slice(specs, func(i, j int) bool { return specs[i].name < specs[j].name })
		for _, s := range specs {
			var under []bson.D
			for _, d := range ns.Documents.List {
				if underPartial(*d, s.partial) {
					under = append(under, *d)
				}
			}
			for i := 0; i < len(under); i++ {
				for j := i + 1; j < len(under); j++ {
					if refmodel.SharesKey(under[i], under[j], s.key) {
						out = append(out, problem{"duplicate-key:" + s.name, fmt.Sprintf("%s: documents %s and %s share a key of unique index %s %s", h.String(), J(under[i]), J(under[j]), s.name, J(s.key))})
					}
				}
			}
		}
	}
	return out
}

// coherenceProblems: every index holds exactly its collection's documents, once, in key order,
// like a freshly rebuilt index; the document set's position map is consistent.
func coherenceProblems(cat *lungo.Catalog) []problem {
	var out []problem
	for _, h := range sortedHandles(cat) {
		ns := cat.Namespaces[h]
		set := ns.Documents
		seen := map[bsonkit.Doc]bool{}
		for i, d := range set.List {
			if seen[d] {
				out = append(out, problem{"set:duplicate-pointer", h.String() + ": document listed twice"})
			}
			seen[d] = true
			if p, ok := set.Index[d]; !ok || p != i {
				out = append(out, problem{"set:position-map", fmt.Sprintf("%s: Set.Index of document %d is %d (present %v)", h.String(), i, p, ok)})
			}
		}
		if len(set.Index) != len(set.List) {
			out = append(out, problem{"set:position-map-size", fmt.Sprintf("%s: %d positions for %d documents", h.String(), len(set.Index), len(set.List))})
		}
		if h != lungo.Oplog {
			if _, ok := ns.Indexes["_id_"]; !ok {
				out = append(out, problem{"index:_id-missing", h.String() + ": the _id index is gone"})
			}
		}
		var names []string
		for name := range ns.Indexes {
			names = append(names, name)
		}
		sort.Strings(names)
		for _, name := range names {
			idx := ns.Indexes[name]
			cfg := idx.Config()
			want := map[bsonkit.Doc]bool{}
			for _, d := range set.List {
				if underPartial(*d, cfg.Partial) {
					want[d] = true
				}
			}
			list := idx.List()
			got := map[bsonkit.Doc]bool{}
			for _, d := range list {
				if got[d] {
					out = append(out, problem{"index:listed-twice:" + name, fmt.Sprintf("%s.%s lists %s twice", h.String(), name, J(*d))})
				}
				got[d] = true
				if !want[d] {
					if seen[d] {
						out = append(out, problem{"index:outside-partial:" + name, fmt.Sprintf("%s.%s contains %s which does not match its partial filter", h.String(), name, J(*d))})
					} else {
						out = append(out, problem{"index:stale-entry:" + name, fmt.Sprintf("%s.%s contains %s which is not a current document", h.String(), name, J(*d))})
					}
				}
			}
			for d := range want {
				if !got[d] {
					out = append(out, problem{"index:missing-entry:" + name, fmt.Sprintf("%s.%s lacks document %s", h.String(), name, J(*d))})
				}
			}
			// key order: consecutive documents never decrease under the smallest key tuple
			minKey := func(d bsonkit.Doc) []interface{} {
				ts := refmodel.IndexKeys(*d, *cfg.Key)
				best := ts[0]
				for _, t := range ts[1:] {
					if refmodel.TupleCmp(t, best, *cfg.Key) < 0 {
						best = t
					}
				}
				return best
			}
			for i := 1; i < len(list); i++ {
				if refmodel.TupleCmp(minKey(list[i-1]), minKey(list[i]), *cfg.Key) > 0 {
					out = append(out, problem{"index:order:" + name, fmt.Sprintf("%s.%s lists %s before %s", h.String(), name, J(*list[i-1]), J(*list[i]))})
				}
			}
			// a rebuilt index has the same membership and the same duplicate verdict
			fresh, err := mongokit.CreateIndex(cfg)
			if err != nil {
				out = append(out, problem{"index:rebuild-error:" + name, err.Error()})
				continue
			}
			ok, err := fresh.Build(set.List)
			if err != nil || !ok {
				out = append(out, problem{"index:rebuild-duplicate:" + name, fmt.Sprintf("%s.%s cannot be rebuilt from its documents (ok=%v err=%v)", h.String(), name, ok, err)})
				continue
			}
			fl := fresh.List()
			if len(fl) != len(list) {
				out = append(out, problem{"index:rebuild-differs:" + name, fmt.Sprintf("%s.%s has %d entries, rebuilt %d", h.String(), name, len(list), len(fl))})
			}
			// the entries are exactly the keys of the current contents of the documents: removing every document from a
			// copy of the index (removal goes by the keys the document has now) succeeds and leaves nothing behind
			cp := idx.Clone()
			for _, d := range list {
				if ok, err := cp.Remove(d); err != nil || !ok {
					out = append(out, problem{"index:entry-not-under-current-keys:" + name, fmt.Sprintf("%s.%s: document %s is listed but not found under the keys it has now (ok=%v err=%v)", h.String(), name, J(*d), ok, err)})
				}
			}
			if rest := cp.List(); len(rest) > 0 {
				out = append(out, problem{"index:stale-keys:" + name, fmt.Sprintf("%s.%s keeps entries for %s under keys the document no longer has", h.String(), name, J(*rest[0]))})
			}
		}
	}
	return out
}
