//go:build !overlay

package checks

import (
	"context"
	"fmt"
	"os"
	"strconv"
	"sync"
	"time"

	"go.mongodb.org/mongo-driver/bson"
	"go.mongodb.org/mongo-driver/mongo"
	"go.mongodb.org/mongo-driver/mongo/options"

	"github.com/256dpi/lungo"

	"verif/internal/world"
)

// RACE is not a property check: it is the free-running side condition of the
// controlled-scheduler checks (C04, C09, C16). The cooperative scheduler's
// hand-offs are happens-before edges, so the race detector is blind under it;
// this pass runs the same kinds of actors as real goroutines on real locks in a
// binary built with -race. bin/check turns a race report into a violation of the
// property whose thorough tier requested the pass.
func init() {
	Register("RACE", "exploration", func(c *Ctx) {
		rounds := 60
		if n, err := strconv.Atoi(os.Getenv("VERIF_RACE_ROUNDS")); err == nil && n > 0 {
			rounds = n
		}
		family := os.Getenv("VERIF_RACE_FAMILY") // C04 | C09 | C16
		var runs int64
		for i := 0; i < rounds; i++ {
			w := world.New()
			coll := w.C("d", "c")
			_, _ = coll.InsertOne(w.Ctx, bD("_id", int32(1), "n", int32(0)))
			_, _ = coll.Indexes().CreateOne(w.Ctx, mongo.IndexModel{Keys: bD("t", int32(1)), Options: options.Index().SetExpireAfterSeconds(3600)})
			var wg sync.WaitGroup
			spawn := func(fn func()) {
				wg.Add(1)
				go func() { defer wg.Done(); defer func() { _ = recover() }(); fn() }()
			}
			ctx, cancel := context.WithCancel(context.Background())
			// writers, readers and transactions (all families)
			for k := 0; k < 3; k++ {
				k := k
				spawn(func() {
					_, _ = coll.UpdateOne(w.Ctx, bD("_id", int32(1)), bD("$inc", bD("n", int32(1))))
					_, _ = coll.InsertOne(w.Ctx, bD("_id", fmt.Sprintf("w%d-%d", i, k)))
					var d bson.D
					_ = coll.FindOne(w.Ctx, bD("_id", int32(1))).Decode(&d)
					_, _ = coll.CountDocuments(w.Ctx, bD())
				})
			}
			spawn(func() {
				sess, err := w.Client.StartSession()
				if err != nil {
					return
				}
				defer sess.EndSession(w.Ctx)
				_, _ = sess.WithTransaction(w.Ctx, func(sc lungo.ISessionContext) (interface{}, error) {
					_, _ = coll.InsertOne(sc, bD("_id", fmt.Sprintf("t%d", i)))
					_, _ = coll.UpdateMany(sc, bD(), bD("$set", bD("seen", true)))
					return nil, nil
				})
			})
			if family != "C04" {
				// streams: consumer, closer, canceller
				stream, err := coll.Watch(w.Ctx, bson.A{})
				if err == nil {
					spawn(func() {
						for stream.Next(ctx) {
							var ev bson.D
							_ = stream.Decode(&ev)
							_ = stream.ResumeToken()
						}
						_ = stream.Err()
					})
					spawn(func() { time.Sleep(time.Duration(i%5) * 100 * time.Microsecond); _ = stream.Close(w.Ctx) })
				}
				spawn(func() { time.Sleep(time.Duration(i%7) * 100 * time.Microsecond); cancel() })
			}
			if family == "C16" {
				// protocol actors: abort, racing EndSession, cancelled writer, engine-level transaction, Close in the middle
				spawn(func() {
					txn, err := w.Engine.Begin(nil, true)
					if err == nil {
						w.Engine.Abort(txn)
						w.Engine.Abort(txn)
					}
				})
				sess, _ := w.Client.StartSession()
				spawn(func() { _ = sess.StartTransaction(); _ = sess.AbortTransaction(w.Ctx) })
				spawn(func() { sess.EndSession(w.Ctx) })
				spawn(func() { _, _ = coll.InsertOne(ctx, bD("_id", fmt.Sprintf("x%d", i))) })
				if i%2 == 0 {
					spawn(func() { time.Sleep(time.Duration(i%3) * 200 * time.Microsecond); w.Engine.Close() })
				}
			}
			wg.Wait()
			cancel()
			w.Close()
			runs++
		}
		c.R.Set("evaluations", runs)
		c.R.Set("race_pass_runs", runs)
		c.R.Set("exhaustive", false)
		c.R.Set("distinct_nontrivial", runs)
		c.R.Set("rule", "free-running goroutines on real locks under the race detector (side condition of the scheduler checks, not an exhaustive exploration)")
		fmt.Printf("RACE-PASS family=%s runs=%d\n", family, runs)
	})
}
