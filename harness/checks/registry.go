// Package checks holds one decision procedure per property.
package checks

import (
	"encoding/json"
	"fmt"
	"os"
	"sort"

	"go.mongodb.org/mongo-driver/bson"

	"verif/internal/ev"
)

// Ctx is passed to every check.
type Ctx struct {
	R      *ev.Run
	Tier   string
	Replay string
}

// ReplayCalls returns the call sequence recorded in the replay file given with --replay (nil otherwise).
func (c *Ctx) ReplayCalls() []string {
	if c.Replay == "" {
		return nil
	}
	b, err := os.ReadFile(c.Replay)
	if err != nil {
		fmt.Fprintln(os.Stderr, "replay file:", err)
		os.Exit(2)
	}
	var f struct {
		Replay struct {
			Calls []string `json:"calls"`
		} `json:"replay"`
	}
	_ = json.Unmarshal(b, &f)
	return f.Replay.Calls
}

// Quick reports whether this is the quick tier.
func (c *Ctx) Quick() bool { return c.Tier == "quick" }

// Check is one registered property check.
type Check struct {
	ID    string
	Level string
	Run   func(c *Ctx)
}

var registry = map[string]*Check{}

// Register adds a check.
func Register(id, level string, run func(c *Ctx)) {
	registry[id] = &Check{ID: id, Level: level, Run: run}
}

// Lookup finds a check.
func Lookup(id string) *Check { return registry[id] }

// IDs lists registered ids.
func IDs() []string {
	var ids []string
	for id := range registry {
		ids = append(ids, id)
	}
	sort.Strings(ids)
	return ids
}

// J renders a value as canonical extended JSON (for samples and replays).
func J(v interface{}) string {
	b, err := bson.MarshalExtJSON(bson.D{{Key: "v", Value: v}}, true, false)
	if err != nil {
		return fmt.Sprintf("%#v", v)
	}
	s := string(b)
	return s[5 : len(s)-1]
}
