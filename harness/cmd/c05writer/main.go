// c05writer performs a fixed commit history through the unmodified FileStore on a real
// directory. It is run under strace by the C05 check (kill points, error injection, syscall
// conformance with the simulated file system). All file system calls are issued from the locked
// main thread so that strace's per-thread counters address them deterministically.
package main

import (
	"context"
	"crypto/sha256"
	"fmt"
	"os"
	"path/filepath"
	"runtime"
	"strings"
	"time"

	"go.mongodb.org/mongo-driver/bson"

	"github.com/256dpi/lungo"

	"verif/internal/world"
)

func say(format string, a ...interface{}) {
	_, _ = os.Stdout.Write([]byte(fmt.Sprintf(format, a...) + "\n"))
}

func main() {
	runtime.LockOSThread()
	dir := os.Args[1]
	history := strings.Split(os.Args[2], ",")
	path := filepath.Join(dir, "data.bson")
	eng, err := lungo.CreateEngine(lungo.Options{Store: lungo.NewFileStore(path, 0o666), ExpireInterval: 1000 * time.Hour})
	if err != nil {
		say("OPENERR %v", err)
		os.Exit(3)
	}
	c := lungo.NewClient(eng)
	ctx := context.Background()
	state := func() string {
		h := sha256.Sum256([]byte(world.DumpCatalog(eng.Catalog(), world.DumpOpts{Oplog: true})))
		return fmt.Sprintf("%x", h[:8])
	}
	say("STATE 0 %s", state())
	for i, op := range history {
		var err error
		switch op {
		case "ins1":
			_, err = c.Database("d").Collection("c").InsertOne(ctx, bson.D{{Key: "_id", Value: int32(1)}, {Key: "pad", Value: strings.Repeat("a", 40)}})
		case "ins2big":
			_, err = c.Database("d").Collection("c").InsertOne(ctx, bson.D{{Key: "_id", Value: int32(2)}, {Key: "pad", Value: strings.Repeat("b", 700)}})
		case "del2":
			_, err = c.Database("d").Collection("c").DeleteOne(ctx, bson.D{{Key: "_id", Value: int32(2)}})
		case "upd1":
			_, err = c.Database("d").Collection("c").UpdateOne(ctx, bson.D{{Key: "_id", Value: int32(1)}}, bson.D{{Key: "$set", Value: bson.D{{Key: "x", Value: int32(1)}}}})
		}
		if err != nil {
			say("ERR %d %s", i+1, strings.ReplaceAll(err.Error(), "\n", " "))
		} else {
			say("ACK %d", i+1)
		}
		say("STATE %d %s", i+1, state())
	}
	say("DONE")
}
