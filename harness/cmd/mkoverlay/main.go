// mkoverlay writes a go build overlay that (a) adds the virtual package
// github.com/256dpi/lungo/verifshim (+ /vos) to the repository under test and
// (b) rewrites the "sync" import of the lungo packages (and the "os" import of
// dbkit/atomic.go and store.go) to those shims. The repository itself is not touched.
//
// usage: mkoverlay <repo> <workdir>
package main

import (
	"encoding/json"
	"fmt"
	"go/parser"
	"go/token"
	"os"
	"path/filepath"
	"regexp"
	"strings"
)

func main() {
	if len(os.Args) < 3 {
		fmt.Fprintln(os.Stderr, "usage: mkoverlay <repo> <workdir>")
		os.Exit(2)
	}
	repo, work := os.Args[1], os.Args[2]
	self, _ := os.Getwd() // harness directory
	replace := map[string]string{}
	must := func(err error) {
		if err != nil {
			fmt.Fprintln(os.Stderr, "mkoverlay:", err)
			os.Exit(1)
		}
	}
	// virtual shim packages
	for _, m := range []struct{ src, dst string }{
		{"shim/verifshim.go.txt", "verifshim/verifshim.go"},
		{"shim/vos/vos.go.txt", "verifshim/vos/vos.go"},
	} {
		b, err := os.ReadFile(filepath.Join(self, m.src))
		must(err)
		out := filepath.Join(work, "ov", m.dst)
		must(os.MkdirAll(filepath.Dir(out), 0o755))
		must(os.WriteFile(out, b, 0o644))
		replace[filepath.Join(repo, m.dst)] = out
	}
	syncRe := regexp.MustCompile(`(?m)^(\s*)"sync"\s*$`)
	osRe := regexp.MustCompile(`(?m)^(\s*)"os"\s*$`)
	osFiles := map[string]bool{"dbkit/atomic.go": true, "store.go": true}
	vosNames := map[string]bool{"Remove": true, "OpenFile": true, "Rename": true, "Open": true, "ReadFile": true, "IsNotExist": true, "FileMode": true,
		"O_WRONLY": true, "O_CREATE": true, "O_EXCL": true, "O_TRUNC": true, "O_RDWR": true, "O_RDONLY": true, "O_APPEND": true, "File": true, "ErrNotExist": true, "IsExist": true, "ErrExist": true}
	rewritten, osRewritten := 0, 0
	var dropped []string
	for _, dir := range []string{".", "dbkit", "bsonkit"} {
		entries, err := os.ReadDir(filepath.Join(repo, dir))
		must(err)
		for _, e := range entries {
			name := e.Name()
			if e.IsDir() || !strings.HasSuffix(name, ".go") || strings.HasSuffix(name, "_test.go") || strings.HasPrefix(name, "verif_") {
				continue
			}
			rel := filepath.Join(dir, name)
			if dir == "." {
				rel = name
			}
			path := filepath.Join(repo, rel)
			b, err := os.ReadFile(path)
			must(err)
			src := string(b)
			fset := token.NewFileSet()
			f, err := parser.ParseFile(fset, path, src, parser.ImportsOnly)
			if err != nil {
				continue // the real build will report it
			}
			end := int(f.End())
			if end > len(src) {
				end = len(src)
			}
			head, tail := src[:end], src[end:]
			changed := false
			if syncRe.MatchString(head) {
				head = syncRe.ReplaceAllString(head, `${1}sync "github.com/256dpi/lungo/verifshim"`)
				changed = true
				rewritten++
			}
			if osFiles[rel] && osRe.MatchString(head) {
				// only rewrite when every os.X the file uses exists in the seam
				full, err := parser.ParseFile(token.NewFileSet(), path, src, 0)
				ok := err == nil
				if ok {
					for _, m := range regexp.MustCompile(`\bos\.([A-Za-z_]+)`).FindAllStringSubmatch(src, -1) {
						if !vosNames[m[1]] {
							ok = false
							dropped = append(dropped, rel+": os."+m[1])
						}
					}
				}
				_ = full
				if ok {
					head = osRe.ReplaceAllString(head, `${1}os "github.com/256dpi/lungo/verifshim/vos"`)
					changed = true
					osRewritten++
				}
			}
			if !changed {
				continue
			}
			out := filepath.Join(work, "ov", "src", rel)
			must(os.MkdirAll(filepath.Dir(out), 0o755))
			must(os.WriteFile(out, []byte(head+tail), 0o644))
			replace[path] = out
		}
	}
	b, _ := json.MarshalIndent(map[string]interface{}{"Replace": replace}, "", " ")
	must(os.WriteFile(filepath.Join(work, "overlay.json"), b, 0o644))
	info, _ := json.Marshal(map[string]interface{}{"sync_rewritten": rewritten, "os_rewritten": osRewritten, "os_rewrite_dropped": dropped})
	must(os.WriteFile(filepath.Join(work, "overlay.info.json"), info, 0o644))
	fmt.Printf("overlay: %d files with sync rewritten, %d with os rewritten, dropped=%v\n", rewritten, osRewritten, dropped)
}
