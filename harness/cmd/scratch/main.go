package main

import (
	"fmt"

	"go.mongodb.org/mongo-driver/bson"

	"github.com/256dpi/lungo/bsonkit"
	"github.com/256dpi/lungo/mongokit"
	"verif/internal/refmodel"
)

func main() {
	doc := bson.D{{Key: "a", Value: bson.A{bson.D{{Key: "x", Value: int32(1)}, {Key: "y", Value: int32(1)}}, bson.D{{Key: "x", Value: int32(2)}, {Key: "y", Value: int32(2)}}}}}
	upd := bson.D{{Key: "$set", Value: bson.D{{Key: "a.$[i].x", Value: int32(5)}}}, {Key: "$inc", Value: bson.D{{Key: "a.$[i].y", Value: int32(10)}}}}
	af := []bson.D{{{Key: "i.x", Value: int32(1)}}}
	d := bsonkit.Clone(&doc)
	var list bsonkit.List
	for i := range af {
		list = append(list, &af[i])
	}
	ch, err := mongokit.Apply(d, nil, &upd, false, list)
	fmt.Println("lungo:", err, ch != nil)
	b, _ := bson.MarshalExtJSON(*d, false, false)
	fmt.Println(string(b))
	want, err := refmodel.Apply(doc, upd, false, af)
	b, _ = bson.MarshalExtJSON(want, false, false)
	fmt.Println("ref:", err, string(b))
}
