package main

import (
	"fmt"
	"os"

	"verif/checks"
	"verif/internal/ev"
)

func main() {
	if len(os.Args) < 3 {
		fmt.Fprintf(os.Stderr, "usage: vcheck <ID> <quick|thorough|--replay path>\navailable: %v\n", checks.IDs())
		os.Exit(2)
	}
	id, tier := os.Args[1], os.Args[2]
	c := checks.Lookup(id)
	if c == nil {
		fmt.Fprintf(os.Stderr, "unknown check %s (available: %v)\n", id, checks.IDs())
		os.Exit(2)
	}
	ctx := &checks.Ctx{Tier: tier}
	if tier == "--replay" {
		if len(os.Args) < 4 {
			fmt.Fprintln(os.Stderr, "missing replay path")
			os.Exit(2)
		}
		ctx.Tier, ctx.Replay = "quick", os.Args[3]
		os.Setenv("VERIF_REPLAYING", "1")
		os.Setenv("VERIF_EVIDENCE_DIR", os.TempDir()) // a replay must not overwrite the evidence of the last full run
	} else if tier != "quick" && tier != "thorough" {
		fmt.Fprintln(os.Stderr, "tier must be quick or thorough")
		os.Exit(2)
	}
	ctx.R = ev.New(id, ctx.Tier, c.Level)
	c.Run(ctx)
	ctx.R.Finish()
}
