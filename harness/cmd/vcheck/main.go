package main

import (
	"fmt"
	"os"
	"runtime/pprof"
	"strings"
	"sync/atomic"
	"verif/internal/e1"

	"verif/checks"
	"verif/internal/ev"
)

func main() {
	if len(os.Args) < 3 {
		fmt.Fprintf(os.Stderr, "usage: vcheck <ID> <quick|thorough|--replay path>\navailable: %v\n", checks.IDs())
		os.Exit(2)
	}
	id, tier := os.Args[1], os.Args[2]
	c := checks.Lookup(id)
	if c == nil {
		fmt.Fprintf(os.Stderr, "unknown check %s (available: %v)\n", id, checks.IDs())
		os.Exit(2)
	}
	ctx := &checks.Ctx{Tier: tier}
	if tier == "--replay" {
		if len(os.Args) < 4 {
			fmt.Fprintln(os.Stderr, "missing replay path")
			os.Exit(2)
		}
		ctx.Tier, ctx.Replay = "quick", os.Args[3]
		os.Setenv("VERIF_REPLAYING", "1")
		os.Setenv("VERIF_EVIDENCE_DIR", os.TempDir()) // a replay must not overwrite the evidence of the last full run
	} else if tier != "quick" && tier != "thorough" {
		fmt.Fprintln(os.Stderr, "tier must be quick or thorough")
		os.Exit(2)
	}
	if f := os.Getenv("VERIF_CPUPROFILE"); f != "" {
		if fh, err := os.Create(f); err == nil {
			_ = pprof.StartCPUProfile(fh)
		}
	}
	ctx.R = ev.New(id, ctx.Tier, c.Level)
	// a panic inside lungo during a step of a sequence search is a violation of the property under test (a call must
	// return a result or an error), not the end of the check
	e1.OnPanic = func(calls []string, p interface{}, stack string) {
		last := "?"
		if len(calls) > 0 {
			last = calls[len(calls)-1]
			if i := strings.IndexAny(last, "({"); i > 0 {
				last = last[:i]
			}
		}
		if len(stack) > 3000 {
			stack = stack[:3000]
		}
		cls := "panic:"
		if msg, ok := p.(string); ok && strings.HasPrefix(msg, "the step ") {
			cls = "hang:"
		}
		ctx.R.Violation(cls+last, fmt.Sprintf("panic %v after %s\n%s", p, strings.Join(calls, " ; "), stack), map[string]interface{}{"calls": calls})
	}
	c.Run(ctx)
	if n := atomic.LoadInt64(&e1.SlowSteps); n > 0 {
		// steps that outlived the watchdog's first look and returned later: load, not a defect
		ctx.R.Set("steps_slower_than_the_watchdog", n)
	}
	pprof.StopCPUProfile()
	ctx.R.Finish()
}
