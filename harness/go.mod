module verif

go 1.25.0

require (
	github.com/256dpi/lungo v0.0.0
	github.com/anishathalye/porcupine v1.3.0
	go.mongodb.org/mongo-driver v1.17.9
)

require (
	github.com/shopspring/decimal v1.4.0 // indirect
	github.com/tidwall/btree v1.8.1 // indirect
)

replace github.com/256dpi/lungo => /repo
