// Package e1 is the explicit-state / bounded-depth explorer over real API
// calls: a state is represented by the shortest call sequence reaching it and
// successors are computed by replaying that sequence on a fresh engine and
// applying one more call.
package e1

import (
	"crypto/sha256"
	"fmt"
	"runtime"
	"runtime/debug"
	"strings"
	"sync"
	"sync/atomic"
	"time"

	"verif/internal/par"
	"verif/internal/world"
)

// Call is one letter of the alphabet: a real driver/engine call returning a
// canonical observation of its result.
type Call struct {
	Name string
	Do   func(w *world.World) string
}

// Config configures a BFS.
type Config struct {
	Alphabet []Call
	Depth    int
	New      func() *world.World
	Key      func(w *world.World) string
	// Before/After bracket the last (new) transition of every explored path.
	Before func(w *world.World, path []int) interface{}
	After  func(w *world.World, path []int, pre interface{}, obs string)
	Stop   func() bool
	// MaxStates caps the number of distinct states expanded (0 = none).
	MaxStates int
	// ReplayNames, if set, makes BFS execute exactly this call sequence (by call names) instead of searching:
	// the prefix is replayed on a fresh engine and the last call runs between Before and After.
	ReplayNames []string
}

// Stats reports what a search covered.
type Stats struct {
	States      int64 // distinct canonical keys
	Transitions int64 // real calls executed as the new last step from distinct predecessor states
	ReplayCalls int64 // calls executed to rebuild predecessor states
	MaxDepth    int
	Frontier    int   // states at the depth bound that were not expanded
	Outcomes    int64 // distinct (call, observation) pairs
	Nontrivial  int64 // states whose outgoing calls produced >= 2 different successor keys
	Exhaustive  bool  // all sequences <= Depth explored (modulo deduplication)
	PerLevel    []int
	Shortest    [][]string // sample paths (names)
	Longest     [][]string
}

// Names maps a path to call names.
func Names(alpha []Call, path []int) []string {
	out := make([]string, len(path))
	for i, c := range path {
		out[i] = alpha[c].Name
	}
	return out
}

// OnPanic, if set, receives a panic raised by the step under test (the names of the calls executed so far, the
// panic value and the stack) instead of letting it end the process; the engine of that path is abandoned.
var OnPanic func(calls []string, p interface{}, stack string)

// HangTimeout is the time after which a guarded step that has not returned is looked at. The verdict "hang" does not
// rest on the clock: the goroutine of the step is sampled (runtime.Stack) every HangSample, and the step is reported
// (through OnPanic, its engine abandoned) only when HangSamples consecutive samples show it blocked — not running,
// not runnable — with an identical stack: a lock taken twice, a writer slot that was never given back (the next
// write sits in lungo's one-minute token wait). A step that is merely slow on a loaded machine keeps changing its
// stack or is runnable and is waited for; HangCap bounds a step that keeps running without ever returning.
var (
	HangTimeout = 20 * time.Second
	HangSample  = 10 * time.Second
	HangSamples = 4
	HangCap     = 15 * time.Minute
)

// hung is set by the first hang verdict: a call that never returns is fatal for the search (every later step through
// the same code would wait for the watchdog again), so every search of the process stops there and reports
// exhaustive=false next to the violation.
var hung int32

// Hung reports whether a guarded step has been found hanging.
func Hung() bool { return atomic.LoadInt32(&hung) == 1 }

func withHung(stop func() bool) func() bool {
	return func() bool { return Hung() || (stop != nil && stop()) }
}

// SlowSteps counts the steps that outlived HangTimeout and returned later (evidence of load, not of a defect).
var SlowSteps int64

func goroutineID() string {
	buf := make([]byte, 64)
	buf = buf[:runtime.Stack(buf, false)]
	f := strings.Fields(string(buf))
	if len(f) >= 2 {
		return f[1]
	}
	return ""
}

// goroutineState returns the scheduler state and the stack of the goroutine with the given id ("" if it is gone).
func goroutineState(id string) (state, stack string) {
	buf := make([]byte, 1<<20)
	for {
		n := runtime.Stack(buf, true)
		if n < len(buf) {
			buf = buf[:n]
			break
		}
		buf = make([]byte, 2*len(buf))
	}
	head := "goroutine " + id + " ["
	text := string(buf)
	i := strings.Index(text, "\n"+head)
	if strings.HasPrefix(text, head) {
		i = 0
	} else if i >= 0 {
		i++
	}
	if i < 0 {
		return "", ""
	}
	rest := text[i:]
	if j := strings.Index(rest, "\n\n"); j >= 0 {
		rest = rest[:j]
	}
	line := rest
	if j := strings.Index(rest, "\n"); j >= 0 {
		line, stack = rest[:j], rest[j+1:]
	}
	state = strings.TrimSuffix(strings.TrimPrefix(line, head), "]:")
	// "select, 2 minutes" -> "select"
	if j := strings.Index(state, ","); j >= 0 {
		state = state[:j]
	}
	return state, stack
}

// GoroutineID returns the id of the calling goroutine (for AwaitStep).
func GoroutineID() string { return goroutineID() }

// AwaitStep waits until fin is closed. It returns "" when that happens, and a description of the hang (plus the
// stack of the goroutine) when the goroutine id stays blocked at the same place for HangSamples samples after the
// first look, or keeps running for longer than limit.
func AwaitStep(id string, fin <-chan struct{}, first, limit time.Duration) (what, stack string) {
	select {
	case <-fin:
		return "", ""
	case <-time.After(first):
	}
	started := time.Now()
	same, lastState, lastStack := 0, "", ""
	for {
		state, st := goroutineState(id)
		blocked := state != "" && state != "running" && state != "runnable" && !strings.HasPrefix(state, "syscall")
		if blocked && state == lastState && st == lastStack {
			same++
		} else if blocked {
			same = 1
		} else {
			same = 0
		}
		lastState, lastStack = state, st
		if same >= HangSamples {
			return fmt.Sprintf("the step did not return: its goroutine has been blocked (%s) at the same place for %v", state, time.Duration(same-1)*HangSample+first), st
		}
		if time.Since(started) > limit {
			return fmt.Sprintf("the step is still running after %v", limit+first), st
		}
		select {
		case <-fin:
			atomic.AddInt64(&SlowSteps, 1)
			return "", ""
		case <-time.After(HangSample):
		}
	}
}

func guard(names []string, fn func(), dyn ...*[]string) (failed bool) {
	if OnPanic == nil {
		fn()
		return false
	}
	fin := make(chan struct{})
	gid := make(chan string, 1)
	var panicked int32
	go func() {
		defer close(fin)
		gid <- goroutineID()
		defer func() {
			if p := recover(); p != nil {
				if len(dyn) > 0 {
					names = *dyn[0]
				}
				atomic.StoreInt32(&panicked, 1)
				OnPanic(names, p, string(debug.Stack()))
			}
		}()
		fn()
	}()
	id := <-gid
	what, stack := AwaitStep(id, fin, HangTimeout, HangCap)
	if what == "" {
		return atomic.LoadInt32(&panicked) == 1
	}
	if len(dyn) > 0 {
		names = append([]string{}, (*dyn[0])...)
	}
	atomic.StoreInt32(&hung, 1)
	OnPanic(names, what, "(the goroutine is abandoned)\n"+stack)
	return true
}

// BFS explores all call sequences up to Depth with state deduplication.
func BFS(cfg Config) *Stats {
	cfg.Stop = withHung(cfg.Stop)
	if cfg.New == nil {
		cfg.New = func() *world.World { return world.New() }
	}
	if cfg.Key == nil {
		cfg.Key = func(w *world.World) string { return w.Key() }
	}
	if len(cfg.ReplayNames) > 0 {
		return replayOnly(cfg)
	}
	st := &Stats{Exhaustive: true}
	seen := map[[32]byte]bool{}
	var mu sync.Mutex
	outcomes := map[string]bool{}
	w0 := cfg.New()
	seen[sha256.Sum256([]byte(cfg.Key(w0)))] = true
	w0.Close()
	st.States = 1
	frontier := [][]int{{}}
	for depth := 0; depth < cfg.Depth && len(frontier) > 0; depth++ {
		st.PerLevel = append(st.PerLevel, len(frontier))
		var next [][]int
		stopped := false
		par.For(len(frontier), cfg.Stop, func(fi int) {
			path := frontier[fi]
			succKeys := map[[32]byte]bool{}
			for ci, call := range cfg.Alphabet {
				if cfg.Stop != nil && cfg.Stop() {
					return
				}
				w := cfg.New()
				for _, c := range path {
					cfg.Alphabet[c].Do(w)
				}
				atomic.AddInt64(&st.ReplayCalls, int64(len(path)))
				full := append(append([]int{}, path...), ci)
				var obs string
				var k [32]byte
				panicked := guard(Names(cfg.Alphabet, full), func() {
					var pre interface{}
					if cfg.Before != nil {
						pre = cfg.Before(w, full)
					}
					obs = call.Do(w)
					atomic.AddInt64(&st.Transitions, 1)
					// the key is taken before After, which may probe the engine with further writes
					k = sha256.Sum256([]byte(cfg.Key(w)))
					if cfg.After != nil {
						cfg.After(w, full, pre, obs)
					}
					w.Close()
				})
				if panicked {
					// the engine may be left in any state (locks held): it is abandoned, the state is not expanded
					continue
				}
				succKeys[k] = true
				mu.Lock()
				outcomes[call.Name+"=>"+obs] = true
				if !seen[k] {
					seen[k] = true
					next = append(next, full)
					if len(st.Shortest) < 3 {
						st.Shortest = append(st.Shortest, Names(cfg.Alphabet, full))
					}
				}
				mu.Unlock()
			}
			if len(succKeys) >= 2 {
				atomic.AddInt64(&st.Nontrivial, 1)
			}
		})
		if cfg.Stop != nil && cfg.Stop() {
			stopped = true
		}
		st.MaxDepth = depth + 1
		st.States = int64(len(seen))
		frontier = next
		if stopped {
			st.Exhaustive = false
			break
		}
		if cfg.MaxStates > 0 && len(seen) > cfg.MaxStates {
			st.Exhaustive = false
			break
		}
	}
	st.Frontier = len(frontier)
	for i := len(frontier) - 1; i >= 0 && len(st.Longest) < 3; i-- {
		st.Longest = append(st.Longest, Names(cfg.Alphabet, frontier[i]))
	}
	st.Outcomes = int64(len(outcomes))
	return st
}

// Runner executes one path step by step; Step returns false when the action
// is not enabled in the current situation (the whole subtree is then skipped).
type Runner interface {
	Step(action int) bool
	Done()
}

// PathStats reports what Paths covered.
type PathStats struct {
	Paths      int64 // complete sequences executed
	Steps      int64 // real steps executed
	Pruned     int64 // prefixes cut because an action was not enabled
	Exhaustive bool
}

// Paths executes every action sequence of length exactly depth (every shorter
// sequence is covered as a prefix), without deduplication. Sharded over the
// first two actions.
func Paths(nActions, depth int, newRunner func() Runner, stop func() bool) *PathStats {
	return PathsFrom(nil, nActions, depth, newRunner, stop)
}

// PathsFrom is Paths restricted to sequences that start with fixed (the sequence
// length is still depth, so len(fixed) actions are given and the rest is free).
func PathsFrom(fixed []int, nActions, depth int, newRunner func() Runner, stop func() bool) *PathStats {
	stop = withHung(stop)
	ps := &PathStats{Exhaustive: true}
	var shards [][]int
	if len(fixed) > 0 {
		free := depth - len(fixed)
		switch {
		case free >= 2:
			for a := 0; a < nActions; a++ {
				for b := 0; b < nActions; b++ {
					shards = append(shards, append(append([]int{}, fixed...), a, b))
				}
			}
		case free == 1:
			for a := 0; a < nActions; a++ {
				shards = append(shards, append(append([]int{}, fixed...), a))
			}
		default:
			shards = append(shards, append([]int{}, fixed...))
		}
	} else if depth >= 2 {
		for a := 0; a < nActions; a++ {
			for b := 0; b < nActions; b++ {
				shards = append(shards, []int{a, b})
			}
		}
	} else {
		for a := 0; a < nActions; a++ {
			shards = append(shards, []int{a})
		}
	}
	par.For(len(shards), stop, func(si int) {
		prefix := shards[si]
		seq := make([]int, depth)
		copy(seq, prefix)
		for {
			if stop != nil && stop() {
				return
			}
			failedAt := -1
			var at []string
			panicked := guard(nil, func() {
				r := newRunner()
				for i, a := range seq {
					atomic.AddInt64(&ps.Steps, 1)
					at = append(at, fmt.Sprintf("action %d", a))
					if !r.Step(a) {
						failedAt = i
						break
					}
				}
				r.Done()
			}, &at)
			if panicked && failedAt < 0 {
				// the subtree below the panicking step is skipped
				failedAt = len(at) - 1
			}
			// advance to the next sequence (skipping the subtree of a disabled prefix)
			pos := depth - 1
			if failedAt >= 0 {
				atomic.AddInt64(&ps.Pruned, 1)
				pos = failedAt
				for j := pos + 1; j < depth; j++ {
					seq[j] = 0
				}
			} else {
				atomic.AddInt64(&ps.Paths, 1)
			}
			for pos >= len(prefix) {
				seq[pos]++
				if seq[pos] < nActions {
					break
				}
				seq[pos] = 0
				pos--
			}
			if pos < len(prefix) {
				return
			}
		}
	})
	if stop != nil && stop() {
		ps.Exhaustive = false
	}
	return ps
}

// replayOnly executes one recorded call sequence.
func replayOnly(cfg Config) *Stats {
	st := &Stats{Exhaustive: false}
	var path []int
	for _, n := range cfg.ReplayNames {
		found := -1
		for i, c := range cfg.Alphabet {
			if c.Name == n {
				found = i
				break
			}
		}
		if found < 0 {
			return st // the sequence does not belong to this alphabet (e.g. another part of the check)
		}
		path = append(path, found)
	}
	w := cfg.New()
	for _, c := range path[:len(path)-1] {
		cfg.Alphabet[c].Do(w)
	}
	guard(cfg.ReplayNames, func() {
		var pre interface{}
		if cfg.Before != nil {
			pre = cfg.Before(w, path)
		}
		obs := cfg.Alphabet[path[len(path)-1]].Do(w)
		if cfg.After != nil {
			cfg.After(w, path, pre, obs)
		}
	})
	st.States, st.Transitions, st.MaxDepth = 1, 1, len(path)
	st.ReplayCalls = int64(len(path) - 1)
	st.Shortest = [][]string{cfg.ReplayNames}
	return st
}
