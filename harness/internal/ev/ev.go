// Package ev writes /verif/evidence/<id>.json and implements the exit protocol
// (VIOLATION / KNOWN-FINDING lines, replay files).
package ev

import (
	"crypto/sha256"
	"encoding/hex"
	"encoding/json"
	"fmt"
	"os"
	"path/filepath"
	"sort"
	"strconv"
	"strings"
	"sync"
	"time"

	"verif/internal/kf"
)

// Root is /verif (overridable for vp run snapshots).
var Root = func() string {
	if r := os.Getenv("VERIF_ROOT"); r != "" {
		return r
	}
	return "/verif"
}()

// Run collects everything one check invocation reports.
type Run struct {
	ID    string
	Tier  string
	Seed  int64
	Level string

	mu          sync.Mutex
	start       time.Time
	cov         map[string]interface{}
	assumptions []string
	violations  int
	known       map[string]int
	knownWhat   map[string]string
	seenViol    map[string]bool
	samples     []interface{}
	broken      []string
	findings    *kf.File
	maxViol     int
}

// New starts a run.
func New(id, tier, level string) *Run {
	seed, _ := strconv.ParseInt(os.Getenv("VERIF_SEED"), 10, 64)
	f, err := kf.Load(filepath.Join(Root, "KNOWN_FINDINGS.txt"))
	if err != nil {
		fmt.Fprintln(os.Stderr, "known findings:", err)
		os.Exit(2)
	}
	maxv := 5
	if n, err := strconv.Atoi(os.Getenv("VERIF_MAXVIOL")); err == nil && n > 0 {
		maxv = n
	}
	return &Run{ID: id, Tier: tier, Seed: seed, Level: level, start: time.Now(),
		cov: map[string]interface{}{}, known: map[string]int{}, knownWhat: map[string]string{},
		seenViol: map[string]bool{}, findings: f, maxViol: maxv}
}

// Set sets a coverage key.
func (r *Run) Set(k string, v interface{}) {
	r.mu.Lock()
	r.cov[k] = v
	r.mu.Unlock()
}

// Add adds n to an integer coverage key.
func (r *Run) Add(k string, n int64) {
	r.mu.Lock()
	c, _ := r.cov[k].(int64)
	r.cov[k] = c + n
	r.mu.Unlock()
}

// Get returns an integer coverage key.
func (r *Run) Get(k string) int64 {
	r.mu.Lock()
	defer r.mu.Unlock()
	c, _ := r.cov[k].(int64)
	return c
}

// Assume records an assumption.
func (r *Run) Assume(s ...string) { r.assumptions = append(r.assumptions, s...) }

// Sample records one explored case (kept to at most 12).
func (r *Run) Sample(v interface{}) {
	r.mu.Lock()
	if len(r.samples) < 12 {
		r.samples = append(r.samples, v)
	}
	r.mu.Unlock()
}

// Broken records a harness failure (vacuity guard, internal error): the check
// exits 2, which is neither "held" nor a property violation.
func (r *Run) Broken(format string, a ...interface{}) {
	if os.Getenv("VERIF_REPLAYING") != "" {
		return // a replay executes one recorded case: the vacuity guards of the full search do not apply
	}
	r.mu.Lock()
	r.broken = append(r.broken, fmt.Sprintf(format, a...))
	r.mu.Unlock()
}

// TooMany reports whether enough violations were reported to stop early.
func (r *Run) TooMany() bool {
	r.mu.Lock()
	defer r.mu.Unlock()
	return r.violations >= r.maxViol
}

// Violation reports one violation. class is the precise signature of the
// failing input/call site/history used to match known findings; replay is the
// content of the replay file.
func (r *Run) Violation(class string, what string, replay interface{}) {
	class = strings.ReplaceAll(class, " ", "_")
	r.mu.Lock()
	defer r.mu.Unlock()
	if e := r.findings.Match(r.ID, class); e != nil {
		if r.known[e.Key] == 0 {
			fmt.Printf("KNOWN-FINDING: property=%s %s [%s]\n", r.ID, e.What, e.Key)
		}
		r.known[e.Key]++
		r.knownWhat[e.Key] = e.What
		return
	}
	if r.seenViol[class] {
		return
	}
	r.seenViol[class] = true
	if r.violations >= r.maxViol {
		return
	}
	r.violations++
	body := map[string]interface{}{"property": r.ID, "class": class, "what": what, "replay": replay}
	b, _ := json.MarshalIndent(body, "", " ")
	h := sha256.Sum256(b)
	dir := filepath.Join(Root, "replays")
	if d := os.Getenv("VERIF_EVIDENCE_DIR"); d != "" {
		dir = filepath.Join(d, "replays")
	}
	_ = os.MkdirAll(dir, 0o755)
	p := filepath.Join(dir, fmt.Sprintf("%s-%s.json", r.ID, hex.EncodeToString(h[:6])))
	_ = os.WriteFile(p, b, 0o644)
	fmt.Printf("VIOLATION property=%s replay=%s\n", r.ID, p)
	fmt.Printf("  class=%s\n  %s\n", class, what)
}

// Finish writes the evidence file and exits.
func (r *Run) Finish() {
	r.mu.Lock()
	defer r.mu.Unlock()
	cov := r.cov
	if _, ok := cov["samples"]; !ok {
		if len(r.samples) == 0 {
			r.samples = append(r.samples, "none recorded")
		}
		cov["samples"] = r.samples
	}
	var hits []string
	for k, n := range r.known {
		hits = append(hits, fmt.Sprintf("%s x%d: %s", k, n, r.knownWhat[k]))
	}
	sort.Strings(hits)
	cov["known_findings_hit"] = hits
	if len(r.broken) > 0 {
		cov["harness_errors"] = r.broken
	}
	out := map[string]interface{}{
		"property_id": r.ID, "tier": r.Tier, "seed": r.Seed, "level": r.Level,
		"coverage": cov, "assumptions": r.assumptions,
		"wall_s":     float64(int(time.Since(r.start).Seconds()*100)) / 100,
		"violations": r.violations,
	}
	b, _ := json.MarshalIndent(out, "", " ")
	dir := filepath.Join(Root, "evidence")
	if d := os.Getenv("VERIF_EVIDENCE_DIR"); d != "" {
		dir = d // mutant runs must not overwrite the evidence of the real tree
	}
	_ = os.MkdirAll(dir, 0o755)
	if err := os.WriteFile(filepath.Join(dir, r.ID+".json"), append(b, '\n'), 0o644); err != nil {
		fmt.Fprintln(os.Stderr, "evidence:", err)
		os.Exit(2)
	}
	keys := make([]string, 0, len(cov))
	for k := range cov {
		keys = append(keys, k)
	}
	sort.Strings(keys)
	fmt.Printf("%s %s: ", r.ID, r.Tier)
	for _, k := range keys {
		switch v := cov[k].(type) {
		case int64, int, bool, float64:
			fmt.Printf("%s=%v ", k, v)
		}
	}
	fmt.Printf("violations=%d known=%d wall=%.1fs\n", r.violations, len(r.known), time.Since(r.start).Seconds())
	if r.violations > 0 {
		os.Exit(1)
	}
	if len(r.broken) > 0 {
		for _, b := range r.broken {
			fmt.Println("HARNESS-ERROR:", b)
		}
		os.Exit(2)
	}
	os.Exit(0)
}
