// Package kf reads /verif/KNOWN_FINDINGS.txt (read-only at run time).
package kf

import (
	"bufio"
	"fmt"
	"os"
	"strings"
)

// Entry is one "open:" line. "fixed:" lines are documentation and suppress nothing.
type Entry struct {
	Property string
	Key      string // exact class signature, or prefix when it ends in '*'
	What     string
}

// File is the parsed file.
type File struct{ Entries []Entry }

// Load parses the file; a missing file is an empty list.
func Load(path string) (*File, error) {
	f, err := os.Open(path)
	if os.IsNotExist(err) {
		return &File{}, nil
	} else if err != nil {
		return nil, err
	}
	defer f.Close()
	out := &File{}
	sc := bufio.NewScanner(f)
	sc.Buffer(make([]byte, 1<<20), 1<<20)
	for sc.Scan() {
		line := strings.TrimSpace(sc.Text())
		if line == "" || strings.HasPrefix(line, "#") || strings.HasPrefix(line, "fixed:") {
			continue
		}
		if !strings.HasPrefix(line, "open:") {
			return nil, fmt.Errorf("unrecognised line: %q", line)
		}
		fs := strings.Fields(strings.TrimPrefix(line, "open:"))
		if len(fs) < 3 || !strings.HasPrefix(fs[0], "property=") || !strings.HasPrefix(fs[1], "key=") {
			return nil, fmt.Errorf("malformed open line: %q", line)
		}
		out.Entries = append(out.Entries, Entry{
			Property: strings.TrimPrefix(fs[0], "property="),
			Key:      strings.TrimPrefix(fs[1], "key="),
			What:     strings.Join(fs[2:], " "),
		})
	}
	return out, sc.Err()
}

// Match returns the open entry covering the class, or nil.
func (f *File) Match(prop, class string) *Entry {
	for i := range f.Entries {
		e := &f.Entries[i]
		if e.Property != prop {
			continue
		}
		if e.Key == class {
			return e
		}
		if strings.HasSuffix(e.Key, "*") && strings.HasPrefix(class, strings.TrimSuffix(e.Key, "*")) {
			return e
		}
	}
	return nil
}
