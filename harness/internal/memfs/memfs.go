//go:build overlay

// Package memfs is an in-memory POSIX-model file system for the crash and
// fault enumerator (E4a). It is installed behind the vos seam that replaces
// the "os" import of dbkit/atomic.go and store.go in overlay builds.
//
// Persistence model (pessimistic POSIX reading): data written to a file is
// durable only after fsync of that file; a directory operation (create,
// unlink, rename) is durable only after fsync of the directory. At a crash
// every subset of the unsynced data blocks and every subset of the unsynced
// directory operations (applied in program order) may have reached the disk.
package memfs

import (
	"crypto/sha256"
	"fmt"
	"os"
	"path/filepath"
	"sort"
	"syscall"

	"github.com/256dpi/lungo/verifshim/vos"
)

// Block is an unsynced data operation on an inode.
type Block struct {
	Off   int
	Data  []byte
	Trunc bool // truncate to zero length (O_TRUNC)
}

type inode struct {
	durable []byte
	pend    []Block
}

func applyBlocks(base []byte, blocks []Block) []byte {
	out := append([]byte{}, base...)
	for _, b := range blocks {
		if b.Trunc {
			out = out[:0]
			continue
		}
		if need := b.Off + len(b.Data); need > len(out) {
			out = append(out, make([]byte, need-len(out))...)
		}
		copy(out[b.Off:], b.Data)
	}
	return out
}

// DirOp is an unsynced directory operation.
type DirOp struct {
	Kind        string // create | unlink | rename
	Name, Name2 string
	Ino         int
}

func applyDirOps(names map[string]int, ops []DirOp) map[string]int {
	out := map[string]int{}
	for k, v := range names {
		out[k] = v
	}
	for _, op := range ops {
		switch op.Kind {
		case "create":
			out[op.Name] = op.Ino
		case "unlink":
			delete(out, op.Name)
		case "rename":
			if out[op.Name] == op.Ino {
				delete(out, op.Name)
			}
			out[op.Name2] = op.Ino
		}
	}
	return out
}

// Op is one logged file-system call.
type Op struct {
	Kind string // remove | open | write | fsync | close | rename | readfile | opendir | fsyncdir | closedir
	Name string
	N    int
	Err  string
}

func (o Op) String() string {
	s := o.Kind + "(" + o.Name
	if o.Kind == "write" {
		s += fmt.Sprintf(",%d", o.N)
	}
	s += ")"
	if o.Err != "" {
		s += "=" + o.Err
	}
	return s
}

// Snap is the persistence state after an operation (or after one block of a write).
type Snap struct {
	OpIndex int // number of completed operations
	Note    string
	Epoch   int
	names   map[string]int
	inodes  map[int]inode
	pendDir []DirOp
}

// FS is the file system.
type FS struct {
	Dir     string
	inodes  map[int]*inode
	names   map[string]int
	pendDir []DirOp
	next    int
	Ops     []Op
	Snaps   []*Snap
	Epoch   int
	// fault injection: the operation with this index fails (-1: none)
	FailAt   int
	FailMode string // "error" | "short" (write: half of the data is written before the error)
	Injected bool
	NoSnaps  bool
}

// ErrInjected is the injected I/O error.
var ErrInjected = &os.PathError{Op: "injected", Path: "memfs", Err: syscall.EIO}

// New creates an empty directory.
func New(dir string) *FS {
	return &FS{Dir: dir, inodes: map[int]*inode{}, names: map[string]int{}, next: 1, FailAt: -1}
}

// FromImage creates a file system whose durable content is the image.
func FromImage(dir string, img map[string][]byte) *FS {
	fs := New(dir)
	var ns []string
	for n := range img {
		ns = append(ns, n)
	}
	sort.Strings(ns)
	for _, n := range ns {
		fs.inodes[fs.next] = &inode{durable: append([]byte{}, img[n]...)}
		fs.names[n] = fs.next
		fs.next++
	}
	return fs
}

func (fs *FS) cur() map[string]int { return applyDirOps(fs.names, fs.pendDir) }

func (fs *FS) base(name string) (string, bool) {
	if filepath.Dir(name) != fs.Dir {
		return "", false
	}
	return filepath.Base(name), true
}

// Mark takes a snapshot without an operation (e.g. at the moment a commit is acknowledged).
func (fs *FS) Mark(note string) { fs.snap(note) }

func (fs *FS) snap(note string) {
	if fs.NoSnaps {
		return
	}
	s := &Snap{OpIndex: len(fs.Ops), Note: note, Epoch: fs.Epoch, names: map[string]int{}, inodes: map[int]inode{}}
	for k, v := range fs.names {
		s.names[k] = v
	}
	for id, in := range fs.inodes {
		c := inode{durable: in.durable}
		c.pend = append(c.pend, in.pend...)
		s.inodes[id] = c
	}
	s.pendDir = append(s.pendDir, fs.pendDir...)
	fs.Snaps = append(fs.Snaps, s)
}

// begin logs an operation and decides whether the injected fault strikes it.
func (fs *FS) begin(kind, name string, n int) (idx int, fail bool) {
	idx = len(fs.Ops)
	fs.Ops = append(fs.Ops, Op{Kind: kind, Name: name, N: n})
	if idx == fs.FailAt {
		fs.Injected = true
		return idx, true
	}
	return idx, false
}

func (fs *FS) end(idx int, err error) error {
	if err != nil {
		fs.Ops[idx].Err = errName(err)
	}
	fs.snap(fs.Ops[idx].String())
	return err
}

func errName(err error) string {
	if pe, ok := err.(*os.PathError); ok {
		if en, ok := pe.Err.(syscall.Errno); ok {
			switch en {
			case syscall.ENOENT:
				return "ENOENT"
			case syscall.EEXIST:
				return "EEXIST"
			case syscall.EIO:
				return "EIO"
			}
		}
		return pe.Err.Error()
	}
	return err.Error()
}

// Remove implements vos.FileSystem.
func (fs *FS) Remove(name string) error {
	b, ok := fs.base(name)
	idx, fail := fs.begin("remove", filepath.Base(name), 0)
	if fail {
		return fs.end(idx, ErrInjected)
	}
	if !ok {
		return fs.end(idx, &os.PathError{Op: "remove", Path: name, Err: syscall.ENOENT})
	}
	ino, exists := fs.cur()[b]
	if !exists {
		return fs.end(idx, &os.PathError{Op: "remove", Path: name, Err: syscall.ENOENT})
	}
	fs.pendDir = append(fs.pendDir, DirOp{Kind: "unlink", Name: b, Ino: ino})
	return fs.end(idx, nil)
}

type handle struct {
	fs     *FS
	ino    int
	dir    bool
	off    int
	closed bool
	name   string
}

// OpenFile implements vos.FileSystem.
func (fs *FS) OpenFile(name string, flag int, perm vos.FileMode) (vos.Handle, error) {
	if name == fs.Dir {
		idx, fail := fs.begin("opendir", ".", 0)
		if fail {
			return nil, fs.end(idx, ErrInjected)
		}
		_ = fs.end(idx, nil)
		return &handle{fs: fs, dir: true, name: "."}, nil
	}
	b, ok := fs.base(name)
	idx, fail := fs.begin("open", filepath.Base(name), flag)
	if fail {
		return nil, fs.end(idx, ErrInjected)
	}
	if !ok {
		return nil, fs.end(idx, &os.PathError{Op: "open", Path: name, Err: syscall.ENOENT})
	}
	ino, exists := fs.cur()[b]
	switch {
	case exists && flag&os.O_CREATE != 0 && flag&os.O_EXCL != 0:
		return nil, fs.end(idx, &os.PathError{Op: "open", Path: name, Err: syscall.EEXIST})
	case !exists && flag&os.O_CREATE == 0:
		return nil, fs.end(idx, &os.PathError{Op: "open", Path: name, Err: syscall.ENOENT})
	case !exists:
		ino = fs.next
		fs.next++
		fs.inodes[ino] = &inode{}
		fs.pendDir = append(fs.pendDir, DirOp{Kind: "create", Name: b, Ino: ino})
	case flag&os.O_TRUNC != 0:
		fs.inodes[ino].pend = append(fs.inodes[ino].pend, Block{Trunc: true})
	}
	h := &handle{fs: fs, ino: ino, name: b}
	if flag&os.O_APPEND != 0 {
		h.off = len(applyBlocks(fs.inodes[ino].durable, fs.inodes[ino].pend))
	}
	_ = fs.end(idx, nil)
	return h, nil
}

// Write implements vos.Handle: the data is split into up to three blocks that persist independently.
func (h *handle) Write(p []byte) (int, error) {
	fs := h.fs
	idx, fail := fs.begin("write", h.name, len(p))
	if h.closed || h.dir {
		return 0, fs.end(idx, os.ErrClosed)
	}
	data := p
	if fail {
		if fs.FailMode != "short" {
			return 0, fs.end(idx, ErrInjected)
		}
		data = p[:len(p)/2]
	}
	n := len(data)
	cuts := []int{0, n / 3, 2 * n / 3, n}
	in := fs.inodes[h.ino]
	for i := 0; i < 3; i++ {
		if cuts[i+1] == cuts[i] {
			continue
		}
		in.pend = append(in.pend, Block{Off: h.off + cuts[i], Data: append([]byte{}, data[cuts[i]:cuts[i+1]]...)})
		if i < 2 && cuts[i+1] < n {
			fs.snap(fmt.Sprintf("write(%s) after block %d", h.name, i+1))
		}
	}
	h.off += n
	if fail {
		return n, fs.end(idx, ErrInjected)
	}
	return n, fs.end(idx, nil)
}

// Sync implements vos.Handle.
func (h *handle) Sync() error {
	fs := h.fs
	kind := "fsync"
	if h.dir {
		kind = "fsyncdir"
	}
	idx, fail := fs.begin(kind, h.name, 0)
	if fail {
		return fs.end(idx, ErrInjected)
	}
	if h.closed {
		return fs.end(idx, os.ErrClosed)
	}
	if h.dir {
		fs.names = applyDirOps(fs.names, fs.pendDir)
		fs.pendDir = nil
	} else {
		in := fs.inodes[h.ino]
		in.durable = applyBlocks(in.durable, in.pend)
		in.pend = nil
	}
	return fs.end(idx, nil)
}

// Close implements vos.Handle.
func (h *handle) Close() error {
	fs := h.fs
	kind := "close"
	if h.dir {
		kind = "closedir"
	}
	idx, fail := fs.begin(kind, h.name, 0)
	if h.closed {
		return fs.end(idx, os.ErrClosed)
	}
	h.closed = true // the descriptor is gone even when close reports an error
	if fail {
		return fs.end(idx, ErrInjected)
	}
	return fs.end(idx, nil)
}

// Rename implements vos.FileSystem.
func (fs *FS) Rename(oldpath, newpath string) error {
	ob, ok1 := fs.base(oldpath)
	nb, ok2 := fs.base(newpath)
	idx, fail := fs.begin("rename", filepath.Base(oldpath)+"->"+filepath.Base(newpath), 0)
	if fail {
		return fs.end(idx, ErrInjected)
	}
	ino, exists := fs.cur()[ob]
	if !ok1 || !ok2 || !exists {
		return fs.end(idx, &os.PathError{Op: "rename", Path: oldpath, Err: syscall.ENOENT})
	}
	fs.pendDir = append(fs.pendDir, DirOp{Kind: "rename", Name: ob, Name2: nb, Ino: ino})
	return fs.end(idx, nil)
}

// ReadFile implements vos.FileSystem (the process's own view: everything written is visible).
func (fs *FS) ReadFile(name string) ([]byte, error) {
	b, ok := fs.base(name)
	idx, fail := fs.begin("readfile", filepath.Base(name), 0)
	if fail {
		return nil, fs.end(idx, ErrInjected)
	}
	ino, exists := fs.cur()[b]
	if !ok || !exists {
		return nil, fs.end(idx, &os.PathError{Op: "open", Path: name, Err: syscall.ENOENT})
	}
	in := fs.inodes[ino]
	_ = fs.end(idx, nil)
	return applyBlocks(in.durable, in.pend), nil
}

// View returns the process's current view of the directory.
func (fs *FS) View() map[string][]byte {
	out := map[string][]byte{}
	for n, ino := range fs.cur() {
		in := fs.inodes[ino]
		out[n] = applyBlocks(in.durable, in.pend)
	}
	return out
}

// Image is a possible on-disk state after a crash.
type Image map[string][]byte

// Hash identifies an image by content.
func (im Image) Hash() [32]byte {
	var ns []string
	for n := range im {
		ns = append(ns, n)
	}
	sort.Strings(ns)
	h := sha256.New()
	for _, n := range ns {
		fmt.Fprintf(h, "%d:%s:%d:", len(n), n, len(im[n]))
		h.Write(im[n])
	}
	var out [32]byte
	copy(out[:], h.Sum(nil))
	return out
}

// Pending reports the number of unsynced data blocks and directory operations of the snapshot.
func (s *Snap) Pending() (blocks, dirops int) {
	for _, in := range s.inodes {
		blocks += len(in.pend)
	}
	return blocks, len(s.pendDir)
}

// Images enumerates every crash image of the snapshot: all subsets of unsynced blocks x all
// subsets of unsynced directory operations. ok=false if there are too many pending items.
func (s *Snap) Images(fn func(im Image, blockMask, dirMask int)) (count int, ok bool) {
	type ref struct{ ino, i int }
	var ids []int
	for id := range s.inodes {
		ids = append(ids, id)
	}
	sort.Ints(ids)
	var blocks []ref
	for _, id := range ids {
		for i := range s.inodes[id].pend {
			blocks = append(blocks, ref{id, i})
		}
	}
	if len(blocks) > 10 || len(s.pendDir) > 6 {
		return 0, false
	}
	for dm := 0; dm < 1<<len(s.pendDir); dm++ {
		var ops []DirOp
		for i, op := range s.pendDir {
			if dm&(1<<i) != 0 {
				ops = append(ops, op)
			}
		}
		names := applyDirOps(s.names, ops)
		for bm := 0; bm < 1<<len(blocks); bm++ {
			chosen := map[int][]Block{}
			for i, r := range blocks {
				if bm&(1<<i) != 0 {
					chosen[r.ino] = append(chosen[r.ino], s.inodes[r.ino].pend[r.i])
				}
			}
			im := Image{}
			for n, ino := range names {
				im[n] = applyBlocks(s.inodes[ino].durable, chosen[ino])
			}
			fn(im, bm, dm)
			count++
		}
	}
	return count, true
}
