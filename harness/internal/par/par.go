// Package par runs index ranges on all cores.
package par

import (
	"runtime"
	"sync"
	"sync/atomic"
)

// Workers is the number of worker goroutines.
func Workers() int { return runtime.NumCPU() }

// For calls fn(i) for i in [0,n) on all cores (dynamic chunks); stop() true ends early.
func For(n int, stop func() bool, fn func(i int)) {
	var next int64
	var wg sync.WaitGroup
	w := Workers()
	if w > n {
		w = n
	}
	for k := 0; k < w; k++ {
		wg.Add(1)
		go func() {
			defer wg.Done()
			for {
				i := int(atomic.AddInt64(&next, 1) - 1)
				if i >= n || (stop != nil && stop()) {
					return
				}
				fn(i)
			}
		}()
	}
	wg.Wait()
}
