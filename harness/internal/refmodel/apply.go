package refmodel

import (
	"math"
	"math/big"
	"sort"
	"strings"

	"go.mongodb.org/mongo-driver/bson"
	"go.mongodb.org/mongo-driver/bson/primitive"
)

// Copy deep-copies a BSON value.
func Copy(v interface{}) interface{} {
	switch x := v.(type) {
	case bson.D:
		out := make(bson.D, len(x))
		for i, e := range x {
			out[i] = bson.E{Key: e.Key, Value: Copy(e.Value)}
		}
		return out
	case bson.A:
		out := make(bson.A, len(x))
		for i, e := range x {
			out[i] = Copy(e)
		}
		return out
	case primitive.Binary:
		return primitive.Binary{Subtype: x.Subtype, Data: append([]byte{}, x.Data...)}
	}
	return v
}

// CopyDoc deep-copies a document.
func CopyDoc(d bson.D) bson.D { return Copy(d).(bson.D) }

// GetPath returns the single value at a path without fan-out (Missing if absent).
func GetPath(v interface{}, path string) interface{} { return getSegs(v, strings.Split(path, ".")) }

func getSegs(v interface{}, segs []string) interface{} {
	if len(segs) == 0 {
		return v
	}
	switch x := v.(type) {
	case bson.D:
		for _, e := range x {
			if e.Key == segs[0] {
				return getSegs(e.Value, segs[1:])
			}
		}
	case bson.A:
		if i, ok := isIndex(segs[0]); ok && i < len(x) {
			return getSegs(x[i], segs[1:])
		}
	}
	return Missing
}

func setSegs(v interface{}, segs []string, val interface{}) (interface{}, error) {
	if len(segs) == 0 {
		return val, nil
	}
	switch x := v.(type) {
	case bson.D:
		for i, e := range x {
			if e.Key == segs[0] {
				nv, err := setSegs(e.Value, segs[1:], val)
				if err != nil {
					return nil, err
				}
				x[i].Value = nv
				return x, nil
			}
		}
		nv, err := setSegs(Missing, segs[1:], val)
		if err != nil {
			return nil, err
		}
		return append(x, bson.E{Key: segs[0], Value: nv}), nil
	case bson.A:
		i, ok := isIndex(segs[0])
		if !ok {
			return nil, reject("cannot create field %q in array", segs[0])
		}
		if i > 10000 {
			return nil, outside("huge array index")
		}
		var cur interface{} = Missing
		if i < len(x) {
			cur = x[i]
		}
		for len(x) <= i {
			x = append(x, nil)
		}
		nv, err := setSegs(cur, segs[1:], val)
		if err != nil {
			return nil, err
		}
		x[i] = nv
		return x, nil
	case missingT:
		nv, err := setSegs(Missing, segs[1:], val)
		if err != nil {
			return nil, err
		}
		return bson.D{{Key: segs[0], Value: nv}}, nil
	}
	return nil, reject("cannot create field %q in scalar", segs[0])
}

func unsetSegs(v interface{}, segs []string) (interface{}, bool) {
	switch x := v.(type) {
	case bson.D:
		for i, e := range x {
			if e.Key == segs[0] {
				if len(segs) == 1 {
					return append(x[:i:i], x[i+1:]...), true
				}
				nv, ok := unsetSegs(e.Value, segs[1:])
				if ok {
					x[i].Value = nv
				}
				return x, ok
			}
		}
	case bson.A:
		if i, ok := isIndex(segs[0]); ok && i < len(x) {
			if len(segs) == 1 {
				x[i] = nil
				return x, true
			}
			nv, ok := unsetSegs(x[i], segs[1:])
			if ok {
				x[i] = nv
			}
			return x, ok
		}
	}
	return v, false
}

// crossesArray reports whether a path applies a non-index segment to an array or uses an index on one.
func touchesArray(v interface{}, segs []string) bool {
	for _, s := range segs {
		switch x := v.(type) {
		case bson.A:
			return true
		case bson.D:
			found := false
			for _, e := range x {
				if e.Key == s {
					v, found = e.Value, true
					break
				}
			}
			if !found {
				return false
			}
		default:
			return false
		}
	}
	return false
}

// UpdateResult is what the reference applier reports.
type UpdateResult struct {
	Doc bson.D
	// FieldOrderFree is set when the position of a field is not fixed by the reference ($rename onto an existing target).
	FieldOrderFree bool
	// HasCurrentDate lists paths set by $currentDate with the expected type ("date"/"timestamp").
	CurrentDate map[string]string
}

type opInvocation struct {
	op   string
	path string
	arg  interface{}
}

// Apply applies an update document to a copy of doc per DESIGN §8.2.
func Apply(doc bson.D, update bson.D, upsert bool, arrayFilters []bson.D) (*UpdateResult, error) {
	// numeric field names below an updated field are outside the domain (index or name?); arrays nested in arrays are
	// fine for updates: every step through an array is an explicit index or a positional operator
	for _, top := range update {
		args, _ := top.Value.(bson.D)
		for _, a := range args {
			paths := []string{a.Key}
			if t, ok := a.Value.(string); ok && top.Key == "$rename" {
				paths = append(paths, t)
			}
			for _, p := range paths {
				if p != "" && hasNumericKey(getSegs(doc, []string{strings.SplitN(p, ".", 2)[0]})) {
					return nil, outside("numeric field name below an updated field")
				}
			}
		}
	}
	if len(update) == 0 {
		return nil, reject("empty update")
	}
	res := &UpdateResult{Doc: CopyDoc(doc), CurrentDate: map[string]string{}}
	// expand all invocations against the ORIGINAL document, then check conflicts statically
	var invs []opInvocation
	for _, top := range update {
		if !strings.HasPrefix(top.Key, "$") {
			return nil, reject("replacement-style update")
		}
		args, ok := top.Value.(bson.D)
		if !ok {
			return nil, reject("%s needs a document", top.Key)
		}
		for _, a := range args {
			paths, err := resolvePaths(doc, a.Key, arrayFilters)
			if err != nil {
				return nil, err
			}
			for _, p := range paths {
				invs = append(invs, opInvocation{top.Key, p, a.Value})
			}
		}
	}
	// conflicts: equal paths or prefix pairs after the positional operators have been expanded against the document
	// (the $rename target counts as a path). A concrete overlap is a conflict under MongoDB's static rule as well as
	// under a run-time rule, so it is decided before the "not modelled" gate below.
	var all []string
	for _, in := range invs {
		all = append(all, in.path)
		if in.op == "$rename" {
			if t, ok := in.arg.(string); ok {
				all = append(all, t)
			}
		}
	}
	for i := range all {
		for j := range all {
			if i < j && (all[i] == all[j] || strings.HasPrefix(all[i], all[j]+".") || strings.HasPrefix(all[j], all[i]+".")) {
				return nil, reject("conflicting paths %q and %q", all[i], all[j])
			}
		}
	}
	// several invocations where one is positional and shares its array with another path:
	// MongoDB's static conflict rules for such trees are not modelled
	nraw := 0
	var raws []string
	for _, top := range update {
		if args, ok := top.Value.(bson.D); ok {
			for _, a := range args {
				raws = append(raws, a.Key)
				nraw++
				if t, ok := a.Value.(string); ok && top.Key == "$rename" {
					raws = append(raws, t)
					if strings.Contains(t, "$") || strings.Contains(a.Key, "$") {
						return nil, outside("$rename with positional operator")
					}
				}
			}
		}
	}
	// the static rule on the paths as written (positional segments taken literally): equal paths or prefix pairs conflict
	for i := range raws {
		for j := range raws {
			if i < j && (raws[i] == raws[j] || strings.HasPrefix(raws[i], raws[j]+".") || strings.HasPrefix(raws[j], raws[i]+".")) {
				return nil, reject("conflicting paths %q and %q", raws[i], raws[j])
			}
		}
	}
	// (two paths that both go through a positional operator at the same array are modelled: each identifier is
	// resolved against the original document with its own filters, concrete overlaps were rejected above)
	for i, p := range raws {
		for k := strings.Index(p, ".$["); k >= 0; {
			head := p[:k]
			for j, q := range raws {
				if i != j && (q == head || strings.HasPrefix(q, head+".") || strings.HasPrefix(head, q+".")) && !strings.HasPrefix(q, head+".$[") {
					return nil, outside("positional path next to a plain path on the same array")
				}
			}
			n := strings.Index(p[k+1:], ".$[")
			if n < 0 {
				break
			}
			k += 1 + n
		}
	}
	for _, in := range invs {
		if err := applyOne(res, in, upsert); err != nil {
			return nil, err
		}
	}
	return res, nil
}

func resolvePaths(doc bson.D, path string, arrayFilters []bson.D) ([]string, error) {
	if path == "" || strings.HasPrefix(path, ".") || strings.HasSuffix(path, ".") || strings.Contains(path, "..") {
		return nil, outside("malformed path")
	}
	segs := strings.Split(path, ".")
	paths := [][]string{{}}
	for i, s := range segs {
		if !strings.HasPrefix(s, "$") {
			for k := range paths {
				paths[k] = append(paths[k], s)
			}
			continue
		}
		if i == 0 {
			return nil, reject("positional operator at root")
		}
		if s == "$" {
			return nil, outside("implicit positional operator")
		}
		if !strings.HasPrefix(s, "$[") || !strings.HasSuffix(s, "]") {
			return nil, reject("bad positional operator")
		}
		id := s[2 : len(s)-1]
		var next [][]string
		for _, p := range paths {
			arr, ok := getSegs(doc, p).(bson.A)
			if !ok {
				return nil, reject("positional operator on non-array")
			}
			for idx, item := range arr {
				if id != "" {
					bound, matched := false, false
					for _, f := range arrayFilters {
						uses := false
						for _, e := range f {
							if e.Key == id || strings.HasPrefix(e.Key, id+".") {
								uses = true
							}
						}
						if !uses {
							continue
						}
						bound = true
						m, err := Match(bson.D{{Key: id, Value: item}}, f)
						if err != nil {
							return nil, err
						}
						if m {
							matched = true
						}
					}
					if !bound {
						return nil, reject("unbound identifier %q", id)
					}
					if !matched {
						continue
					}
				}
				np := append(append([]string{}, p...), itoa(idx))
				next = append(next, np)
			}
			if id != "" && len(arr) == 0 {
				bound := false
				for _, f := range arrayFilters {
					for _, e := range f {
						if e.Key == id || strings.HasPrefix(e.Key, id+".") {
							bound = true
						}
					}
				}
				if !bound {
					return nil, reject("unbound identifier %q", id)
				}
			}
		}
		paths = next
	}
	out := make([]string, len(paths))
	for i, p := range paths {
		out[i] = strings.Join(p, ".")
	}
	return out, nil
}

func itoa(i int) string {
	return big.NewInt(int64(i)).String()
}

func (r *UpdateResult) set(path string, val interface{}) error {
	nv, err := setSegs(r.Doc, strings.Split(path, "."), Copy(val))
	if err != nil {
		return err
	}
	r.Doc = nv.(bson.D)
	return nil
}

func applyOne(r *UpdateResult, in opInvocation, upsert bool) error {
	segs := strings.Split(in.path, ".")
	cur := getSegs(r.Doc, segs)
	switch in.op {
	case "$set":
		return r.set(in.path, in.arg)
	case "$setOnInsert":
		if !upsert {
			return nil
		}
		return r.set(in.path, in.arg)
	case "$unset":
		nv, _ := unsetSegs(r.Doc, segs)
		r.Doc = nv.(bson.D)
		return nil
	case "$rename":
		target, ok := in.arg.(string)
		if !ok {
			return reject("$rename target must be a string")
		}
		tsegs := strings.Split(target, ".")
		for _, s := range append(append([]string{}, segs...), tsegs...) {
			if _, isIdx := isIndex(s); isIdx {
				return outside("$rename with numeric segment")
			}
		}
		if target == in.path || strings.HasPrefix(target, in.path+".") || strings.HasPrefix(in.path, target+".") {
			return reject("$rename overlap")
		}
		if touchesArray(r.Doc, segs) || touchesArray(r.Doc, tsegs) {
			return outside("$rename across arrays")
		}
		if IsMissing(cur) {
			return nil
		}
		if !IsMissing(getSegs(r.Doc, tsegs)) {
			r.FieldOrderFree = true
		}
		nv, _ := unsetSegs(r.Doc, segs)
		r.Doc = nv.(bson.D)
		return r.set(target, cur)
	case "$inc", "$mul":
		if ClassOf(in.arg) != CNumber {
			return reject("%s needs a number", in.op)
		}
		if _, isDec := in.arg.(primitive.Decimal128); isDec && NumKind(in.arg) != "finite" {
			return outside("non-finite decimal128 operand")
		}
		if IsMissing(cur) {
			if in.op == "$inc" {
				return r.set(in.path, in.arg)
			}
			// MongoDB computes operand * int32(0): keeps the operand type, NaN/Inf give NaN
			z, err := Arith("$mul", in.arg, int32(0))
			if err != nil {
				return err
			}
			return r.set(in.path, z)
		}
		if ClassOf(cur) != CNumber || cur == nil {
			return reject("%s on non-number", in.op)
		}
		if _, isNull := cur.(primitive.Null); isNull {
			return reject("%s on null", in.op)
		}
		v, err := Arith(in.op, cur, in.arg)
		if err != nil {
			return err
		}
		return r.set(in.path, v)
	case "$min", "$max":
		if IsMissing(cur) {
			return r.set(in.path, in.arg)
		}
		c := Cmp(cur, in.arg)
		if (in.op == "$min" && c > 0) || (in.op == "$max" && c < 0) {
			return r.set(in.path, in.arg)
		}
		return nil
	case "$currentDate":
		typ := ""
		switch a := in.arg.(type) {
		case bool:
			if !a {
				return outside("$currentDate false")
			}
			typ = "date"
		case bson.D:
			if len(a) != 1 || a[0].Key != "$type" {
				return reject("$currentDate spec")
			}
			s, _ := a[0].Value.(string)
			if s != "date" && s != "timestamp" {
				return reject("$currentDate type")
			}
			typ = s
		default:
			return reject("$currentDate spec")
		}
		r.CurrentDate[in.path] = typ
		if typ == "date" {
			return r.set(in.path, primitive.DateTime(0))
		}
		return r.set(in.path, primitive.Timestamp{})
	case "$push":
		var arr bson.A
		if !IsMissing(cur) {
			a, ok := cur.(bson.A)
			if !ok {
				return reject("$push on non-array")
			}
			arr = Copy(a).(bson.A)
		}
		values := bson.A{in.arg}
		var pos, slice *int64
		var sortSpec interface{}
		if d, ok := in.arg.(bson.D); ok {
			hasEach, hasMod := false, false
			for _, e := range d {
				if e.Key == "$each" {
					hasEach = true
				} else if strings.HasPrefix(e.Key, "$") {
					hasMod = true
				}
			}
			if hasMod && !hasEach {
				return outside("$push modifiers without $each")
			}
			if hasEach {
				for _, e := range d {
					switch e.Key {
					case "$each":
						a, ok := e.Value.(bson.A)
						if !ok {
							return reject("$each needs array")
						}
						values = a
					case "$position":
						n, ok := wholeNumber(e.Value)
						if !ok {
							return reject("$position")
						}
						pos = &n
					case "$slice":
						n, ok := wholeNumber(e.Value)
						if !ok {
							return reject("$slice")
						}
						slice = &n
					case "$sort":
						sortSpec = e.Value
					default:
						return reject("unknown $push modifier")
					}
				}
			}
		}
		at := len(arr)
		if pos != nil {
			if *pos < 0 {
				at = len(arr) + int(*pos)
				if at < 0 {
					at = 0
				}
			} else if int(*pos) < len(arr) {
				at = int(*pos)
			}
		}
		out := append(bson.A{}, arr[:at]...)
		out = append(out, values...)
		out = append(out, arr[at:]...)
		if sortSpec != nil {
			if err := sortArray(out, sortSpec); err != nil {
				return err
			}
		}
		if slice != nil {
			s := int(*slice)
			switch {
			case s == 0:
				out = bson.A{}
			case s > 0 && s < len(out):
				out = out[:s]
			case s < 0 && -s < len(out):
				out = out[len(out)+s:]
			}
		}
		return r.set(in.path, out)
	case "$pop":
		if ClassOf(in.arg) != CNumber || (Cmp(in.arg, int32(1)) != 0 && Cmp(in.arg, int32(-1)) != 0) {
			return reject("$pop needs 1 or -1")
		}
		if IsMissing(cur) {
			return nil
		}
		a, ok := cur.(bson.A)
		if !ok {
			return reject("$pop on non-array")
		}
		if len(a) == 0 {
			return nil
		}
		if Cmp(in.arg, int32(1)) == 0 {
			return r.set(in.path, a[:len(a)-1])
		}
		return r.set(in.path, a[1:])
	case "$pull", "$pullAll":
		if in.op == "$pullAll" {
			if _, ok := in.arg.(bson.A); !ok {
				return reject("$pullAll needs array")
			}
		}
		if IsMissing(cur) {
			return nil
		}
		a, ok := cur.(bson.A)
		if !ok {
			return reject("%s on non-array", in.op)
		}
		out := bson.A{}
		for _, el := range a {
			rm := false
			if in.op == "$pullAll" {
				for _, t := range in.arg.(bson.A) {
					if Cmp(el, t) == 0 {
						rm = true
					}
				}
			} else if cond, isDoc := in.arg.(bson.D); isDoc {
				if len(cond) == 0 {
					return outside("$pull with empty document")
				}
				if _, isOp := isOperatorDoc(cond); isOp {
					m, err := matchField(bson.D{{Key: "x", Value: el}}, "x", cond)
					if err != nil {
						return err
					}
					rm = m
				} else if ed, isD := el.(bson.D); isD {
					m, err := Match(ed, cond)
					if err != nil {
						return err
					}
					rm = m
				}
			} else {
				if _, isArr := in.arg.(bson.A); isArr {
					return outside("$pull with array value")
				}
				rm = Cmp(el, in.arg) == 0
			}
			if !rm {
				out = append(out, el)
			}
		}
		if len(out) == len(a) {
			return nil
		}
		return r.set(in.path, out)
	case "$addToSet":
		values := bson.A{in.arg}
		if d, ok := in.arg.(bson.D); ok {
			for _, e := range d {
				if e.Key == "$each" {
					if len(d) != 1 {
						return reject("$addToSet modifiers")
					}
					a, ok := e.Value.(bson.A)
					if !ok {
						return reject("$each needs array")
					}
					values = a
				}
			}
		}
		var arr bson.A
		if !IsMissing(cur) {
			a, ok := cur.(bson.A)
			if !ok {
				return reject("$addToSet on non-array")
			}
			arr = Copy(a).(bson.A)
		}
		changed := IsMissing(cur)
		for _, v := range values {
			found := false
			for _, e := range arr {
				if Cmp(e, v) == 0 {
					found = true
				}
			}
			if !found {
				arr = append(arr, v)
				changed = true
			}
		}
		if !changed {
			return nil
		}
		if arr == nil {
			arr = bson.A{}
		}
		return r.set(in.path, arr)
	case "$bit":
		spec, ok := in.arg.(bson.D)
		if !ok || len(spec) != 1 {
			return reject("$bit spec")
		}
		var operand int64
		wide := false
		switch n := spec[0].Value.(type) {
		case int32:
			operand = int64(n)
		case int64:
			operand, wide = n, true
		default:
			return reject("$bit operand")
		}
		var field int64
		switch n := cur.(type) {
		case int32:
			field = int64(n)
		case int64:
			field, wide = n, true
		case missingT:
		default:
			return reject("$bit on non-integer")
		}
		var res int64
		switch spec[0].Key {
		case "and":
			res = field & operand
		case "or":
			res = field | operand
		case "xor":
			res = field ^ operand
		default:
			return reject("$bit op")
		}
		if wide {
			return r.set(in.path, res)
		}
		return r.set(in.path, int32(res))
	}
	return outside("operator %s", in.op)
}

func zeroOf(v interface{}) interface{} {
	switch v.(type) {
	case int32:
		return int32(0)
	case int64:
		return int64(0)
	case float64:
		return float64(0)
	}
	d, _ := primitive.ParseDecimal128("0")
	return d
}

var (
	minI32 = big.NewInt(math.MinInt32)
	maxI32 = big.NewInt(math.MaxInt32)
	minI64 = big.NewInt(math.MinInt64)
	maxI64 = big.NewInt(math.MaxInt64)
)

// Arith computes $inc / $mul with MongoDB's promotion rules (§8.2).
func Arith(op string, a, b interface{}) (interface{}, error) {
	_, aDec := a.(primitive.Decimal128)
	_, bDec := b.(primitive.Decimal128)
	af, aF := a.(float64)
	bf, bF := b.(float64)
	switch {
	case aDec || bDec:
		if NumKind(a) != "finite" || NumKind(b) != "finite" {
			return nil, outside("non-finite decimal128 arithmetic")
		}
		if aF || bF {
			return nil, outside("double with decimal128 arithmetic")
		}
		x, y := Rat(a), Rat(b)
		z := new(big.Rat)
		if op == "$inc" {
			z.Add(x, y)
		} else {
			z.Mul(x, y)
		}
		return ExactDecimal{z}, nil
	case aF || bF:
		if !aF {
			af, _ = new(big.Rat).Set(Rat(a)).Float64()
			if n, ok := a.(int64); ok {
				af = float64(n)
			} else if n, ok := a.(int32); ok {
				af = float64(n)
			}
		}
		if !bF {
			if n, ok := b.(int64); ok {
				bf = float64(n)
			} else if n, ok := b.(int32); ok {
				bf = float64(n)
			}
		}
		if op == "$inc" {
			return af + bf, nil
		}
		return af * bf, nil
	}
	x, y := Rat(a).Num(), Rat(b).Num()
	z := new(big.Int)
	if op == "$inc" {
		z.Add(x, y)
	} else {
		z.Mul(x, y)
	}
	_, a32 := a.(int32)
	_, b32 := b.(int32)
	if a32 && b32 && z.Cmp(minI32) >= 0 && z.Cmp(maxI32) <= 0 {
		return int32(z.Int64()), nil
	}
	if z.Cmp(minI64) >= 0 && z.Cmp(maxI64) <= 0 {
		return z.Int64(), nil
	}
	return nil, reject("integer overflow")
}

// ExactDecimal stands for "a decimal128 whose value is exactly Rat".
type ExactDecimal struct{ R *big.Rat }

func sortArray(arr bson.A, spec interface{}) error {
	switch s := spec.(type) {
	case int32, int64, float64:
		n, ok := wholeNumber(s)
		if !ok || (n != 1 && n != -1) {
			return reject("$sort direction")
		}
		sort.SliceStable(arr, func(i, j int) bool {
			c := Cmp(arr[i], arr[j])
			if n < 0 {
				return c > 0
			}
			return c < 0
		})
		return nil
	case bson.D:
		if len(s) == 0 {
			return outside("empty $sort document")
		}
		for _, e := range arr {
			if _, ok := e.(bson.D); !ok {
				return reject("$sort by field on non-documents")
			}
		}
		for _, e := range s {
			n, ok := wholeNumber(e.Value)
			if !ok || (n != 1 && n != -1) {
				return reject("$sort direction")
			}
		}
		sort.SliceStable(arr, func(i, j int) bool {
			for _, e := range s {
				n, _ := wholeNumber(e.Value)
				a := SortKey(arr[i].(bson.D), e.Key, n < 0)
				b := SortKey(arr[j].(bson.D), e.Key, n < 0)
				c := Cmp(a, b)
				if c != 0 {
					if n < 0 {
						return c > 0
					}
					return c < 0
				}
			}
			return false
		})
		return nil
	}
	return reject("$sort spec")
}

// SortKey is the value a document sorts by under (path, direction): missing as
// null; an array by its smallest (ascending) or largest (descending) element;
// an empty array as itself.
func SortKey(d bson.D, path string, desc bool) interface{} {
	v := GetPath(d, path)
	if IsMissing(v) {
		return nil
	}
	if a, ok := v.(bson.A); ok && len(a) > 0 {
		best := a[0]
		for _, e := range a[1:] {
			c := Cmp(e, best)
			if (desc && c > 0) || (!desc && c < 0) {
				best = e
			}
		}
		return best
	}
	return v
}

// RoundDecimal128 rounds an exact value half-even to the 34 significant digits of
// a decimal128; overflow reports +1/-1 when the magnitude exceeds the format.
func RoundDecimal128(r *big.Rat) (rounded *big.Rat, overflow int) {
	if r.Sign() == 0 {
		return new(big.Rat), 0
	}
	abs := new(big.Rat).Abs(r)
	pow := func(e int) *big.Rat {
		p := new(big.Int).Exp(big.NewInt(10), big.NewInt(int64(absInt(e))), nil)
		if e >= 0 {
			return new(big.Rat).SetInt(p)
		}
		return new(big.Rat).SetFrac(big.NewInt(1), p)
	}
	e := len(abs.Num().String()) - len(abs.Denom().String()) - 34
	lo, hi := pow(33), pow(34)
	var scaled *big.Rat
	for {
		scaled = new(big.Rat).Quo(abs, pow(e))
		if scaled.Cmp(lo) < 0 {
			e--
		} else if scaled.Cmp(hi) >= 0 {
			e++
		} else {
			break
		}
	}
	q := new(big.Int).Quo(scaled.Num(), scaled.Denom())
	rem := new(big.Rat).Sub(scaled, new(big.Rat).SetInt(q))
	half := big.NewRat(1, 2)
	if c := rem.Cmp(half); c > 0 || (c == 0 && q.Bit(0) == 1) {
		q.Add(q, big.NewInt(1))
	}
	out := new(big.Rat).Mul(new(big.Rat).SetInt(q), pow(e))
	if out.Cmp(pow(6145)) >= 0 {
		return nil, r.Sign()
	}
	if r.Sign() < 0 {
		out.Neg(out)
	}
	return out, 0
}

func absInt(i int) int {
	if i < 0 {
		return -i
	}
	return i
}

// SetPath sets a dotted path in a copy-free manner (used by oracles outside the package).
func SetPath(v interface{}, path string, val interface{}) (interface{}, error) {
	return setSegs(v, strings.Split(path, "."), val)
}

// UnsetPath removes a dotted path.
func UnsetPath(v interface{}, path string) (interface{}, bool) {
	return unsetSegs(v, strings.Split(path, "."))
}
