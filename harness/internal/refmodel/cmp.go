// Package refmodel is the boring, independent reference semantics used as an
// oracle. It does not import bsonkit or mongokit.
package refmodel

import (
	"bytes"
	"fmt"
	"math"
	"math/big"
	"strings"

	"go.mongodb.org/mongo-driver/bson"
	"go.mongodb.org/mongo-driver/bson/primitive"
)

// Missing is the reference model's "no value at this path" marker.
type missingT struct{}

// Missing marks an absent field.
var Missing = missingT{}

// IsMissing reports whether v is the marker.
func IsMissing(v interface{}) bool { _, ok := v.(missingT); return ok }

// Class ranks per the MongoDB comparison order used in the property statement:
// null < numbers < strings < documents < arrays < binary < ObjectId < bool <
// date < timestamp < regex.
const (
	CNull = iota
	CNumber
	CString
	CDocument
	CArray
	CBinary
	CObjectID
	CBool
	CDate
	CTimestamp
	CRegex
)

// ClassOf returns the comparison class.
func ClassOf(v interface{}) int {
	switch v.(type) {
	case nil, primitive.Null, missingT:
		return CNull
	case int32, int64, float64, primitive.Decimal128:
		return CNumber
	case string:
		return CString
	case bson.D:
		return CDocument
	case bson.A:
		return CArray
	case primitive.Binary:
		return CBinary
	case primitive.ObjectID:
		return CObjectID
	case bool:
		return CBool
	case primitive.DateTime:
		return CDate
	case primitive.Timestamp:
		return CTimestamp
	case primitive.Regex:
		return CRegex
	}
	panic(fmt.Sprintf("refmodel: unsupported value %T", v))
}

// num is an extended exact number: kind -2 NaN, -1 -Inf, 0 finite, 1 +Inf.
type num struct {
	kind int
	rat  *big.Rat
}

// NumKind classifies a numeric value: "nan", "-inf", "+inf" or "finite".
func NumKind(v interface{}) string {
	switch toNum(v).kind {
	case -2:
		return "nan"
	case -1:
		return "-inf"
	case 1:
		return "+inf"
	}
	return "finite"
}

// Rat returns the exact value of a finite number (nil otherwise).
func Rat(v interface{}) *big.Rat {
	n := toNum(v)
	if n.kind != 0 {
		return nil
	}
	return n.rat
}

func toNum(v interface{}) num {
	switch x := v.(type) {
	case int32:
		return num{0, new(big.Rat).SetInt64(int64(x))}
	case int64:
		return num{0, new(big.Rat).SetInt64(x)}
	case float64:
		if math.IsNaN(x) {
			return num{-2, nil}
		} else if math.IsInf(x, 1) {
			return num{1, nil}
		} else if math.IsInf(x, -1) {
			return num{-1, nil}
		}
		return num{0, new(big.Rat).SetFloat64(x)}
	case primitive.Decimal128:
		if x.IsNaN() {
			return num{-2, nil}
		}
		if s := x.IsInf(); s > 0 {
			return num{1, nil}
		} else if s < 0 {
			return num{-1, nil}
		}
		bi, exp, err := x.BigInt()
		if err != nil {
			panic(err)
		}
		r := new(big.Rat).SetInt(bi)
		p := new(big.Int).Exp(big.NewInt(10), big.NewInt(int64(abs(exp))), nil)
		if exp >= 0 {
			r.Mul(r, new(big.Rat).SetInt(p))
		} else {
			r.Quo(r, new(big.Rat).SetInt(p))
		}
		return num{0, r}
	}
	panic(fmt.Sprintf("refmodel: not a number %T", v))
}

func abs(i int) int {
	if i < 0 {
		return -i
	}
	return i
}

func sgn(i int) int {
	if i < 0 {
		return -1
	} else if i > 0 {
		return 1
	}
	return 0
}

func cmpNum(a, b interface{}) int {
	x, y := toNum(a), toNum(b)
	if x.kind != 0 || y.kind != 0 {
		// NaN (-2) < -Inf (-1) < finite (0) < +Inf (1); NaN == NaN
		return sgn(x.kind - y.kind)
	}
	return x.rat.Cmp(y.rat)
}

// Cmp compares two BSON values exactly.
func Cmp(a, b interface{}) int {
	ca, cb := ClassOf(a), ClassOf(b)
	if ca != cb {
		return sgn(ca - cb)
	}
	switch ca {
	case CNull:
		return 0
	case CNumber:
		return cmpNum(a, b)
	case CString:
		return strings.Compare(a.(string), b.(string))
	case CDocument:
		x, y := a.(bson.D), b.(bson.D)
		for i := 0; i < len(x) && i < len(y); i++ {
			if c := strings.Compare(x[i].Key, y[i].Key); c != 0 {
				return c
			}
			if c := Cmp(x[i].Value, y[i].Value); c != 0 {
				return c
			}
		}
		return sgn(len(x) - len(y))
	case CArray:
		x, y := a.(bson.A), b.(bson.A)
		for i := 0; i < len(x) && i < len(y); i++ {
			if c := Cmp(x[i], y[i]); c != 0 {
				return c
			}
		}
		return sgn(len(x) - len(y))
	case CBinary:
		x, y := a.(primitive.Binary), b.(primitive.Binary)
		if len(x.Data) != len(y.Data) {
			return sgn(len(x.Data) - len(y.Data))
		}
		if x.Subtype != y.Subtype {
			return sgn(int(x.Subtype) - int(y.Subtype))
		}
		return bytes.Compare(x.Data, y.Data)
	case CObjectID:
		x, y := a.(primitive.ObjectID), b.(primitive.ObjectID)
		return bytes.Compare(x[:], y[:])
	case CBool:
		x, y := a.(bool), b.(bool)
		if x == y {
			return 0
		} else if y {
			return -1
		}
		return 1
	case CDate:
		x, y := a.(primitive.DateTime), b.(primitive.DateTime)
		if x < y {
			return -1
		} else if x > y {
			return 1
		}
		return 0
	case CTimestamp:
		x, y := a.(primitive.Timestamp), b.(primitive.Timestamp)
		if x.T != y.T {
			if x.T < y.T {
				return -1
			}
			return 1
		}
		if x.I != y.I {
			if x.I < y.I {
				return -1
			}
			return 1
		}
		return 0
	case CRegex:
		x, y := a.(primitive.Regex), b.(primitive.Regex)
		if c := strings.Compare(x.Pattern, y.Pattern); c != 0 {
			return c
		}
		return strings.Compare(x.Options, y.Options)
	}
	panic("unreachable")
}

// Equal is Cmp == 0.
func Equal(a, b interface{}) bool { return Cmp(a, b) == 0 }
