package refmodel

import (
	"fmt"
	"sort"
	"strings"

	"go.mongodb.org/mongo-driver/bson"
	"go.mongodb.org/mongo-driver/bson/primitive"
)

// This file is the sequential reference model of a MongoDB-like database used
// by C01 (and C13/C14 for ordering and projection): a collection is a plain
// slice of documents in insertion order plus index definitions.

// Errors of the model are compared by class only.
type ErrDup struct{ Index string }

func (e *ErrDup) Error() string { return "duplicate key for index " + e.Index }

// ErrOther is any other rejection.
type ErrOther struct{ Why string }

func (e *ErrOther) Error() string { return e.Why }

func other(f string, a ...interface{}) error { return &ErrOther{fmt.Sprintf(f, a...)} }

// ErrClass maps a model error to the observation class used by the checks.
func ErrClass(err error) string {
	switch err.(type) {
	case nil:
		return "ok"
	case *ErrDup:
		return "dup"
	}
	return "err"
}

// Index is an index definition.
type Index struct {
	Name    string
	Key     bson.D
	Unique  bool
	Partial bson.D
	Expire  int64 // seconds, -1: none
}

// Coll is a collection.
type Coll struct {
	Docs    []bson.D
	Indexes []Index
}

// DB is the whole database server.
type DB struct {
	Colls  map[string]*Coll // "db.coll"
	nextID uint32
}

// NewDB creates an empty model.
func NewDB() *DB { return &DB{Colls: map[string]*Coll{}} }

func (m *DB) genID() primitive.ObjectID {
	m.nextID++
	var id primitive.ObjectID
	id[0] = 0xAA
	id[8], id[9], id[10], id[11] = byte(m.nextID>>24), byte(m.nextID>>16), byte(m.nextID>>8), byte(m.nextID)
	return id
}

// Clone returns an independent copy of the whole model.
func (m *DB) Clone() *DB {
	n := &DB{Colls: map[string]*Coll{}, nextID: m.nextID}
	for k, c := range m.Colls {
		n.Colls[k] = c.clone()
	}
	return n
}

// C returns the collection, creating it when create is set.
func (m *DB) C(db, coll string, create bool) *Coll {
	k := db + "." + coll
	c := m.Colls[k]
	if c == nil && create {
		c = &Coll{Indexes: []Index{{Name: "_id_", Key: bson.D{{Key: "_id", Value: int32(1)}}, Unique: true, Expire: -1}}}
		m.Colls[k] = c
	}
	return c
}

func (c *Coll) clone() *Coll {
	n := &Coll{Indexes: append([]Index{}, c.Indexes...)}
	for _, d := range c.Docs {
		n.Docs = append(n.Docs, CopyDoc(d))
	}
	return n
}

func under(d bson.D, partial bson.D) bool {
	if partial == nil {
		return true
	}
	ok, err := Match(d, partial)
	return err == nil && ok
}

// uniqueViolation returns the name of a unique index under which two documents share a key.
func (c *Coll) uniqueViolation() string {
	for _, ix := range c.Indexes {
		if !ix.Unique {
			continue
		}
		var in []bson.D
		for _, d := range c.Docs {
			if under(d, ix.Partial) {
				in = append(in, d)
			}
		}
		for i := range in {
			for j := i + 1; j < len(in); j++ {
				if SharesKey(in[i], in[j], ix.Key) {
					return ix.Name
				}
			}
		}
	}
	return ""
}

func hasID(d bson.D) bool {
	for _, e := range d {
		if e.Key == "_id" {
			return true
		}
	}
	return false
}

func idOf(d bson.D) interface{} {
	for _, e := range d {
		if e.Key == "_id" {
			return e.Value
		}
	}
	return Missing
}

func withID(d bson.D, id interface{}) bson.D {
	return append(bson.D{{Key: "_id", Value: id}}, d...)
}

// Insert inserts one document; a missing _id is generated and put first.
func (m *DB) Insert(db, coll string, doc bson.D) (interface{}, error) {
	fresh := m.C(db, coll, false) == nil
	c := m.C(db, coll, true)
	defer func() {
		if fresh && len(c.Docs) == 0 {
			delete(m.Colls, db+"."+coll)
		}
	}()
	d := CopyDoc(doc)
	if !hasID(d) {
		d = withID(d, m.genID())
	}
	c.Docs = append(c.Docs, d)
	if ix := c.uniqueViolation(); ix != "" {
		c.Docs = c.Docs[:len(c.Docs)-1]
		return nil, &ErrDup{ix}
	}
	return idOf(d), nil
}

// Order sorts documents by a sort specification (stable w.r.t. the given order).
func Order(docs []bson.D, spec bson.D) ([]bson.D, error) {
	for _, s := range spec {
		n, ok := wholeNumber(s.Value)
		if !ok || (n != 1 && n != -1) {
			return nil, other("invalid sort direction")
		}
	}
	out := append([]bson.D{}, docs...)
	sort.SliceStable(out, func(i, j int) bool {
		for _, s := range spec {
			n, _ := wholeNumber(s.Value)
			desc := n < 0
			c := Cmp(SortKey(out[i], s.Key, desc), SortKey(out[j], s.Key, desc))
			if c != 0 {
				return (c < 0) != desc
			}
		}
		return false
	})
	return out, nil
}

// Select returns the indexes (into c.Docs) of the matching documents, ordered by sortSpec, windowed by skip/limit (0 = no limit).
func (c *Coll) Select(filter, sortSpec bson.D, skip, limit int) ([]int, error) {
	if c == nil {
		return nil, nil
	}
	var idx []int
	for i, d := range c.Docs {
		ok, err := Match(d, filter)
		if err != nil {
			return nil, err
		}
		if ok {
			idx = append(idx, i)
		}
	}
	if len(sortSpec) > 0 {
		for _, s := range sortSpec {
			n, ok := wholeNumber(s.Value)
			if !ok || (n != 1 && n != -1) {
				return nil, other("invalid sort direction")
			}
		}
		sort.SliceStable(idx, func(a, b int) bool {
			for _, s := range sortSpec {
				n, _ := wholeNumber(s.Value)
				desc := n < 0
				cm := Cmp(SortKey(c.Docs[idx[a]], s.Key, desc), SortKey(c.Docs[idx[b]], s.Key, desc))
				if cm != 0 {
					return (cm < 0) != desc
				}
			}
			return false
		})
	}
	if skip > len(idx) {
		skip = len(idx)
	}
	idx = idx[skip:]
	if limit > 0 && limit < len(idx) {
		idx = idx[:limit]
	}
	return idx, nil
}

// Find returns copies of the selected documents.
func (m *DB) Find(db, coll string, filter, sortSpec bson.D, skip, limit int) ([]bson.D, error) {
	c := m.C(db, coll, false)
	idx, err := c.Select(filter, sortSpec, skip, limit)
	if err != nil {
		return nil, err
	}
	var out []bson.D
	for _, i := range idx {
		out = append(out, CopyDoc(c.Docs[i]))
	}
	return out, nil
}

// Distinct returns the ascending, Cmp-deduplicated values at path (array elements individually).
func Distinct(docs []bson.D, path string) []interface{} {
	var vals []interface{}
	for _, d := range docs {
		cands, _ := Lookup(d, path)
		for _, v := range cands {
			if a, ok := v.(bson.A); ok {
				vals = append(vals, a...)
			} else {
				vals = append(vals, v)
			}
		}
	}
	sort.SliceStable(vals, func(i, j int) bool { return Cmp(vals[i], vals[j]) < 0 })
	var out []interface{}
	for _, v := range vals {
		if len(out) == 0 || Cmp(out[len(out)-1], v) != 0 {
			out = append(out, v)
		}
	}
	return out
}

// UpdateRes is the outcome of an update/replace.
type UpdateRes struct {
	Matched, Modified int
	UpsertedID        interface{} // Missing when nothing was upserted
	Before, After     bson.D      // first affected document (find-one-and-modify)
}

// Extract builds the upsert seed from the equality parts of a query.
func Extract(q bson.D) (bson.D, error) {
	var out interface{} = bson.D{}
	var walk func(q bson.D) error
	walk = func(q bson.D) error {
		for _, e := range q {
			switch {
			case e.Key == "$and":
				arr, ok := e.Value.(bson.A)
				if !ok || len(arr) == 0 {
					return other("$and")
				}
				for _, it := range arr {
					d, ok := it.(bson.D)
					if !ok {
						return other("$and")
					}
					if err := walk(d); err != nil {
						return err
					}
				}
			case e.Key == "$or":
				arr, ok := e.Value.(bson.A)
				if !ok || len(arr) == 0 {
					return other("$or")
				}
				if len(arr) == 1 {
					if d, ok := arr[0].(bson.D); ok {
						if err := walk(d); err != nil {
							return err
						}
					}
				}
			case strings.HasPrefix(e.Key, "$"):
			default:
				if od, ok := isOperatorDoc(e.Value); ok {
					for _, o := range od {
						switch o.Key {
						case "$eq":
							var err error
							if out, err = setSegs(out, strings.Split(e.Key, "."), o.Value); err != nil {
								return other("extract")
							}
						case "$in":
							if a, ok := o.Value.(bson.A); ok && len(a) == 1 {
								var err error
								if out, err = setSegs(out, strings.Split(e.Key, "."), a[0]); err != nil {
									return other("extract")
								}
							}
						}
					}
					continue
				}
				var err error
				if out, err = setSegs(out, strings.Split(e.Key, "."), Copy(e.Value)); err != nil {
					return other("extract")
				}
			}
		}
		return nil
	}
	if err := walk(q); err != nil {
		return nil, err
	}
	return out.(bson.D), nil
}

func sameDoc(a, b bson.D) bool {
	ba, e1 := bson.Marshal(a)
	bb, e2 := bson.Marshal(b)
	return e1 == nil && e2 == nil && string(ba) == string(bb)
}

// Update applies an update document to the selected documents (all-or-nothing).
func (m *DB) Update(db, coll string, filter, update, sortSpec bson.D, many, upsert bool, arrayFilters []bson.D) (*UpdateRes, error) {
	c := m.C(db, coll, false)
	limit := 1
	if many {
		limit = 0
	}
	idx, err := c.Select(filter, sortSpec, 0, limit)
	if err != nil {
		return nil, err
	}
	// the update document is validated even when nothing matches
	if len(update) == 0 {
		return nil, other("empty update")
	}
	for _, top := range update {
		if !strings.HasPrefix(top.Key, "$") {
			return nil, other("replacement-style update")
		}
		switch top.Key {
		case "$set", "$setOnInsert", "$unset", "$rename", "$inc", "$mul", "$min", "$max", "$currentDate", "$push", "$pop", "$pull", "$pullAll", "$addToSet", "$bit":
		default:
			return nil, other("unknown update operator " + top.Key)
		}
	}
	res := &UpdateRes{UpsertedID: Missing}
	if len(idx) == 0 {
		if !upsert {
			// still a malformed update is an error
			if _, err := Apply(bson.D{}, update, false, arrayFilters); err != nil && IsReject(err) && rejectIsStatic(err) {
				return nil, err
			}
			return res, nil
		}
		seed, err := Extract(filter)
		if err != nil {
			return nil, err
		}
		ur, err := Apply(seed, update, true, arrayFilters)
		if err != nil {
			return nil, err
		}
		doc := ur.Doc
		// the _id the new document takes from the filter is immutable: an update that sets another one is rejected
		if hasID(seed) && (!hasID(doc) || Cmp(idOf(doc), idOf(seed)) != 0) {
			return nil, reject("update would modify the immutable field _id")
		}
		if !hasID(doc) {
			doc = withID(doc, m.genID())
		}
		fresh := c == nil
		c = m.C(db, coll, true)
		c.Docs = append(c.Docs, doc)
		if ix := c.uniqueViolation(); ix != "" {
			c.Docs = c.Docs[:len(c.Docs)-1]
			if fresh {
				delete(m.Colls, db+"."+coll)
			}
			return nil, &ErrDup{ix}
		}
		res.UpsertedID = idOf(doc)
		res.After = CopyDoc(doc)
		return res, nil
	}
	work := c.clone()
	for k, i := range idx {
		ur, err := Apply(work.Docs[i], update, false, arrayFilters)
		if err != nil {
			return nil, err
		}
		if Cmp(idOf(ur.Doc), idOf(work.Docs[i])) != 0 || !sameDoc(bson.D{{Key: "v", Value: idOf(ur.Doc)}}, bson.D{{Key: "v", Value: idOf(work.Docs[i])}}) {
			return nil, other("_id is immutable")
		}
		if k == 0 {
			res.Before = CopyDoc(work.Docs[i])
			res.After = CopyDoc(ur.Doc)
		}
		res.Matched++
		if !sameDoc(ur.Doc, work.Docs[i]) {
			res.Modified++
		}
		work.Docs[i] = ur.Doc
	}
	if ix := work.uniqueViolation(); ix != "" {
		return nil, &ErrDup{ix}
	}
	c.Docs = work.Docs
	return res, nil
}

// rejectIsStatic reports whether a rejection does not depend on the target document.
func rejectIsStatic(err error) bool {
	s := err.Error()
	return strings.Contains(s, "conflicting paths") || strings.Contains(s, "needs a document") || strings.Contains(s, "empty update") || strings.Contains(s, "replacement-style")
}

// Replace replaces the first selected document.
func (m *DB) Replace(db, coll string, filter, repl, sortSpec bson.D, upsert bool) (*UpdateRes, error) {
	for _, e := range repl {
		if strings.HasPrefix(e.Key, "$") {
			return nil, other("replacement with operators")
		}
	}
	c := m.C(db, coll, false)
	idx, err := c.Select(filter, sortSpec, 0, 1)
	if err != nil {
		return nil, err
	}
	res := &UpdateRes{UpsertedID: Missing}
	if len(idx) == 0 {
		if !upsert {
			return res, nil
		}
		seed, err := Extract(filter)
		if err != nil {
			return nil, err
		}
		qid, rid := idOf(seed), idOf(repl)
		if !IsMissing(qid) && !IsMissing(rid) && Cmp(qid, rid) != 0 {
			return nil, other("query _id and replacement _id must match")
		}
		doc := CopyDoc(repl)
		switch {
		case !IsMissing(rid):
			doc = withID(stripID(doc), rid)
		case !IsMissing(qid):
			doc = withID(doc, qid)
		default:
			doc = withID(doc, m.genID())
		}
		c = m.C(db, coll, true)
		c.Docs = append(c.Docs, doc)
		if ix := c.uniqueViolation(); ix != "" {
			c.Docs = c.Docs[:len(c.Docs)-1]
			return nil, &ErrDup{ix}
		}
		res.UpsertedID = idOf(doc)
		res.After = CopyDoc(doc)
		return res, nil
	}
	i := idx[0]
	old := c.Docs[i]
	doc := CopyDoc(repl)
	if rid := idOf(doc); IsMissing(rid) {
		doc = withID(doc, idOf(old))
	} else if !sameDoc(bson.D{{Key: "v", Value: rid}}, bson.D{{Key: "v", Value: idOf(old)}}) {
		return nil, other("_id is immutable")
	}
	work := c.clone()
	work.Docs[i] = doc
	if ix := work.uniqueViolation(); ix != "" {
		return nil, &ErrDup{ix}
	}
	res.Matched = 1
	if !sameDoc(old, doc) {
		res.Modified = 1
	}
	res.Before, res.After = CopyDoc(old), CopyDoc(doc)
	c.Docs = work.Docs
	return res, nil
}

func stripID(d bson.D) bson.D {
	var out bson.D
	for _, e := range d {
		if e.Key != "_id" {
			out = append(out, e)
		}
	}
	return out
}

// Delete removes the selected documents and returns them.
func (m *DB) Delete(db, coll string, filter, sortSpec bson.D, many bool) ([]bson.D, error) {
	c := m.C(db, coll, false)
	limit := 1
	if many {
		limit = 0
	}
	idx, err := c.Select(filter, sortSpec, 0, limit)
	if err != nil {
		return nil, err
	}
	del := map[int]bool{}
	var out []bson.D
	for _, i := range idx {
		del[i] = true
		out = append(out, c.Docs[i])
	}
	if len(del) > 0 {
		var keep []bson.D
		for i, d := range c.Docs {
			if !del[i] {
				keep = append(keep, d)
			}
		}
		c.Docs = keep
	}
	return out, nil
}

// DefaultIndexName is key_dir joined by "_".
func DefaultIndexName(key bson.D) string {
	var parts []string
	for _, e := range key {
		parts = append(parts, e.Key, fmt.Sprint(e.Value))
	}
	return strings.Join(parts, "_")
}

func sameKey(a, b bson.D) bool { return sameDoc(a, b) }

func (ix Index) sameConfig(o Index) bool {
	return sameKey(ix.Key, o.Key) && ix.Unique == o.Unique && ix.Expire == o.Expire &&
		((ix.Partial == nil) == (o.Partial == nil)) && (ix.Partial == nil || sameDoc(ix.Partial, o.Partial))
}

// CreateIndex creates an index (identical re-creation is a no-op; conflicts fail).
func (m *DB) CreateIndex(db, coll string, ix Index) (string, error) {
	if ix.Name == "" {
		ix.Name = DefaultIndexName(ix.Key)
	}
	if len(ix.Key) == 0 {
		return "", other("empty key")
	}
	if ix.Expire >= 0 && len(ix.Key) != 1 {
		return "", other("TTL index on a compound key")
	}
	existing := m.C(db, coll, false)
	if existing != nil {
		for _, o := range existing.Indexes {
			if o.Name == ix.Name {
				if o.sameConfig(ix) {
					return ix.Name, nil
				}
				return "", other("index name exists with another definition")
			}
			if sameKey(o.Key, ix.Key) {
				return "", other("an index with this key exists under another name")
			}
		}
	}
	c := m.C(db, coll, true)
	c.Indexes = append(c.Indexes, ix)
	if v := c.uniqueViolation(); v != "" {
		c.Indexes = c.Indexes[:len(c.Indexes)-1]
		if existing == nil {
			delete(m.Colls, db+"."+coll)
		}
		return "", &ErrDup{v}
	}
	return ix.Name, nil
}

// DropIndex drops an index by name ("*" = all but _id_).
func (m *DB) DropIndex(db, coll, name string) error {
	c := m.C(db, coll, false)
	if c == nil {
		return other("missing namespace")
	}
	if name == "*" {
		c.Indexes = c.Indexes[:1]
		return nil
	}
	if name == "_id_" {
		return other("cannot drop _id index")
	}
	for i, ix := range c.Indexes {
		if ix.Name == name {
			c.Indexes = append(c.Indexes[:i:i], c.Indexes[i+1:]...)
			return nil
		}
	}
	return other("missing index")
}

// Drop drops a collection (coll == "" drops the database).
func (m *DB) Drop(db, coll string) {
	for k := range m.Colls {
		if k == db+"."+coll || (coll == "" && strings.HasPrefix(k, db+".")) {
			delete(m.Colls, k)
		}
	}
}

// ---------------------------------------------------------------- projection

// Project applies a projection per DESIGN §8.4 (paths through embedded documents only; arrays
// addressed by $slice / $elemMatch on the field that is the array).
func Project(doc bson.D, proj bson.D) (bson.D, error) {
	type entry struct {
		path string
		mode string // "inc" | "exc" | "slice" | "elem"
		arg  interface{}
	}
	var es []entry
	inc, exc := 0, 0
	idMode := ""
	for _, p := range proj {
		if strings.HasPrefix(p.Key, "_id.") {
			// how a path below _id combines with the implicit inclusion of _id is not fixed by the statement
			return nil, outside("projection path below _id")
		}
		switch v := p.Value.(type) {
		case bson.D:
			if len(v) != 1 {
				return nil, other("projection operator document")
			}
			switch v[0].Key {
			case "$slice":
				// the argument is validated whatever the document holds
				if _, ok := wholeNumber(v[0].Value); !ok {
					pair, ok := v[0].Value.(bson.A)
					if !ok || len(pair) != 2 {
						return nil, other("$slice argument")
					}
					_, ok1 := wholeNumber(pair[0])
					l, ok2 := wholeNumber(pair[1])
					if !ok1 || !ok2 || l < 0 {
						return nil, other("$slice [skip, limit]")
					}
					if l == 0 {
						return nil, outside("$slice with limit 0")
					}
				}
				es = append(es, entry{p.Key, "slice", v[0].Value})
			case "$elemMatch":
				q, ok := v[0].Value.(bson.D)
				if !ok {
					return nil, other("$elemMatch")
				}
				if len(q) == 0 {
					return nil, outside("$elemMatch without conditions")
				}
				es = append(es, entry{p.Key, "elem", q})
				inc++
			default:
				return nil, other("unknown projection operator")
			}
		default:
			t, err := truthyFlag(p.Value)
			if err != nil {
				return nil, err
			}
			mode := "exc"
			if t {
				mode = "inc"
			}
			if p.Key == "_id" {
				idMode = mode
				continue
			}
			if t {
				inc++
			} else {
				exc++
			}
			es = append(es, entry{p.Key, mode, nil})
		}
	}
	if inc > 0 && exc > 0 {
		return nil, other("mixing inclusion and exclusion")
	}
	inclusion := inc > 0 || (inc == 0 && exc == 0 && idMode == "inc")
	if inc == 0 && idMode == "inc" && len(proj) > 1 {
		// {_id:1} next to exclusions or array operators only: MongoDB and lungo disagree on whether this is an
		// inclusion projection; the reference does not decide it
		return nil, outside("_id inclusion next to exclusions or array operators only")
	}
	var out bson.D
	if inclusion {
		// _id first unless excluded, then included paths in document order
		var build func(src bson.D, prefix string) bson.D
		build = func(src bson.D, prefix string) bson.D {
			res := bson.D{}
			for _, e := range src {
				full := prefix + e.Key
				if prefix == "" && e.Key == "_id" {
					if idMode != "exc" {
						res = append(res, bson.E{Key: e.Key, Value: Copy(e.Value)})
					}
					continue
				}
				whole, deeper := false, false
				for _, en := range es {
					if en.mode == "exc" {
						continue
					}
					if en.path == full && (en.mode == "inc" || en.mode == "elem" || en.mode == "slice") {
						if en.mode != "slice" || sliceIncludes(es, full) {
							whole = true
						}
					} else if strings.HasPrefix(en.path, full+".") && en.mode != "exc" {
						deeper = true
					}
				}
				switch {
				case whole:
					res = append(res, bson.E{Key: e.Key, Value: Copy(e.Value)})
				case deeper:
					if sub, ok := e.Value.(bson.D); ok {
						res = append(res, bson.E{Key: e.Key, Value: build(sub, full+".")})
					}
				}
			}
			return res
		}
		out = build(doc, "")
	} else {
		var strip func(src bson.D, prefix string) bson.D
		strip = func(src bson.D, prefix string) bson.D {
			res := bson.D{}
			for _, e := range src {
				full := prefix + e.Key
				if prefix == "" && e.Key == "_id" {
					if idMode != "exc" {
						res = append(res, bson.E{Key: e.Key, Value: Copy(e.Value)})
					}
					continue
				}
				drop, deeper := false, false
				for _, en := range es {
					if en.mode != "exc" {
						continue
					}
					if en.path == full {
						drop = true
					} else if strings.HasPrefix(en.path, full+".") {
						deeper = true
					}
				}
				switch {
				case drop:
				case deeper:
					if sub, ok := e.Value.(bson.D); ok {
						res = append(res, bson.E{Key: e.Key, Value: strip(sub, full+".")})
					} else {
						res = append(res, bson.E{Key: e.Key, Value: Copy(e.Value)})
					}
				default:
					res = append(res, bson.E{Key: e.Key, Value: Copy(e.Value)})
				}
			}
			return res
		}
		out = strip(doc, "")
	}
	// array operators
	for _, en := range es {
		switch en.mode {
		case "slice":
			v := GetPath(out, en.path)
			arr, ok := v.(bson.A)
			if !ok {
				continue
			}
			win, err := sliceWindow(arr, en.arg)
			if err != nil {
				return nil, err
			}
			var o interface{} = out
			o, _ = setSegs(o, strings.Split(en.path, "."), win)
			out = o.(bson.D)
		case "elem":
			v := GetPath(out, en.path)
			arr, ok := v.(bson.A)
			if !ok {
				var o interface{} = out
				if !IsMissing(v) {
					o, _ = unsetSegs(o, strings.Split(en.path, "."))
					out = o.(bson.D)
				}
				continue
			}
			var hit interface{} = Missing
			for _, el := range arr {
				ok, err := elemMatches(el, en.arg.(bson.D))
				if err != nil {
					return nil, err
				}
				if ok {
					hit = el
					break
				}
			}
			var o interface{} = out
			if IsMissing(hit) {
				o, _ = unsetSegs(o, strings.Split(en.path, "."))
			} else {
				o, _ = setSegs(o, strings.Split(en.path, "."), bson.A{hit})
			}
			out = o.(bson.D)
		}
	}
	if out == nil {
		out = bson.D{}
	}
	return out, nil
}

// sliceIncludes: a $slice entry in an inclusion projection includes its field (it behaves as an inclusion of that field only
// when other inclusions exist, otherwise the whole document is returned); the reference keeps it simple: included.
func sliceIncludes(_ interface{}, _ string) bool { return true }

func truthyFlag(v interface{}) (bool, error) {
	switch x := v.(type) {
	case bool:
		return x, nil
	case int32:
		if x == 0 || x == 1 {
			return x == 1, nil
		}
	case int64:
		if x == 0 || x == 1 {
			return x == 1, nil
		}
	case float64:
		if x == 0 || x == 1 {
			return x == 1, nil
		}
	}
	return false, other("invalid projection flag")
}

func sliceWindow(arr bson.A, arg interface{}) (bson.A, error) {
	n := len(arr)
	clampCopy := func(lo, hi int) bson.A {
		if lo < 0 {
			lo = 0
		}
		if hi > n {
			hi = n
		}
		if lo >= hi {
			return bson.A{}
		}
		return append(bson.A{}, arr[lo:hi]...)
	}
	if k, ok := wholeNumber(arg); ok {
		if k >= 0 {
			return clampCopy(0, int(k)), nil
		}
		return clampCopy(n+int(k), n), nil
	}
	pair, ok := arg.(bson.A)
	if !ok || len(pair) != 2 {
		return nil, other("$slice argument")
	}
	s, ok1 := wholeNumber(pair[0])
	l, ok2 := wholeNumber(pair[1])
	if !ok1 || !ok2 || l <= 0 {
		return nil, other("$slice [skip, limit]")
	}
	start := int(s)
	if s < 0 {
		start = n + int(s)
		if start < 0 {
			start = 0
		}
	}
	return clampCopy(start, start+int(l)), nil
}
