package refmodel

import (
	"go.mongodb.org/mongo-driver/bson"
)

// IndexKeys returns the key tuples a document contributes to an index with the
// given key specification: per column the value at the path (missing as
// null), an array contributing each element (an empty array itself), compound
// keys the Cartesian product.
func IndexKeys(doc bson.D, key bson.D) [][]interface{} {
	tuples := [][]interface{}{{}}
	for _, col := range key {
		cands, _ := Lookup(doc, col.Key)
		var vals []interface{}
		for _, c := range cands {
			if a, ok := c.(bson.A); ok {
				if len(a) == 0 {
					vals = append(vals, a)
				} else {
					vals = append(vals, a...)
				}
			} else {
				vals = append(vals, c)
			}
		}
		if len(vals) == 0 {
			vals = []interface{}{nil}
		}
		var next [][]interface{}
		for _, t := range tuples {
			for _, v := range vals {
				nt := append(append([]interface{}{}, t...), v)
				next = append(next, nt)
			}
		}
		tuples = next
	}
	return tuples
}

// TupleEqual compares two key tuples with BSON equality.
func TupleEqual(a, b []interface{}) bool {
	if len(a) != len(b) {
		return false
	}
	for i := range a {
		if Cmp(a[i], b[i]) != 0 {
			return false
		}
	}
	return true
}

// TupleCmp orders two tuples under a key specification (direction per column).
func TupleCmp(a, b []interface{}, key bson.D) int {
	for i := range a {
		c := Cmp(a[i], b[i])
		if c != 0 {
			if n, ok := wholeNumber(key[i].Value); ok && n < 0 {
				return -c
			}
			return c
		}
	}
	return 0
}

// SharesKey reports whether two documents have a key tuple in common.
func SharesKey(d1, d2 bson.D, key bson.D) bool {
	for _, a := range IndexKeys(d1, key) {
		for _, b := range IndexKeys(d2, key) {
			if TupleEqual(a, b) {
				return true
			}
		}
	}
	return false
}
