package refmodel

import (
	"fmt"
	"math"
	"strconv"
	"strings"

	"go.mongodb.org/mongo-driver/bson"
	"go.mongodb.org/mongo-driver/bson/bsontype"
	"go.mongodb.org/mongo-driver/bson/primitive"
)

// ErrOutside is returned when an input lies outside the domain on which the
// reference semantics are defined (DESIGN §8); callers then fall back to
// reference-free oracles.
type ErrOutside struct{ Why string }

func (e *ErrOutside) Error() string { return "outside reference domain: " + e.Why }

func outside(f string, a ...interface{}) error { return &ErrOutside{fmt.Sprintf(f, a...)} }

// IsOutside reports whether err marks an out-of-domain input.
func IsOutside(err error) bool { _, ok := err.(*ErrOutside); return ok }

// ErrReject is returned when the reference semantics reject the input as invalid.
type ErrReject struct{ Why string }

func (e *ErrReject) Error() string { return "rejected: " + e.Why }

func reject(f string, a ...interface{}) error { return &ErrReject{fmt.Sprintf(f, a...)} }

// IsReject reports whether err is a reference rejection.
func IsReject(err error) bool { _, ok := err.(*ErrReject); return ok }

func isIndex(s string) (int, bool) {
	if s == "" || s[0] < '0' || s[0] > '9' {
		return 0, false
	}
	i, err := strconv.Atoi(s)
	return i, err == nil
}

// Lookup returns the candidate values a dotted path denotes in v, and whether
// the path fanned out (a segment was applied to an array without selecting an
// existing element by index).
func Lookup(v interface{}, path string) (cands []interface{}, fanned bool) {
	return lookup(v, strings.Split(path, "."))
}

func lookup(v interface{}, segs []string) ([]interface{}, bool) {
	if len(segs) == 0 {
		return []interface{}{v}, false
	}
	switch x := v.(type) {
	case bson.D:
		for _, e := range x {
			if e.Key == segs[0] {
				return lookup(e.Value, segs[1:])
			}
		}
		return nil, false
	case bson.A:
		if i, ok := isIndex(segs[0]); ok && i < len(x) {
			return lookup(x[i], segs[1:])
		}
		var out []interface{}
		for _, el := range x {
			if d, ok := el.(bson.D); ok {
				c, _ := lookup(d, segs)
				out = append(out, c...)
			}
		}
		return out, true
	}
	return nil, false
}

// hasNestedArray reports whether an array directly contains an array anywhere in v.
func hasNestedArray(v interface{}) bool {
	switch x := v.(type) {
	case bson.D:
		for _, e := range x {
			if hasNestedArray(e.Value) {
				return true
			}
		}
	case bson.A:
		for _, el := range x {
			if _, ok := el.(bson.A); ok {
				return true
			}
			if hasNestedArray(el) {
				return true
			}
		}
	}
	return false
}

func hasNumericKey(v interface{}) bool {
	switch x := v.(type) {
	case bson.D:
		for _, e := range x {
			if _, ok := isIndex(e.Key); ok {
				return true
			}
			if hasNumericKey(e.Value) {
				return true
			}
		}
	case bson.A:
		for _, el := range x {
			if hasNumericKey(el) {
				return true
			}
		}
	}
	return false
}

func isScalar(v interface{}) bool {
	switch v.(type) {
	case bson.D, bson.A:
		return false
	}
	return true
}

func isNull(v interface{}) bool { return ClassOf(v) == CNull }

// Match evaluates a filter on a document per DESIGN §8.1. It returns an
// *ErrOutside error when the (document, filter) pair is outside the core domain.
func Match(doc bson.D, filter bson.D) (bool, error) {
	return matchQuery(doc, filter)
}

// pathDomain is the gate of the core domain for one queried path: what a path denotes depends only on the value
// below its first segment, so nested arrays and numeric field names elsewhere in the document do not matter.
func pathDomain(root interface{}, path string) error {
	sub := root
	if d, ok := root.(bson.D); ok {
		sub = getSegs(d, []string{strings.SplitN(path, ".", 2)[0]})
	}
	if hasNestedArray(sub) {
		return outside("nested array below the queried field")
	}
	// numeric field names matter only where a numeric segment of this path could be an index and a name at once
	if pathAmbiguous(root, strings.Split(path, ".")) {
		return outside("numeric segment that is both an index in range and a field name of an element")
	}
	return nil
}

// pathAmbiguous follows segs like lookup does and reports whether a numeric segment meets an array in which it is an
// index in range while an embedded document of that array has a field of the same name (MongoDB then looks at both).
func pathAmbiguous(v interface{}, segs []string) bool {
	if len(segs) == 0 {
		return false
	}
	switch x := v.(type) {
	case bson.D:
		for _, e := range x {
			if e.Key == segs[0] {
				return pathAmbiguous(e.Value, segs[1:])
			}
		}
	case bson.A:
		if i, ok := isIndex(segs[0]); ok && i < len(x) {
			for _, el := range x {
				if d, ok := el.(bson.D); ok {
					for _, e := range d {
						if e.Key == segs[0] {
							return true
						}
					}
				}
			}
			return pathAmbiguous(x[i], segs[1:])
		}
		for _, el := range x {
			if d, ok := el.(bson.D); ok && pathAmbiguous(d, segs) {
				return true
			}
		}
	}
	return false
}

func matchQuery(doc bson.D, q bson.D) (bool, error) {
	for _, e := range q {
		ok, err := matchTop(doc, e)
		if err != nil {
			return false, err
		}
		if !ok {
			return false, nil
		}
	}
	return true, nil
}

func matchTop(doc bson.D, e bson.E) (bool, error) {
	switch e.Key {
	case "$and", "$or", "$nor":
		arr, ok := e.Value.(bson.A)
		if !ok || len(arr) == 0 {
			return false, reject("%s needs a non-empty array", e.Key)
		}
		// evaluate every branch (no short circuit) so that domain errors are symmetric
		all, any := true, false
		for _, it := range arr {
			sub, ok := it.(bson.D)
			if !ok {
				return false, reject("%s needs documents", e.Key)
			}
			r, err := matchQuery(doc, sub)
			if err != nil {
				return false, err
			}
			all = all && r
			any = any || r
		}
		switch e.Key {
		case "$and":
			return all, nil
		case "$or":
			return any, nil
		}
		return !any, nil
	case "$jsonSchema":
		return false, outside("$jsonSchema")
	}
	if strings.HasPrefix(e.Key, "$") {
		return false, outside("top level operator %s", e.Key)
	}
	return matchField(doc, e.Key, e.Value)
}

func isOperatorDoc(v interface{}) (bson.D, bool) {
	d, ok := v.(bson.D)
	if !ok || len(d) == 0 {
		return nil, false
	}
	if !strings.HasPrefix(d[0].Key, "$") {
		return nil, false
	}
	return d, true
}

func matchField(root interface{}, path string, cond interface{}) (bool, error) {
	if err := pathDomain(root, path); err != nil {
		return false, err
	}
	if ops, ok := isOperatorDoc(cond); ok {
		for _, op := range ops {
			if !strings.HasPrefix(op.Key, "$") {
				return false, reject("mixed operator document")
			}
			r, err := matchOp(root, path, op.Key, op.Value)
			if err != nil {
				return false, err
			}
			if !r {
				// keep evaluating for domain symmetry
				for _, op2 := range ops {
					if _, err := matchOp(root, path, op2.Key, op2.Value); err != nil {
						return false, err
					}
				}
				return false, nil
			}
		}
		return true, nil
	}
	return matchOp(root, path, "$eq", cond)
}

// exists-style quantification over candidates; arrays are tested whole and per element.
func anyCand(cands []interface{}, pred func(v interface{}) bool) bool {
	if len(cands) == 0 {
		return pred(Missing)
	}
	for _, c := range cands {
		if pred(c) {
			return true
		}
		if a, ok := c.(bson.A); ok {
			for _, el := range a {
				if pred(el) {
					return true
				}
			}
		}
	}
	return false
}

func scalarOperand(v interface{}) bool { return isScalar(v) && !isNull(v) }

func matchOp(root interface{}, path, op string, operand interface{}) (bool, error) {
	cands, fanned := Lookup(root, path)
	needScalar := func(vals ...interface{}) error {
		if !fanned {
			return nil
		}
		for _, v := range vals {
			if !scalarOperand(v) {
				return outside("fan-out path %q with null/array/document operand", path)
			}
		}
		return nil
	}
	switch op {
	case "$eq", "$ne":
		if err := needScalar(operand); err != nil {
			return false, err
		}
		r := anyCand(cands, func(v interface{}) bool { return eqMatch(v, operand) })
		return r == (op == "$eq"), nil
	case "$gt", "$gte", "$lt", "$lte":
		if !isScalar(operand) {
			return false, outside("ordering operator with array/document operand")
		}
		if err := needScalar(operand); err != nil {
			return false, err
		}
		return anyCand(cands, func(v interface{}) bool { return ordMatch(v, op, operand) }), nil
	case "$in", "$nin":
		arr, ok := operand.(bson.A)
		if !ok {
			return false, reject("%s needs an array", op)
		}
		if err := needScalar(arr...); err != nil {
			return false, err
		}
		r := anyCand(cands, func(v interface{}) bool {
			for _, x := range arr {
				if eqMatch(v, x) {
					return true
				}
			}
			return false
		})
		return r == (op == "$in"), nil
	case "$exists":
		want, err := truthy(operand)
		if err != nil {
			return false, err
		}
		return (len(cands) > 0) == want, nil
	case "$type":
		pred, err := typePred(operand)
		if err != nil {
			return false, err
		}
		if len(cands) == 0 {
			return false, nil
		}
		return anyCand(cands, pred), nil
	case "$size":
		n, ok := wholeNumber(operand)
		if !ok || n < 0 {
			return false, reject("$size needs a non-negative integer")
		}
		for _, c := range cands {
			if a, ok := c.(bson.A); ok && int64(len(a)) == n {
				return true, nil
			}
		}
		return false, nil
	case "$all":
		arr, ok := operand.(bson.A)
		if !ok {
			return false, reject("$all needs an array")
		}
		if err := needScalar(arr...); err != nil {
			return false, err
		}
		if len(arr) == 0 {
			return false, nil
		}
		for _, x := range arr {
			if d, ok := isOperatorDoc(x); ok {
				_ = d
				return false, outside("$all with operator documents")
			}
			if !anyCand(cands, func(v interface{}) bool { return eqMatch(v, x) }) {
				return false, nil
			}
		}
		return true, nil
	case "$elemMatch":
		q, ok := operand.(bson.D)
		if !ok {
			return false, reject("$elemMatch needs a document")
		}
		if fanned {
			// a path that fans out over sub-documents: each array found at the leaf is tested on its own (some element of
			// one of them must satisfy all conditions). Decided only when every value at the leaf is an array of
			// scalars or documents; scalar leaves under a fan-out are left to the laws.
			for _, c := range cands {
				a, ok := c.(bson.A)
				if !ok || hasNestedArray(a) {
					return false, outside("$elemMatch on a fan-out path with non-array leaves")
				}
			}
		}
		if len(q) == 0 {
			return false, outside("$elemMatch with empty query")
		}
		for _, c := range cands {
			a, ok := c.(bson.A)
			if !ok {
				continue
			}
			for _, el := range a {
				r, err := elemMatches(el, q)
				if err != nil {
					return false, err
				}
				if r {
					// keep scanning for domain errors only
					continue
				}
			}
			for _, el := range a {
				r, _ := elemMatches(el, q)
				if r {
					return true, nil
				}
			}
		}
		return false, nil
	case "$mod":
		arr, ok := operand.(bson.A)
		if !ok || len(arr) != 2 {
			return false, reject("$mod needs [divisor, remainder]")
		}
		d, ok1 := truncInt(arr[0])
		rm, ok2 := truncInt(arr[1])
		if !ok1 || !ok2 || d == 0 {
			return false, reject("$mod operands")
		}
		if len(cands) == 0 {
			return false, nil
		}
		return anyCand(cands, func(v interface{}) bool {
			n, ok := truncInt(v)
			if !ok {
				return false
			}
			if _, isDec := v.(primitive.Decimal128); isDec {
				return false // decimal fields: outside, treated by caller pools (none present)
			}
			return n%d == rm
		}), nil
	case "$bitsAllSet", "$bitsAnySet", "$bitsAllClear", "$bitsAnyClear":
		pos, err := bitPositions(operand)
		if err != nil {
			return false, err
		}
		if len(cands) == 0 {
			return false, nil
		}
		return anyCand(cands, func(v interface{}) bool {
			get, ok := bitsOf(v)
			if !ok {
				return false
			}
			set := 0
			for _, p := range pos {
				if get(p) {
					set++
				}
			}
			switch op {
			case "$bitsAllSet":
				return set == len(pos)
			case "$bitsAnySet":
				return set > 0
			case "$bitsAllClear":
				return set == 0
			}
			return set < len(pos)
		}), nil
	case "$not":
		q, ok := operand.(bson.D)
		if !ok || len(q) == 0 {
			if _, isRe := operand.(primitive.Regex); isRe {
				return false, outside("$not with regex")
			}
			return false, reject("$not needs a non-empty operator document")
		}
		all := true
		for _, e := range q {
			if !strings.HasPrefix(e.Key, "$") {
				return false, reject("$not needs operators")
			}
			r, err := matchOp(root, path, e.Key, e.Value)
			if err != nil {
				return false, err
			}
			all = all && r
		}
		return !all, nil
	}
	return false, outside("operator %s", op)
}

// elemMatches applies an $elemMatch query to one array element: operator form
// on the element itself, query form on an element document.
func elemMatches(el interface{}, q bson.D) (bool, error) {
	if ops, ok := isOperatorDoc(q); ok {
		// operator form: treat the element as the value at a virtual path
		wrapper := bson.D{{Key: "item", Value: el}}
		if _, isArr := el.(bson.A); isArr {
			return false, outside("nested array element")
		}
		for _, op := range ops {
			r, err := matchOp(wrapper, "item", op.Key, op.Value)
			if err != nil {
				return false, err
			}
			if !r {
				return false, nil
			}
		}
		return true, nil
	}
	d, ok := el.(bson.D)
	if !ok {
		return false, nil
	}
	for _, e := range q {
		if strings.HasPrefix(e.Key, "$") {
			r, err := matchTop(d, e)
			if err != nil {
				return false, err
			}
			if !r {
				return false, nil
			}
			continue
		}
		r, err := matchField(d, e.Key, e.Value)
		if err != nil {
			return false, err
		}
		if !r {
			return false, nil
		}
	}
	return true, nil
}

func isNaN(v interface{}) bool {
	if ClassOf(v) != CNumber {
		return false
	}
	return NumKind(v) == "nan"
}

// eqMatch is leaf equality: same comparison class (null equals missing) and equal value.
func eqMatch(v, operand interface{}) bool {
	return ClassOf(v) == ClassOf(operand) && Cmp(v, operand) == 0
}

// ordMatch is a type-bracketed ordering predicate; NaN only satisfies $gte/$lte against NaN.
func ordMatch(v interface{}, op string, operand interface{}) bool {
	if ClassOf(v) != ClassOf(operand) {
		return false
	}
	if isNaN(v) || isNaN(operand) {
		both := isNaN(v) && isNaN(operand)
		return both && (op == "$gte" || op == "$lte")
	}
	c := Cmp(v, operand)
	switch op {
	case "$gt":
		return c > 0
	case "$gte":
		return c >= 0
	case "$lt":
		return c < 0
	}
	return c <= 0
}

func truthy(v interface{}) (bool, error) {
	switch x := v.(type) {
	case bool:
		return x, nil
	case nil, primitive.Null:
		return false, nil
	case int32:
		return x != 0, nil
	case int64:
		return x != 0, nil
	case float64:
		return x != 0, nil
	}
	return true, nil
}

func wholeNumber(v interface{}) (int64, bool) {
	switch x := v.(type) {
	case int32:
		return int64(x), true
	case int64:
		return x, true
	case float64:
		if x != math.Trunc(x) || math.IsInf(x, 0) || math.IsNaN(x) {
			return 0, false
		}
		return int64(x), true
	}
	return 0, false
}

func truncInt(v interface{}) (int64, bool) {
	switch x := v.(type) {
	case int32:
		return int64(x), true
	case int64:
		return x, true
	case float64:
		if math.IsInf(x, 0) || math.IsNaN(x) || x >= 9.223372036854775807e18 || x < -9.223372036854775808e18 {
			return 0, false
		}
		return int64(math.Trunc(x)), true
	}
	return 0, false
}

var typeAliases = map[string]bsontype.Type{
	"double": bsontype.Double, "string": bsontype.String, "object": bsontype.EmbeddedDocument, "array": bsontype.Array,
	"binData": bsontype.Binary, "objectId": bsontype.ObjectID, "bool": bsontype.Boolean, "date": bsontype.DateTime,
	"null": bsontype.Null, "regex": bsontype.Regex, "int": bsontype.Int32, "timestamp": bsontype.Timestamp,
	"long": bsontype.Int64, "decimal": bsontype.Decimal128,
}

// TypeOf returns the BSON type of a value.
func TypeOf(v interface{}) bsontype.Type {
	switch v.(type) {
	case nil, primitive.Null:
		return bsontype.Null
	case int32:
		return bsontype.Int32
	case int64:
		return bsontype.Int64
	case float64:
		return bsontype.Double
	case primitive.Decimal128:
		return bsontype.Decimal128
	case string:
		return bsontype.String
	case bson.D:
		return bsontype.EmbeddedDocument
	case bson.A:
		return bsontype.Array
	case primitive.Binary:
		return bsontype.Binary
	case primitive.ObjectID:
		return bsontype.ObjectID
	case bool:
		return bsontype.Boolean
	case primitive.DateTime:
		return bsontype.DateTime
	case primitive.Timestamp:
		return bsontype.Timestamp
	case primitive.Regex:
		return bsontype.Regex
	}
	return 0
}

func typePred(operand interface{}) (func(v interface{}) bool, error) {
	ops, ok := operand.(bson.A)
	if !ok {
		ops = bson.A{operand}
	}
	if len(ops) == 0 {
		return nil, reject("$type needs a type")
	}
	var types []bsontype.Type
	number := false
	for _, o := range ops {
		switch x := o.(type) {
		case string:
			if x == "number" {
				number = true
				continue
			}
			t, ok := typeAliases[x]
			if !ok {
				return nil, outside("$type alias %q", x)
			}
			types = append(types, t)
		default:
			n, ok := wholeNumber(o)
			if !ok {
				return nil, reject("$type operand")
			}
			found := false
			for _, t := range typeAliases {
				if int64(t) == n {
					types = append(types, t)
					found = true
				}
			}
			if !found {
				return nil, outside("$type number %d", n)
			}
		}
	}
	return func(v interface{}) bool {
		if IsMissing(v) {
			return false
		}
		if number && ClassOf(v) == CNumber {
			return true
		}
		t := TypeOf(v)
		for _, w := range types {
			if w == t {
				return true
			}
		}
		return false
	}, nil
}

func bitPositions(operand interface{}) ([]uint, error) {
	switch m := operand.(type) {
	case int32, int64, float64:
		n, ok := wholeNumber(m)
		if !ok || n < 0 {
			return nil, reject("bitmask")
		}
		var out []uint
		for i := uint(0); i < 63; i++ {
			if n&(1<<i) != 0 {
				out = append(out, i)
			}
		}
		return out, nil
	case bson.A:
		var out []uint
		for _, it := range m {
			n, ok := wholeNumber(it)
			if !ok || n < 0 {
				return nil, reject("bit position")
			}
			// (positions beyond the width of a number are legal: numbers are sign-extended)
			out = append(out, uint(n))
		}
		return out, nil
	case primitive.Binary:
		var out []uint
		for bi, b := range m.Data {
			for k := uint(0); k < 8; k++ {
				if b&(1<<k) != 0 {
					out = append(out, uint(bi)*8+k)
				}
			}
		}
		return out, nil
	}
	return nil, reject("bitmask type")
}

func bitsOf(v interface{}) (func(uint) bool, bool) {
	switch x := v.(type) {
	case int32, int64:
		n, _ := wholeNumber(x)
		u := uint64(n)
		// numbers are sign-extended: every position beyond the 64th is set for a negative and clear for a positive one
		return func(p uint) bool { return (p >= 64 && n < 0) || (p < 64 && u&(1<<p) != 0) }, true
	case float64:
		n, ok := wholeNumber(x)
		if !ok || x >= 9.223372036854775807e18 || x < -9.223372036854775808e18 {
			return nil, false
		}
		u := uint64(n)
		return func(p uint) bool { return (p >= 64 && n < 0) || (p < 64 && u&(1<<p) != 0) }, true
	case primitive.Binary:
		return func(p uint) bool {
			i := p / 8
			return int(i) < len(x.Data) && x.Data[i]&(1<<(p%8)) != 0
		}, true
	}
	return nil, false
}
