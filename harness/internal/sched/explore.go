package sched

// Explorer enumerates schedules depth-first with a preemption bound.
type Explorer struct {
	Bound   int // maximum number of preemptions (-1: unbounded)
	MaxExec int // cap on executions (0: none)
	// Only, if non-nil, makes Explore run exactly this schedule (a recorded choice list) and nothing else.
	Only []int
	// Exec runs one execution from a choice prefix (expectN = number of enabled threads at each prefix point).
	Exec func(prefix, expectN []int) *Result
	// Visit is called with every completed execution; returning false stops the search.
	Visit func(r *Result) bool
}

// Stats summarises an exploration.
type Stats struct {
	Executions   int64
	PerBound     map[int]int64 // executions by number of preemptions
	Transitions  int64         // scheduling points executed
	MaxPoints    int
	Exhaustive   bool // the whole tree within the bound was enumerated
	Capped       bool
	RacySelects  int64 // executions that passed a select with more than one ready case
	Picks        int64 // selects with several ready cases resolved as explicit choice points
	Unowned      int64 // replays that diverged because of nondeterminism the scheduler does not own (explored as executions of their own)
	Retries      int64 // executions repeated because the runtime took another ready select case than scheduled
	Unreachable  int64 // schedules given up because the scheduled select case was never taken in 400 attempts
	RacyDiverged int64 // replays that took another branch at such a select (explored as executions of their own)
}

type frame struct {
	prefix  []int
	expectN []int
}

// Explore runs the search.
func (e *Explorer) Explore() *Stats {
	st := &Stats{PerBound: map[int]int64{}, Exhaustive: true}
	if e.Only != nil {
		st.Exhaustive = false
		r := e.Exec(e.Only, nil)
		for tries := 0; r.WrongBranch && tries < 400; tries++ {
			st.Retries++
			r = e.Exec(e.Only, nil)
		}
		st.Executions, st.Transitions, st.MaxPoints = 1, int64(len(r.Points)), len(r.Points)
		e.Visit(r)
		return st
	}
	stack := []frame{{}}
	for len(stack) > 0 {
		if e.MaxExec > 0 && st.Executions >= int64(e.MaxExec) {
			st.Exhaustive, st.Capped = false, true
			break
		}
		f := stack[len(stack)-1]
		stack = stack[:len(stack)-1]
		r := e.Exec(f.prefix, f.expectN)
		for tries := 0; r.WrongBranch && tries < 400; tries++ {
			st.Retries++
			r = e.Exec(f.prefix, f.expectN)
		}
		if r.WrongBranch {
			st.Unreachable++
			continue
		}
		st.Executions++
		st.Transitions += int64(len(r.Points))
		st.PerBound[r.Preemptions()]++
		if len(r.Points) > st.MaxPoints {
			st.MaxPoints = len(r.Points)
		}
		if !e.Visit(r) {
			st.Exhaustive = false
			break
		}
		if r.Diverged {
			continue
		}
		st.Picks += int64(r.Picks)
		if r.Racy > 0 {
			st.RacySelects++
		}
		honoured := len(f.prefix)
		if r.RacyAt >= 0 {
			st.RacyDiverged++
			honoured = r.RacyAt
			if r.Unowned > 0 {
				st.Unowned++
				st.Exhaustive = false // the subtree of the recorded prefix below the divergence was not revisited
			}
		}
		// children: alternatives at every point after the prefix
		cost := 0
		choices := make([]int, 0, len(r.Points))
		ns := make([]int, 0, len(r.Points))
		var kids []frame
		for i, p := range r.Points {
			if i >= honoured {
				for alt := 1; alt < len(p.Enabled); alt++ {
					c := cost
					if p.CurEnabled {
						c++
					}
					if e.Bound >= 0 && c > e.Bound {
						continue
					}
					np := append(append(make([]int, 0, i+1), choices...), alt)
					nn := append(append(make([]int, 0, i+1), ns...), len(p.Enabled))
					kids = append(kids, frame{np, nn})
				}
			}
			if p.CurEnabled && p.Choice != 0 {
				cost++
			}
			choices = append(choices, p.Choice)
			ns = append(ns, len(p.Enabled))
		}
		// push in reverse so that the earliest alternative is explored first
		for i := len(kids) - 1; i >= 0; i-- {
			stack = append(stack, kids[i])
		}
	}
	return st
}
