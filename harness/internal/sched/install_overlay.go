//go:build overlay

package sched

import (
	"github.com/256dpi/lungo"
	"github.com/256dpi/lungo/dbkit"
	"github.com/256dpi/lungo/verifshim"
)

// Available reports whether the binary was built with the sync shim overlay.
const Available = true

// streamOrder is the order in which the harness opened its change streams in the current execution;
// Engine.Close walks them in that order (it collects them from a map, whose iteration order is random).
var streamOrder = map[*lungo.Stream]int{}

// NoteStream records a stream the harness has just opened.
func NoteStream(s interface{}) {
	if st, ok := s.(*lungo.Stream); ok {
		streamOrder[st] = len(streamOrder) + 1
	}
}

func install(x *Exec) {
	current = x
	streamOrder = map[*lungo.Stream]int{}
	lungo.VerifStreamLess = func(a, b *lungo.Stream) bool { return streamOrder[a] < streamOrder[b] }
	verifshim.Yield = func(kind string, obj interface{}, ready func() bool) { hookAwait(kind, obj, ready) }
	dbkit.VerifAwait = hookAwait
	lungo.VerifAwait = hookAwait
	lungo.VerifYield = hookYield
	lungo.VerifThreadStart = hookThreadStart
	lungo.VerifThreadEnd = hookThreadEnd
	lungo.VerifRacy = hookRacy
	dbkit.VerifRacy = hookRacy
	lungo.VerifPick = hookPick
	dbkit.VerifPick = hookPick
	lungo.VerifWrongBranch = hookWrongBranch
	dbkit.VerifWrongBranch = hookWrongBranch
}

func uninstall() {
	current = nil
	lungo.VerifStreamLess = nil
	verifshim.Yield = nil
	dbkit.VerifAwait = nil
	lungo.VerifAwait = nil
	lungo.VerifYield = nil
	lungo.VerifThreadStart = nil
	lungo.VerifThreadEnd = nil
	lungo.VerifRacy = nil
	dbkit.VerifRacy = nil
	lungo.VerifPick = nil
	dbkit.VerifPick = nil
	lungo.VerifWrongBranch = nil
	dbkit.VerifWrongBranch = nil
}
