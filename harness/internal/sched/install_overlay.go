//go:build overlay

package sched

import (
	"github.com/256dpi/lungo"
	"github.com/256dpi/lungo/dbkit"
	"github.com/256dpi/lungo/verifshim"
)

// Available reports whether the binary was built with the sync shim overlay.
const Available = true

func install(x *Exec) {
	current = x
	verifshim.Yield = func(kind string, obj interface{}, ready func() bool) { hookAwait(kind, obj, ready) }
	dbkit.VerifAwait = hookAwait
	lungo.VerifAwait = hookAwait
	lungo.VerifYield = hookYield
	lungo.VerifThreadStart = hookThreadStart
	lungo.VerifThreadEnd = hookThreadEnd
	lungo.VerifRacy = hookRacy
	dbkit.VerifRacy = hookRacy
	lungo.VerifPick = hookPick
	dbkit.VerifPick = hookPick
	lungo.VerifWrongBranch = hookWrongBranch
	dbkit.VerifWrongBranch = hookWrongBranch
}

func uninstall() {
	current = nil
	verifshim.Yield = nil
	dbkit.VerifAwait = nil
	lungo.VerifAwait = nil
	lungo.VerifYield = nil
	lungo.VerifThreadStart = nil
	lungo.VerifThreadEnd = nil
	lungo.VerifRacy = nil
	dbkit.VerifRacy = nil
	lungo.VerifPick = nil
	dbkit.VerifPick = nil
	lungo.VerifWrongBranch = nil
	dbkit.VerifWrongBranch = nil
}
