//go:build !overlay

package sched

// Available reports whether the binary was built with the sync shim overlay.
const Available = false

func install(x *Exec) { panic("sched: this binary was built without the scheduler overlay") }

func uninstall() {}

// NoteStream is a no-op without the overlay.
func NoteStream(interface{}) {}
