// Package sched is a CHESS-style controlled scheduler: the real lungo code runs
// with exactly one goroutine runnable at a time; at every scheduling point
// (mutex acquisition through the sync shim, the verif await/yield hooks, and
// harness-level points) the scheduler decides which thread continues. A
// schedule is the list of choices taken at the points; executions are replayed
// from a choice prefix and extended with the default choice (keep running the
// current thread if it is enabled, else the lowest enabled id).
package sched

import (
	"fmt"
	"runtime/debug"
	"strings"
	"sync"
	"time"
)

// Point is one scheduling decision.
type Point struct {
	Thread     int    // thread that reached the point (or finished)
	Kind       string // what it was about to do
	Enabled    []int  // enabled thread ids in canonical order
	Choice     int    // index into Enabled
	CurEnabled bool   // the running thread itself was enabled (so Choice != 0 is a preemption)
}

// Result is what one execution produced.
type Result struct {
	Points      []Point
	Deadlock    bool
	Blocked     []string // threads parked forever at the end: "name@kind"
	Stuck       bool     // a thread did not reach its next point within the watchdog (native block)
	Livelock    bool     // step horizon exceeded
	Diverged    bool     // replay met a different situation than recorded: nondeterminism not owned
	DivergeInfo string
	Picks       int  // selects with several ready cases resolved by the scheduler
	WrongBranch bool // the Go runtime took another ready case than asked for: the execution is to be discarded and repeated
	Racy        int  // evaluations of an awaited select with more than one ready case (Go picks at random)
	Unowned     int  // replays that met another situation than recorded (nondeterminism not owned by the scheduler)
	RacyAt      int  // number of prefix points honoured before a racy divergence (-1: none)
	Panics      []string
	Names       []string // thread names by id
}

// Preemptions counts the preemptive switches of the execution.
func (r *Result) Preemptions() int {
	n := 0
	for _, p := range r.Points {
		if p.CurEnabled && p.Choice != 0 {
			n++
		}
	}
	return n
}

// Schedule renders the sequence of running threads.
func (r *Result) Schedule() string {
	var sb strings.Builder
	last := -1
	for _, p := range r.Points {
		if len(p.Enabled) == 0 {
			continue
		}
		if p.Choice >= len(p.Enabled) {
			continue
		}
		t := p.Enabled[p.Choice]
		if t != last {
			fmt.Fprintf(&sb, "%d", t)
			last = t
		}
	}
	return sb.String()
}

// Choices extracts the choice list.
func (r *Result) Choices() []int {
	out := make([]int, len(r.Points))
	for i, p := range r.Points {
		out[i] = p.Choice
	}
	return out
}

type thread struct {
	id    int
	name  string
	wake  chan struct{}
	ready func() bool
	kind  string
	gated bool
	done  bool
}

// Exec is one controlled execution.
type Exec struct {
	mu          sync.Mutex // protects registration from adopted goroutines only
	threads     []*thread
	cur         *thread
	prefix      []int
	expectN     []int
	res         *Result
	steps       int
	horizon     int
	doneCh      chan struct{}
	finished    bool
	adopted     chan struct{}
	clock       int
	progress    chan struct{}
	expect      int
	adoptedObjs map[interface{}]bool
	// OnPoint, if set, is called at every point while no thread runs (invariant monitors).
	OnPoint func(x *Exec, kind string)
}

// Clock returns a counter that increases at every scheduling step (virtual time).
func (x *Exec) Clock() int { return x.clock }

// Config tunes Run.
type Config struct {
	Horizon  int           // max points per execution (default 20000)
	Watchdog time.Duration // max wall time between two points (default 120s)
}

// Run executes body as thread 0 under the scheduler, replaying prefix.
func Run(prefix, expectN []int, cfg Config, body func(x *Exec)) *Result {
	if cfg.Horizon == 0 {
		cfg.Horizon = 20000
	}
	if cfg.Watchdog == 0 {
		cfg.Watchdog = 120 * time.Second
	}
	x := &Exec{prefix: prefix, expectN: expectN, res: &Result{RacyAt: -1}, horizon: cfg.Horizon,
		doneCh: make(chan struct{}), adopted: make(chan struct{}, 16), progress: make(chan struct{}, 1), adoptedObjs: map[interface{}]bool{}}
	install(x)
	defer uninstall()
	t0 := &thread{id: 0, name: "main", wake: make(chan struct{}, 1)}
	x.threads = []*thread{t0}
	x.cur = t0
	go x.runThread(t0, func() { body(x) })
	t0.wake <- struct{}{}
	timer := time.NewTimer(cfg.Watchdog)
	defer timer.Stop()
	for {
		select {
		case <-x.doneCh:
			for _, t := range x.threads {
				x.res.Names = append(x.res.Names, t.name)
			}
			return x.res
		case <-x.progress:
			if !timer.Stop() {
				select {
				case <-timer.C:
				default:
				}
			}
			timer.Reset(cfg.Watchdog)
		case <-timer.C:
			x.res.Stuck = true
			for _, t := range x.threads {
				x.res.Names = append(x.res.Names, t.name)
			}
			return x.res
		}
	}
}

func (x *Exec) runThread(t *thread, fn func()) {
	<-t.wake
	defer func() {
		if p := recover(); p != nil {
			x.res.Panics = append(x.res.Panics, fmt.Sprintf("%s: %v\n%s", t.name, p, trimStack(debug.Stack())))
		}
		x.exit(t)
	}()
	fn()
}

func trimStack(b []byte) string {
	lines := strings.Split(string(b), "\n")
	var keep []string
	for _, l := range lines {
		if strings.Contains(l, "lungo") || strings.Contains(l, "verif/") {
			keep = append(keep, strings.TrimSpace(l))
		}
		if len(keep) > 12 {
			break
		}
	}
	return strings.Join(keep, " | ")
}

// Go starts a new scheduler thread; the creator yields.
func (x *Exec) Go(name string, fn func()) {
	t := &thread{id: len(x.threads), name: name, wake: make(chan struct{}, 1)}
	x.threads = append(x.threads, t)
	go x.runThread(t, fn)
}

// Yield is a plain scheduling point.
func (x *Exec) Yield(kind string) { x.point(kind, nil, false) }

// Await is a scheduling point after which the thread continues only when ready() holds.
func (x *Exec) Await(kind string, ready func() bool) { x.point(kind, ready, false) }

// Quiescent is a point that is enabled only when no other thread is enabled.
func (x *Exec) Quiescent(kind string) { x.point(kind, nil, true) }

// Adopt waits until n goroutines started by the code under test have registered
// themselves as scheduler threads (see AdoptStart).
func (x *Exec) Adopt(n int) {
	x.mu.Lock()
	x.expect += n
	x.mu.Unlock()
	for i := 0; i < n; i++ {
		select {
		case <-x.adopted:
		case <-time.After(120 * time.Second):
			panic("sched: adoption of an engine goroutine timed out")
		}
	}
}

// adoptStart is called on a goroutine created by the code under test: it
// becomes a scheduler thread and parks until scheduled.
func (x *Exec) adoptStart(name string, obj interface{}) bool {
	// wait until the harness asks for an adoption (the goroutine may start before Adopt is called)
	for i := 0; ; i++ {
		x.mu.Lock()
		if x.expect > 0 {
			x.expect--
			break
		}
		x.mu.Unlock()
		if x.finished || current != x || i > 20000 {
			return false // not a goroutine of this execution: let it run free
		}
		time.Sleep(50 * time.Microsecond)
	}
	x.adoptedObjs[obj] = true
	t := &thread{id: len(x.threads), name: name, wake: make(chan struct{}, 1)}
	x.threads = append(x.threads, t)
	x.mu.Unlock()
	x.adopted <- struct{}{}
	<-t.wake
	return true
}

// adoptEnd is called when the adopted goroutine that is currently running ends.
func (x *Exec) adoptEnd() { x.exit(x.cur) }

func (x *Exec) pick(self *thread) *thread {
	x.steps++
	x.clock++
	select {
	case x.progress <- struct{}{}:
	default:
	}
	if x.steps > x.horizon {
		x.res.Livelock = true
		return nil
	}
	var enabled []*thread
	var gated []*thread
	consider := func(t *thread) {
		if t.done {
			return
		}
		if t.ready != nil && !t.ready() {
			return
		}
		if t.gated {
			gated = append(gated, t)
		} else {
			enabled = append(enabled, t)
		}
	}
	curEnabled := false
	if self != nil && !self.done {
		consider(self)
		curEnabled = len(enabled) == 1
	}
	for _, t := range x.threads {
		if t != self {
			consider(t)
		}
	}
	if len(enabled) == 0 {
		enabled = gated
		curEnabled = len(enabled) > 0 && self != nil && enabled[0] == self
	}
	p := Point{Kind: "exit", CurEnabled: curEnabled}
	if self != nil {
		p.Thread = self.id
		if !self.done {
			p.Kind = self.kind
		}
	}
	for _, t := range enabled {
		p.Enabled = append(p.Enabled, t.id)
	}
	if len(enabled) == 0 {
		x.res.Points = append(x.res.Points, p)
		return nil
	}
	i := len(x.res.Points)
	if i < len(x.prefix) {
		p.Choice = x.prefix[i]
		if p.Choice >= len(enabled) || (i < len(x.expectN) && x.expectN[i] != len(enabled)) {
			// the replay met another situation than the recorded one: some nondeterminism of the code under test is
			// not owned by the scheduler (Go's random map iteration order when Engine.Close walks its streams, for
			// instance). The run is a legitimate execution of its own: it continues with default choices, is checked
			// like any other, and the search goes on from the honoured prefix; the scenario is reported as not
			// exhaustively explored.
			x.res.RacyAt = i
			x.res.Unowned++
			x.res.DivergeInfo = fmt.Sprintf("point %d: replay expects choice %d of %d, found %d enabled (%s)", i, p.Choice, exp(x.expectN, i), len(enabled), p.Kind)
			x.prefix = x.prefix[:i]
			p.Choice = 0
		}
	}
	x.res.Points = append(x.res.Points, p)
	return enabled[p.Choice]
}

func exp(a []int, i int) int {
	if i < len(a) {
		return a[i]
	}
	return -1
}

func (x *Exec) finish() {
	if !x.finished {
		x.finished = true
		close(x.doneCh)
	}
}

func (x *Exec) point(kind string, ready func() bool, gated bool) {
	t := x.cur
	t.ready, t.kind, t.gated = ready, kind, gated
	if x.OnPoint != nil {
		x.OnPoint(x, kind)
	}
	next := x.pick(t)
	if next == nil {
		x.stall()
		select {} // park this goroutine forever (the execution is over)
	}
	if next == t {
		t.ready, t.gated = nil, false
		return
	}
	x.cur = next
	next.wake <- struct{}{}
	<-t.wake
	t.ready, t.gated = nil, false
}

// stall ends the execution because nobody can run.
func (x *Exec) stall() {
	if !x.res.Livelock && !x.res.Diverged {
		x.res.Deadlock = true
	}
	for _, t := range x.threads {
		if !t.done {
			x.res.Blocked = append(x.res.Blocked, t.name+"@"+t.kind)
		}
	}
	x.finish()
}

func (x *Exec) exit(t *thread) {
	t.done = true
	all := true
	for _, o := range x.threads {
		if !o.done {
			all = false
		}
	}
	if all {
		x.finish()
		return
	}
	next := x.pick(t)
	if next == nil {
		x.stall()
		return
	}
	x.cur = next
	next.wake <- struct{}{}
}

// hook entry points (installed into the shim and the verif hooks by install()).

var current *Exec

func hookAwait(kind string, obj interface{}, ready func() bool) {
	if x := current; x != nil && !x.finished {
		if (kind == "expire.tick" || kind == "close.wait") && !x.adoptedObjs[obj] {
			return // an engine that does not belong to this execution
		}
		x.point(kind, ready, false)
	}
}

func hookYield(kind string, obj interface{}) {
	if x := current; x != nil && !x.finished {
		x.point(kind, nil, false)
	}
}

// choose is a decision point that is not a thread switch: the running thread asks the
// scheduler to resolve an awaited select with n ready cases (owned nondeterminism of Go's select).
func (x *Exec) choose(kind string, n int) int {
	x.steps++
	t := x.cur
	p := Point{Thread: t.id, Kind: "pick:" + kind}
	for i := 0; i < n; i++ {
		p.Enabled = append(p.Enabled, t.id)
	}
	i := len(x.res.Points)
	if i < len(x.prefix) {
		p.Choice = x.prefix[i]
		if p.Choice >= n || (i < len(x.expectN) && x.expectN[i] != n) {
			x.res.RacyAt = i
			x.res.Unowned++
			x.res.DivergeInfo = fmt.Sprintf("point %d: replay expects choice %d of %d, found a pick among %d (%s)", i, p.Choice, exp(x.expectN, i), n, kind)
			x.prefix = x.prefix[:i]
			p.Choice = 0
		}
	}
	x.res.Points = append(x.res.Points, p)
	x.res.Picks++
	return p.Choice
}

func hookPick(site string, n int) int {
	if x := current; x != nil && !x.finished {
		return x.choose(site, n)
	}
	return 0
}

// hookWrongBranch: the select took another ready case than the schedule asked for. The execution runs on
// (nothing is torn down half-way) but takes default choices from here and is discarded by the explorer.
func hookWrongBranch(site string) {
	if x := current; x != nil && !x.finished {
		x.res.WrongBranch = true
		if n := len(x.res.Points); n < len(x.prefix) {
			x.prefix = x.prefix[:n]
		}
	}
}

func hookRacy(site string) {
	if x := current; x != nil {
		x.res.Racy++
	}
}

func hookThreadStart(name string, obj interface{}) {
	if x := current; x != nil {
		x.adoptStart(name, obj)
	}
}

func hookThreadEnd(name string, obj interface{}) {
	if x := current; x != nil && !x.finished && x.adoptedObjs[obj] {
		x.adoptEnd()
	}
}
