package world

import (
	"fmt"
	"time"

	"go.mongodb.org/mongo-driver/bson"

	"github.com/256dpi/lungo"
)

// RoundTrip serialises a catalog exactly as FileStore.Store does (BuildFile +
// bson.Marshal) and loads it back as FileStore.Load does.
func RoundTrip(cat *lungo.Catalog) (*lungo.Catalog, error) {
	buf, err := bson.Marshal(lungo.BuildFile(cat))
	if err != nil {
		return nil, fmt.Errorf("marshal: %w", err)
	}
	var f lungo.File
	if err := bson.Unmarshal(buf, &f); err != nil {
		return nil, fmt.Errorf("unmarshal: %w", err)
	}
	return f.BuildCatalog()
}

// Reload replaces the engine by one opened on the persisted image of the
// current catalog. It returns the load error, if any (the world is unchanged then).
func (w *World) Reload() error {
	cat, err := RoundTrip(w.Engine.Catalog())
	if err != nil {
		return err
	}
	st := &FailStore{Catalog: cat}
	eng, err := lungo.CreateEngine(lungo.Options{Store: st, ExpireInterval: 1000 * time.Hour})
	if err != nil {
		return err
	}
	w.Engine.Close()
	w.Engine, w.Store, w.Client = eng, st, lungo.NewClient(eng)
	return nil
}
