// Package world wraps a real lungo engine + client for the explorers and
// provides canonical dumps of its complete state.
package world

import (
	"context"
	"encoding/hex"
	"errors"
	"fmt"
	"sort"
	"strings"
	"time"

	"go.mongodb.org/mongo-driver/bson"
	"go.mongodb.org/mongo-driver/bson/primitive"
	"go.mongodb.org/mongo-driver/mongo"

	"github.com/256dpi/lungo"
	"github.com/256dpi/lungo/bsonkit"
	"github.com/256dpi/lungo/mongokit"
)

// ErrInjected is returned by a FailStore when told to fail.
var ErrInjected = errors.New("injected store failure")

// FailStore is a memory store whose Store can be made to fail.
type FailStore struct {
	Catalog  *lungo.Catalog
	FailNext int // number of upcoming Store calls that fail
	Stores   int
	Hook     func() // called at the beginning of Store (scheduling point for E3)
	// KeepImage makes Store serialise the catalog exactly as FileStore does; Image is the file content of the last
	// successful Store (a byte image cannot be reached by later in-place writes to the catalog, a pointer can)
	KeepImage bool
	Image     []byte
}

// LoadImage decodes Image like FileStore.Load does.
func (s *FailStore) LoadImage() (*lungo.Catalog, error) {
	var f lungo.File
	if err := bson.Unmarshal(s.Image, &f); err != nil {
		return nil, err
	}
	return f.BuildCatalog()
}

// Load implements lungo.Store.
func (s *FailStore) Load() (*lungo.Catalog, error) { return s.Catalog, nil }

// Store implements lungo.Store.
func (s *FailStore) Store(c *lungo.Catalog) error {
	if s.Hook != nil {
		s.Hook()
	}
	s.Stores++
	if s.FailNext > 0 {
		s.FailNext--
		return ErrInjected
	}
	if s.KeepImage {
		buf, err := bson.Marshal(lungo.BuildFile(c))
		if err != nil {
			return err
		}
		s.Image = buf
	}
	s.Catalog = c
	return nil
}

// World is one engine under test.
type World struct {
	Engine *lungo.Engine
	Client lungo.IClient
	Store  *FailStore
	Ctx    context.Context
}

// Options tweak the engine.
type Options struct {
	MinOplogSize, MaxOplogSize int
	MinOplogAge, MaxOplogAge   time.Duration
	Catalog                    *lungo.Catalog
	RawStore                   lungo.Store
}

// New creates a fresh engine on an in-memory store; the expiry loop never ticks.
func New(o ...Options) *World {
	var opt Options
	if len(o) > 0 {
		opt = o[0]
	}
	st := &FailStore{Catalog: opt.Catalog}
	if st.Catalog == nil {
		st.Catalog = lungo.NewCatalog()
	}
	var store lungo.Store = st
	if opt.RawStore != nil {
		store = opt.RawStore
	}
	eng, err := lungo.CreateEngine(lungo.Options{Store: store, ExpireInterval: 1000 * time.Hour,
		MinOplogSize: opt.MinOplogSize, MaxOplogSize: opt.MaxOplogSize, MinOplogAge: opt.MinOplogAge, MaxOplogAge: opt.MaxOplogAge})
	if err != nil {
		panic(err)
	}
	return &World{Engine: eng, Client: lungo.NewClient(eng), Store: st, Ctx: context.Background()}
}

// Close shuts the engine down.
func (w *World) Close() { w.Engine.Close() }

// C returns a collection handle.
func (w *World) C(db, coll string) lungo.ICollection { return w.Client.Database(db).Collection(coll) }

// ErrClass classifies an error: "ok", "dup" (uniqueness) or "err".
func ErrClass(err error) string {
	if err == nil {
		return "ok"
	}
	if lungo.IsUniquenessError(err) {
		// the index named in the message depends on map iteration order when several
		// constraints are violated at once, so it is not part of the observation
		return "dup"
	}
	return "err"
}

// ---------------------------------------------------------------- dumps

// Normalizer renames generated ObjectIDs by first appearance and strips clock values.
type Normalizer struct {
	oids map[primitive.ObjectID]int
	On   bool
}

// NewNormalizer creates a normalizer.
func NewNormalizer() *Normalizer { return &Normalizer{oids: map[primitive.ObjectID]int{}, On: true} }

// Value normalizes one value.
func (n *Normalizer) Value(v interface{}) interface{} {
	if n == nil || !n.On {
		return v
	}
	switch x := v.(type) {
	case primitive.ObjectID:
		k, ok := n.oids[x]
		if !ok {
			k = len(n.oids) + 1
			n.oids[x] = k
		}
		return fmt.Sprintf("oid#%d", k)
	case bson.D:
		out := make(bson.D, len(x))
		for i, e := range x {
			out[i] = bson.E{Key: e.Key, Value: n.Value(e.Value)}
		}
		return out
	case bson.A:
		out := make(bson.A, len(x))
		for i, e := range x {
			out[i] = n.Value(e)
		}
		return out
	}
	return v
}

// JSON renders a value as canonical extended JSON after normalization.
func (n *Normalizer) JSON(v interface{}) string {
	b, err := bson.MarshalExtJSON(bson.D{{Key: "v", Value: n.Value(v)}}, true, false)
	if err != nil {
		return fmt.Sprintf("!%v", err)
	}
	return string(b[5 : len(b)-1])
}

// normEvent strips clock-dependent fields of an oplog event.
func normEvent(d bson.D) bson.D {
	out := bson.D{}
	for _, e := range d {
		switch e.Key {
		case "_id", "clusterTime", "wallTime":
			continue
		}
		out = append(out, e)
	}
	sort.SliceStable(out, func(i, j int) bool { return out[i].Key < out[j].Key })
	return out
}

// DumpOpts select what a dump contains.
type DumpOpts struct {
	Raw       bool // exact bytes (hex) instead of normalized JSON
	Oplog     bool // include local.oplog
	IndexList bool // include every index's List() order (as positions in the document list)
}

func handles(cat *lungo.Catalog) []lungo.Handle {
	var hs []lungo.Handle
	for h := range cat.Namespaces {
		hs = append(hs, h)
	}
	sort.Slice(hs, func(i, j int) bool { return hs[i].String() < hs[j].String() })
	return hs
}

// IndexSpec renders an index configuration.
func IndexSpec(name string, c mongokit.IndexConfig) string {
	p := "-"
	if c.Partial != nil {
		p = (&Normalizer{}).JSON(*c.Partial)
	}
	return fmt.Sprintf("%s key=%s unique=%v partial=%s expiry=%d", name, (&Normalizer{}).JSON(*c.Key), c.Unique, p, int64(c.Expiry))
}

// DumpCatalog renders a catalog canonically.
func DumpCatalog(cat *lungo.Catalog, o DumpOpts) string {
	var sb strings.Builder
	n := NewNormalizer()
	n.On = !o.Raw
	for _, h := range handles(cat) {
		if h == lungo.Oplog && !o.Oplog {
			continue
		}
		ns := cat.Namespaces[h]
		fmt.Fprintf(&sb, "ns %s docs=%d\n", h.String(), len(ns.Documents.List))
		if strings.Contains(h[0], ".") || strings.Contains(h[1], ".") {
			// "db.coll" is ambiguous when a name contains a dot
			fmt.Fprintf(&sb, " (database %q collection %q)\n", h[0], h[1])
		}
		pos := map[bsonkit.Doc]int{}
		for i, d := range ns.Documents.List {
			pos[d] = i
			if o.Raw {
				b, err := bson.Marshal(d)
				if err != nil {
					fmt.Fprintf(&sb, " !marshal %v\n", err)
				}
				sb.WriteString(" ")
				sb.WriteString(hex.EncodeToString(b))
				sb.WriteString("\n")
			} else if h == lungo.Oplog {
				fmt.Fprintf(&sb, " %s\n", n.JSON(normEvent(*d)))
			} else {
				fmt.Fprintf(&sb, " %s\n", n.JSON(*d))
			}
		}
		var names []string
		for name := range ns.Indexes {
			names = append(names, name)
		}
		sort.Strings(names)
		for _, name := range names {
			idx := ns.Indexes[name]
			fmt.Fprintf(&sb, " idx %s", IndexSpec(name, idx.Config()))
			if o.IndexList {
				sb.WriteString(" list=")
				for _, d := range idx.List() {
					p, ok := pos[d]
					if !ok {
						p = -1
					}
					fmt.Fprintf(&sb, "%d,", p)
				}
			}
			sb.WriteString("\n")
		}
	}
	return sb.String()
}

// DumpAll is the exact dump of everything visible in the engine's current catalog.
func (w *World) DumpAll() string {
	return DumpCatalog(w.Engine.Catalog(), DumpOpts{Raw: true, Oplog: true, IndexList: true})
}

// Key is the canonical state key: contents and index definitions, generated ids renamed, no oplog.
func (w *World) Key() string {
	return DumpCatalog(w.Engine.Catalog(), DumpOpts{})
}

// KeyWithOplog additionally includes the normalized oplog.
func (w *World) KeyWithOplog() string {
	return DumpCatalog(w.Engine.Catalog(), DumpOpts{Oplog: true})
}

// FindAll returns all documents of a collection through the driver API as normalized JSON lines.
func (w *World) FindAll(db, coll string, n *Normalizer) ([]string, error) {
	cur, err := w.C(db, coll).Find(w.Ctx, bson.D{})
	if err != nil {
		return nil, err
	}
	var docs []bson.D
	if err := cur.All(w.Ctx, &docs); err != nil {
		return nil, err
	}
	var out []string
	for _, d := range docs {
		out = append(out, n.JSON(d))
	}
	return out, nil
}

// WriteErrClasses renders bulk / insert-many errors per item.
func WriteErrClasses(err error) string {
	if err == nil {
		return "ok"
	}
	var wes mongo.WriteErrors
	if errors.As(err, &wes) {
		var parts []string
		for _, we := range wes {
			cls := "err"
			if strings.Contains(we.Message, "duplicate document for index") {
				cls = "dup"
			}
			parts = append(parts, fmt.Sprintf("%d:%s", we.Index, cls))
		}
		return strings.Join(parts, ",")
	}
	return ErrClass(err)
}
